"""C08 — only vars and explicitly passed pointers can be mutated."""
import random, collections
from .. import common as C
from .. import gen_prog as GP, execstream, c08tie, gen_c08, gen_mut as GM
import re


def tie(ck, cases, label):
    """real mutability.rs / function_calls.rs vs Model/Mutability.v on the typed tree of each program"""
    impl = C.run_harness("typed", cases, ck.work + "/" + label, timeout=3000)
    real = {}
    for cid, src in cases:
        parts = impl.get(cid, ["missing"])
        r = dict(verdict=parts[0], codes=c08tie.parse_codes(parts[0]) if parts[0].startswith("err") else [],
                 sexp=parts[1] if len(parts) > 1 else "-", pre=None, nonfn=[], drive="?")
        if len(parts) > 2:
            m = re.match(r"pre=(\S+) nonfn=(\S+) drive=(.*)", parts[2])
            if m:
                r["pre"] = "panic" if m.group(1) == "panic" else c08tie.parse_codes(m.group(1))
                r["nonfn"] = c08tie.parse_codes(m.group(2)); r["drive"] = m.group(3)
        real[cid] = r
    model = C.run_model([("mut", cid, real[cid]["sexp"]) for cid, _ in cases if real[cid]["sexp"].startswith("(")], ck.work + "/" + label, timeout=3000)
    stats = collections.Counter(); bad = 0
    for cid, src in cases:
        r = real[cid]; v = r["verdict"]
        if not (v == "ok" or v.startswith("ok ") or v.startswith("err codes=")):
            stats["skip:compiler-failure"] += 1; continue      # panics of the typer are C02's business
        if not r["sexp"].startswith("("):
            stats["skip:no-typed-tree"] += 1; continue
        if r["drive"] != "same":
            bad += 1; stats["DRIVE-DIFF"] += 1
            ck.violation("tie-broken:replica", "the harness replica of analyze_and_resolve differs from Compiler::analyze_and_resolve: %s vs %s" % (v, r["drive"]), src); continue
        m = re.match(r"codes (\[[0-9,]*\]) raw (\[[0-9,]*\])", model.get(cid, "MODEL-MISSING"))
        if not m:
            bad += 1; stats["MODEL-ERROR"] += 1
            ck.violation("tie-broken:model-error", "driver: %s" % model.get(cid, "")[:200], src + "\nterm: " + r["sexp"]); continue
        mc = c08tie.parse_codes(m.group(1))
        res = c08tie.compare(r["codes"], mc, r["nonfn"], r["pre"], v.startswith("err"))
        if res == "":
            stats["agree"] += 1
            if any(c in c08tie.PASS_CODES for c in r["codes"]) or mc: stats["agree-with-codes"] += 1
        elif res.startswith("skip:"):
            stats["skip"] += 1
        else:
            bad += 1; stats["DISAGREE"] += 1
            ck.violation("mutability-analysis-differs", "mutability / function-call analysis differs from Model/Mutability.v: " + res,
                         "%s\nreal : %s pre=%s nonfn=%s\nmodel: %s\nterm : %s" % (src, v, r["pre"], r["nonfn"], model.get(cid), r["sexp"]))
    ck.log("%s: %d programs %s" % (label, len(cases), dict(stats)))
    return stats, bad

T = ["i32", "u8", "i64", "u16"]

INVALID = [
    ("assign-to-value-parameter", "fn f(a: {t})\n{{\n\ta = 1;\n}}\nfn main() -> u8\n{{\n\tf(2);\n\treturn: 0\n}}\n", "530"),
    ("assign-through-array-view", "fn f(x: []{t})\n{{\n\tx[0] = 1;\n}}\nfn main() -> u8\n{{\n\tvar a: [2]{t} = [1, 2];\n\tf(a);\n\treturn: 0\n}}\n", "530"),
    ("assign-to-constant", "const K: {t} = 1;\nfn main() -> u8\n{{\n\tK = 2;\n\treturn: 0\n}}\n", "530"),
    ("assign-through-struct-view", "struct S\n{{\n\tm: {t},\n}}\nfn f(s: S)\n{{\n\ts.m = 1;\n}}\nfn main() -> u8\n{{\n\tvar s = S {{ m: 2 }};\n\tf(s);\n\treturn: 0\n}}\n", "530"),
    ("copy-array", "fn main() -> u8\n{{\n\tvar a: [2]{t} = [1, 2];\n\tvar b: [2]{t} = [3, 4];\n\tb = a;\n\treturn: 0\n}}\n", "531"),
    ("copy-array-into-structure-literal-argument", "struct S\n{{\n\tarr: [2]{t},\n\tn: {t},\n}}\nfn g(s: S) -> {t}\n{{\n\treturn: s.arr[1]\n}}\nfn main() -> u8\n{{\n\tvar a: [2]{t} = [1, 2];\n\tvar r = g(S {{ arr: a, n: 1 }});\n\treturn: 0\n}}\n", "531"),
    ("copy-array-into-structure-literal-argument-after-call", "struct S\n{{\n\tn: {t},\n\tarr: [2]{t},\n}}\nfn id(x: {t}) -> {t}\n{{\n\treturn: x\n}}\nfn g(s: S) -> {t}\n{{\n\treturn: s.arr[1]\n}}\nfn main() -> u8\n{{\n\tvar a: [2]{t} = [1, 2];\n\tvar r = g(S {{ n: id(1), arr: a }});\n\treturn: 0\n}}\n", "531"),
    ("copy-array-into-structure-literal", "struct S\n{{\n\tarr: [2]{t},\n}}\nfn main() -> u8\n{{\n\tvar a: [2]{t} = [1, 2];\n\tvar s = S {{ arr: a }};\n\treturn: 0\n}}\n", "531"),
    ("copy-struct-into-constant", "struct S\n{{\n\tm: {t},\n\tn: {t},\n}}\nconst ORIGIN: S = S {{ m: 3, n: 4 }};\nconst START: S = ORIGIN;\nfn main() -> u8\n{{\n\treturn: 0\n}}\n", "533"),
    ("copy-array-into-constant", "const TABLE: [2]{t} = [3, 4];\nconst COPY: [2]{t} = TABLE;\nfn main() -> u8\n{{\n\treturn: 0\n}}\n", "531"),
    ("copy-struct-member-into-constant", "struct S\n{{\n\tm: {t},\n}}\nstruct W\n{{\n\ts: S,\n}}\nconst ORIGIN: S = S {{ m: 3 }};\nconst WRAP: W = W {{ s: ORIGIN }};\nfn main() -> u8\n{{\n\treturn: 0\n}}\n", "533"),
    ("assign-to-local-view", "fn main() -> u8\n{{\n\tvar a: [2]{t} = [1, 2];\n\tvar x: []{t} = a;\n\tx[0] = 1;\n\treturn: 0\n}}\n", None),
    ("copy-struct", "struct S\n{{\n\tm: {t},\n}}\nfn main() -> u8\n{{\n\tvar s = S {{ m: 2 }};\n\tvar r = S {{ m: 3 }};\n\tr = s;\n\treturn: 0\n}}\n", "533"),
    ("missing-address-pointer", "fn bump(q: &{t})\n{{\n\tq = q + 1;\n}}\nfn main() -> u8\n{{\n\tvar v: {t} = 1;\n\tbump(v);\n\treturn: 0\n}}\n", "513"),
    ("missing-address-slice-pointer", "fn fill(p: &[]{t})\n{{\n\tp[0] = 1;\n}}\nfn main() -> u8\n{{\n\tvar a: [2]{t} = [1, 2];\n\tfill(a);\n\treturn: 0\n}}\n", "513"),
    ("missing-address-forwarded-slice-pointer", "fn fill(data: &[]{t})\n{{\n\tdata[0] = 99;\n}}\nfn relay(data: &[]{t})\n{{\n\tfill(data);\n}}\nfn main() -> u8\n{{\n\tvar a: [3]{t} = [1, 2, 3];\n\trelay(&a);\n\treturn: 0\n}}\n", "513"),
    ("missing-address-extern-pointer", "extern fn bump(q: &{t});\nfn main() -> u8\n{{\n\tvar v: {t} = 1;\n\tbump(v);\n\treturn: 0\n}}\n", "513"),
    ("missing-address-extern-slice-pointer", "extern fn fill(p: &[]{t});\nfn main() -> u8\n{{\n\tvar a: [2]{t} = [1, 2];\n\tfill(a);\n\treturn: 0\n}}\n", "513"),
    ("missing-address-extern-defined", "extern fn fill(p: &[]{t})\n{{\n\tp[0] = 7;\n}}\nfn main() -> u8\n{{\n\tvar a: [2]{t} = [1, 2];\n\tfill(a);\n\treturn: 0\n}}\n", "513"),
    ("cast-view-to-pointer", "fn poke(data: ([..]{t}))\n{{\n\tvar p: &[..]{t} = cast data;\n\tp[1] = 99;\n}}\nfn main() -> u8\n{{\n\tvar a: []{t} = [1, 2, 3];\n\tpoke(a);\n\treturn: 0\n}}\n", "553"),
    ("cast-extern-view-to-pointer", "extern fn poke(data: []{t})\n{{\n\tvar p: &[..]{t} = cast data;\n\tp[1] = 99;\n}}\nfn main() -> u8\n{{\n\tvar a: [3]{t} = [1, 2, 3];\n\tpoke(a);\n\treturn: 0\n}}\n", "5"),
    ("view-as-structure-member", "struct P\n{{\n\tx: {t},\n}}\nstruct Holder\n{{\n\tv: (P),\n}}\nfn set(x: &{t})\n{{\n\tx = 42;\n}}\nfn poke(p: P)\n{{\n\tvar h = Holder {{ v: p }};\n\tset(&h.v.x);\n}}\nfn main() -> u8\n{{\n\tvar a = P {{ x: 1 }};\n\tpoke(a);\n\treturn: 0\n}}\n", "356"),
    ("array-view-as-structure-member", "struct Holder\n{{\n\tv: ([..]{t}),\n}}\nfn main() -> u8\n{{\n\treturn: 0\n}}\n", "356"),
    ("address-of-constant-in-constant", "const LIMIT: {t} = 10;\nconst LIMIT_PTR: &{t} = &LIMIT;\nfn bump(x: &{t})\n{{\n\tx = x + 1;\n}}\nfn main() -> u8\n{{\n\tbump(&LIMIT_PTR);\n\treturn: 0\n}}\n", "360"),
    ("assign-through-constant-pointer", "const LIMIT: {t} = 10;\nconst P: &{t} = &LIMIT;\nfn main() -> u8\n{{\n\tP = 7;\n\treturn: 0\n}}\n", "360"),
    ("assign-through-extern-view", "extern fn f(x: []{t})\n{{\n\tx[0] = 1;\n}}\nfn main() -> u8\n{{\n\tvar a: [2]{t} = [1, 2];\n\tf(a);\n\treturn: 0\n}}\n", "530"),
    ("copy-array-into-element", "fn id(i: usize) -> usize\n{{\n\treturn: i\n}}\nfn main() -> u8\n{{\n\tvar m: [2][2]{t} = [[1, 2], [3, 4]];\n\tvar row: [2]{t} = [5, 6];\n\tm[id(0)] = row;\n\treturn: 0\n}}\n", "531"),
    ("address-of-constant", "const K: {t} = 1;\nfn bump(q: &{t})\n{{\n\tq = q + 1;\n}}\nfn main() -> u8\n{{\n\tbump(&K);\n\treturn: 0\n}}\n", None),
    ("address-of-value-parameter", "fn bump(q: &{t})\n{{\n\tq = q + 1;\n}}\nfn g(a: {t})\n{{\n\tbump(&a);\n}}\nfn main() -> u8\n{{\n\tg(1);\n\treturn: 0\n}}\n", None),
    ("address-of-view-element-holder", "fn fill(p: &[]{t})\n{{\n\tp[0] = 1;\n}}\nfn g(x: []{t})\n{{\n\tfill(&x);\n}}\nfn main() -> u8\n{{\n\tvar a: [2]{t} = [1, 2];\n\tg(a);\n\treturn: 0\n}}\n", None),
]

# the address of something read-only (a member of a structure view, of an element of a view of structures, of a value
# parameter, of a constant) handed to a function that writes through it, wherever that call stands: in the index of a
# reference that is only read, inside a cast, a length, a literal, a condition ...  (code None: any rejection).
# `poke` returns 0 so that the call can stand for an index.
_ADDR_PRE = ("struct S\n{{\n\tx: {t},\n\tarr: [2]{t},\n}}\nconst K: {t} = 1;\nfn poke(p: &{t}) -> usize\n{{\n\tp = 9;\n\treturn: 0\n}}\nfn id(i: usize) -> usize\n{{\n\treturn: i\n}}\n")
_ADDR_TARGETS = [("struct-view-member", "s: S", "&s.x"), ("slice-of-structs-member", "a: []S", "&a[1].x"), ("value-parameter", "v: {t}", "&v"), ("constant", "v: {t}", "&K"),
                 ("struct-view-member-element", "s: S", "&s.arr[1]"), ("slice-of-structs-member-element", "a: []S", "&a[0].arr[1]")]
_ADDR_CTX = [("statement", "\tvar r = poke({a});\n"), ("index-of-read", "\tvar r = table[poke({a})];\n"), ("index-of-written", "\ttable[poke({a})] = 0;\n"), ("index-of-length", "\tvar r = |rows[poke({a})]|;\n"),
             ("cast", "\tvar r = poke({a}) as u64;\n"), ("argument", "\tvar r = id(poke({a}));\n"), ("binary", "\tvar r = 1 + poke({a});\n"), ("array-literal", "\tvar r = [poke({a}), 1];\n"),
             ("condition", "\tif poke({a}) == 0\n\t{{\n\t\ttable[0] = 1;\n\t}}\n"), ("nested-index", "\tvar r = table[id(table[poke({a})] as usize)];\n"), ("paren", "\tvar r = (poke({a}));\n"),
             ("index-in-argument", "\tvar r = id(table[poke({a})] as usize);\n"),
             ("print-argument", "\tprint!(\"b \", poke({a}), \"\\n\");\n"), ("eprint-argument", "\teprint!(poke({a}));\n"), ("panic-argument", "\tpanic!(\"p\", poke({a}));\n"),
             ("format-argument", "\tvar t = format!(\"f\", poke({a}));\n"), ("print-index-argument", "\tprint!(table[poke({a})]);\n")]
for _tn, _par, _addr in _ADDR_TARGETS:
    for _cn, _ctx in _ADDR_CTX:
        INVALID.append(("address-of-%s-in-%s" % (_tn, _cn),
                        _ADDR_PRE + "fn g(" + _par + ")\n{{\n\tvar table: [2]i32 = [10, 20];\n\tvar rows: [2][3]i32;\n" + _ctx.replace("{a}", _addr) + "}}\nfn main() -> u8\n{{\n\treturn: 0\n}}\n", None))
VALID = [
    ("write-through-pointer", "fn bump(q: &{t})\n{{\n\tq = q + 1;\n}}\nfn main() -> u8\n{{\n\tvar v: {t} = 1;\n\tbump(&v);\n\tprint!(v, \"\\n\");\n\treturn: 0\n}}\n", "2\n"),
    ("write-through-slice-pointer", "fn fill(p: &[]{t})\n{{\n\tp[1] = 9;\n}}\nfn main() -> u8\n{{\n\tvar a: [2]{t} = [1, 2];\n\tfill(&a);\n\tprint!(a[0], a[1], \"\\n\");\n\treturn: 0\n}}\n", "19\n"),
    ("view-does-not-change-caller", "fn look(x: []{t}) -> {t}\n{{\n\treturn: x[0]\n}}\nfn main() -> u8\n{{\n\tvar a: [2]{t} = [1, 2];\n\tvar r: {t} = look(a);\n\tprint!(a[0], a[1], r, \"\\n\");\n\treturn: 0\n}}\n", "121\n"),
    ("value-does-not-change-caller", "fn twice(a: {t}) -> {t}\n{{\n\tvar b: {t} = a;\n\tb = b + b;\n\treturn: b\n}}\nfn main() -> u8\n{{\n\tvar v: {t} = 3;\n\tvar r: {t} = twice(v);\n\tprint!(v, r, \"\\n\");\n\treturn: 0\n}}\n", "36\n"),
    # "a call can change a variable of its caller only if the caller wrote `&` on that argument": a pointer stored INSIDE
    # a structure or an array that is passed as a view (listed finding D74; Props/C08.v C08_pointer_inside_view_refuted)
    ("pointer-inside-struct-view", "struct Holder\n{{\n\tp: &{t},\n}}\nfn poke(h: Holder)\n{{\n\th.p = 5;\n}}\nfn main() -> u8\n{{\n\tvar x: {t} = 1;\n\tvar h = Holder {{ p: &x }};\n\tpoke(h);\n\tprint!(x, \"\\n\");\n\treturn: 0\n}}\n", "1\n"),
    ("pointer-inside-array-view", "fn poke(v: []&{t})\n{{\n\tv[0] = 5;\n}}\nfn main() -> u8\n{{\n\tvar x: {t} = 1;\n\tvar ps: [1]&{t} = [&x];\n\tpoke(ps);\n\tprint!(x, \"\\n\");\n\treturn: 0\n}}\n", "1\n"),
    ("pointer-to-pointer", "fn retarget(pp: &&{t}, other: &{t})\n{{\n\t&pp = &other;\n\tpp = 7;\n}}\nfn main() -> u8\n{{\n\tvar a: {t} = 1;\n\tvar b: {t} = 2;\n\tvar p: &{t} = &a;\n\tretarget(&&p, &b);\n\tprint!(a, b, \"\\n\");\n\treturn: 0\n}}\n", None),
]


def run(tier):
    ck = C.Check("C08", tier)
    proof_ok = ck.prove()
    if not ck.builds():
        ck.violation("tie-broken:build", "model or harness does not build", "see log")
        return ck.finish()
    cases = []
    for name, tmpl, code in INVALID:
        for t in T: cases.append(("inv:%s:%s" % (name, t), tmpl.format(t=t), ("invalid", code)))
    for name, tmpl, out in VALID:
        for t in T: cases.append(("val:%s:%s" % (name, t), tmpl.format(t=t), ("valid", out)))
    impl = C.run_harness("exec", [(c[0], c[1]) for c in cases], ck.work + "/rules", timeout=1800)
    bad = 0; stats = collections.Counter()
    for cid, src, (kind, exp) in cases:
        f = impl.get(cid, ["missing"])
        if cid.startswith("inv:missing-address-forwarded-slice-pointer:") and "typer.rs:2958" in f[0]:
            # the typer's `fully_dereferenced` panic on a forwarded slice pointer (C02's listed D11): not accepted
            stats["invalid:not-accepted(D11 panic)"] += 1; continue
        if not (f[0].startswith("ok") or f[0].startswith("err codes=")):
            ck.violation(C.failure_key(f[0]), "compiler failed on %s: %s" % (cid, f[0][:160]), src); continue
        if kind == "invalid":
            stats["invalid:" + ("rejected" if f[0].startswith("err") else "ACCEPTED")] += 1
            if f[0].startswith("ok"):
                bad += 1; ck.violation("mutation-accepted:" + cid.split(":")[1], "a program that mutates through %s is accepted" % cid.split(":")[1], src)
            elif exp and exp not in f[0]:
                bad += 1; ck.violation("wrong-code:" + cid.split(":")[1], "%s is rejected with %s, expected E%s" % (cid, f[0], exp), src)
        else:
            stats["valid:" + ("accepted" if f[0].startswith("ok") else "REJECTED")] += 1
            if not f[0].startswith("ok"):
                bad += 1; ck.violation("valid-rejected:" + cid.split(":")[1], "a valid program (%s) is rejected: %s" % (cid, f[0]), src)
            elif exp is not None:
                out = C.unesc(f[1].split(" out=", 1)[1].split(" stderr=")[0]).decode()
                if out != exp:
                    bad += 1; ck.violation("wrong-effect:" + cid.split(":")[1], "%s prints %r, expected %r" % (cid, out, exp), src)
    ck.log("rule programs: %d %s, %d problems" % (len(cases), dict(stats), bad))
    # the analyzers against the model, on the typed tree of every program
    tcases = [(cid, src) for cid, src in gen_c08.generate()]
    tcases += gen_c08.random_programs(600 if tier == "quick" else 40000, ck.seed)
    tcases += [("corpus:" + name, src) for name, src in GM.corpus() if name.startswith("tests/samples") or name.startswith("examples")]
    tstats, tbad = tie(ck, tcases, "tie")
    bad += tbad
    # generated programs: every call of a view/value/slice-pointer/pointer callee, caller state printed, vs the interpreter
    n = 150 if tier == "quick" else 20000
    ne, estats, dout, srcs = execstream.run(ck, n, ck.seed + 8, level=3, label="exec")
    ck.log("generated programs with calls through every parameter kind: %d runs %s" % (ne, dict(estats)))
    # the tie of Model/CallFrame.v: verdict and effect of generated callees on the caller's variables
    from .. import cftie
    cfn, cfstats, cfbad = cftie.run(ck, 500 if tier == "quick" else 30000, ck.seed + 88)
    bad += cfbad
    if not proof_ok:
        ck.violation("tie-broken:proof", "Props/C08.v no longer checks", getattr(ck, "proof_output", "")[-2000:])
    ck.coverage.update(
        evaluations=len(cases) + ne, distinct_nontrivial=len(cases) + dout,
        rule="rule programs: for 4 element types, single-fault programs that try to mutate through a by-value parameter, an array view, a struct view, a constant, copy an array / struct, pass a pointer argument without `&`, or take the address of something immutable (must be rejected, with E530 / E531 / E533 / E513 where the property names the code), and their valid counterparts (effect on the caller's variables printed); generated programs (level 3) in which callees read views of arrays and structures, write through slice pointers, pointers and pointers to structures, pointer variables are retargeted, and the caller prints its variables after every call, compared with the interpreter; distinct = rule programs + distinct outputs",
        stats=dict(stats), problems=bad, exec_stats=dict(estats), tie_programs=len(tcases), tie_stats=dict(tstats),
        tie_rule="typed-tree correspondence: for every program the declarations are serialised just before Analyzer::analyze (types, references with the typer's auto-inserted steps, address depths, call argument types) and the extracted passes of Model/Mutability.v (function_calls then mutability, with the model's own decision functions) must predict exactly the multiset of E352/E510-E513/E530-E533 the real compiler reports; programs rejected by an earlier stage are skipped and counted; systematic programs (7 binding kinds x every operation), 104 interaction cases, random multi-statement programs, the repository's samples",
        samples=[dict(case=cases[0][0], source=cases[0][1], result=impl.get(cases[0][0], ["?"])[0])])
    return ck.finish()
