"""C13 — diagnostics are well-located, documented and deterministic."""
import random, collections, re, hashlib
from .. import common as C
from .. import gen_mut as GM
from .. import gen_prog as GP


def check_location(src_by_file, d):
    """d = code@file:start-end:line:offset:status.  Returns None or a complaint."""
    d = d.split("#")[0]
    m = re.match(r"(\d+)@(.*):(\d+)-(\d+):(\d+):(\d+):(.*)$", d)
    if not m: return "unparsable diagnostic " + d
    code, fname, s, e, line, off, status = m.group(1), m.group(2), int(m.group(3)), int(m.group(4)), int(m.group(5)), int(m.group(6)), m.group(7)
    if status.startswith("hdrline"): return "rendered header shows line %s, the diagnostic's line_number is %s" % (status[7:].split(",")[0], line)
    if status != "ok": return "rendering problem: " + status
    if fname not in src_by_file: return "location names unknown file " + fname
    text = src_by_file[fname]
    n = len(text)
    if text == "":
        return None if (s, e) == (0, 0) else "span outside empty file"
    if not (0 <= s <= e <= n): return "span %d..%d outside the file (%d chars)" % (s, e, n)
    # the line that contains character offset s
    before = text[:s]
    real_line = before.count("\n") + 1
    real_off = s - (before.rfind("\n") + 1)
    if line != real_line:
        # a location at the very end of a line may be reported for the end of the previous token
        return "span starts on line %d but line_number says %d" % (real_line, line)
    # (line_offset is not part of the property: for some lexical errors it is the column where the
    #  error was noticed, not where the span starts)
    return None


def run(tier):
    ck = C.Check("C13", tier)
    proof_ok = ck.prove()
    if not ck.builds():
        ck.violation("tie-broken:build", "model or harness does not build", "see log")
        return ck.finish()
    rng = random.Random(ck.seed)
    n = 1500 if tier == "quick" else 60000
    cases = [("d%d" % i, k, s) for i, (k, s) in enumerate(GM.stream(rng, n))]
    # identifier faults whose offending text is known
    known = []
    for i in range(n // 10):
        g = GP.Gen(random.Random(rng.getrandbits(64)))
        src = GP.source(g.program(), random.Random(i), plain=True)
        idents = [m for m in re.finditer(r"\bv\d+\b", src) if not src[:m.start()].endswith("var ")]
        if not idents: continue
        m = rng.choice(idents)
        src2 = src[:m.start()] + "qq7" + src[m.end():]
        if rng.random() < 0.3: src2 = "// café €\n" + src2
        if rng.random() < 0.2: src2 = GM.crlf(src2)
        known.append(("k%d" % i, "known-ident", src2))
    # constructs whose diagnostics combine several token locations, broken over lines at every token gap
    probes = ["var b: bool = cast a as u32;", 'var y: i32 = "abc" "def" "ghi";', "var z: i32 = a + true;", "var w: i32 = a as bool;",
              "var c: i32 = f ( 1 , 2 , 3 );", "var q: [2]i32 = [ 1 , 2 , 3 ];", "a = - true;", "var e: i32 = ( a ) & ( true );", "var m = S { v: true , w: 1 };",
              "if a == true { a = 1; }", "var p: &i32 = & & a;", "var l: usize = | a |;", "var s: i32 = a << 1u8;"]
    multi = []
    for pi, st in enumerate(probes):
        toks = st.split(" ")
        gaps = list(range(1, len(toks)))
        combos = [(g,) for g in gaps] + [(g, h) for g in gaps for h in gaps if g < h][: (10 if tier == "quick" else 200)]
        for ci, combo in enumerate(combos):
            body = ""
            for ti, t in enumerate(toks):
                body += ("\n\t\t" if ti in combo else (" " if ti else "")) + t
            src = "struct S\n{\n\tv: i32,\n\tw: i32,\n}\nfn f(x: i32) -> i32\n{\n\treturn: x\n}\nfn main()\n{\n\tvar a: i32 = 1;\n\t%s\n}\n" % body
            multi.append(("p%d.%d" % (pi, ci), "multi-line-construct", src))
    # faults whose offending line is known: the primary location must be on the line marked HERE
    # (helper declarations and other uses of the same names sit on other lines, in other files)
    PRE = "fn helper(x: i32) -> i32\n{\n\treturn: x\n}\nconst K: i32 = 5;\nstruct S\n{\n\tm: i32,\n}\nfn view(a: []i32) -> i32\n{\n\treturn: a[0]\n}\nfn ptr(p: &i32)\n{\n\tp = 1;\n}\n"
    offenders = [("511", "var r: i32 = helper(1, 2);"), ("510", "var r: i32 = helper();"), ("512", "var r: i32 = helper(true);"), ("513", "var v: i32 = 1; ptr(v);"),
                 ("402", "var r: i32 = nowhere;"), ("401", "var r: i32 = nofn(1);"), ("530", "K = 2;"), ("504", "var r: i32 = 0; r = true;"),
                 ("551", "var r: i32 = 1; var q: i64 = 2; var t: i32 = r + q;"), ("550", "var r: bool = true; var t: bool = r + r;"), ("552", "var r: bool = true; var t: char8 = r as char8;"),
                 ("531", "var a: [2]i32 = [1, 2]; var b: [2]i32 = [3, 4]; b = a;"), ("400", "goto nolabel;"), ("422", "var r: i32 = 1; var r: i32 = 2;"),
                 ("405", "var r: Nope = Nope { };"), ("406", "var r = S { zz: 1 };"), ("581", "var r = [];"), ("501", "var r: i32 = 1; var t: i32 = r[0];")]
    marked = []
    for oi, (code, stmt) in enumerate(offenders):
        for pad in (0, 3):
            parts = stmt.split("; ")
            body = "".join("\t%s%s\n" % (p, "" if p.endswith(";") else ";") for p in parts[:-1]) + "\n" * pad + "\t" + parts[-1] + " // HERE\n"
            src = "// é€ comment\n" * (pad // 3) + PRE + "fn main()\n{\n" + body + "}\n"
            marked.append(("o%d.%d" % (oi, pad), "known-offender:" + code, src))
    # offenders in programs of two modules: the diagnostic names the file and line of the offending text, not the
    # declaration it refers to in the other module
    for mi, (code, lib, main_) in enumerate([
        ("500", "pub const LEN: i32 = 4;\n", "import \"lib.pn\";\nfn main()\n{\n\tvar bytes: [LEN]u8; // HERE\n}\n"),
        ("433", "pub fn len() -> usize\n{\n\treturn: 4\n}\n", "import \"lib.pn\";\nfn main()\n{\n\tvar bytes: [len]u8; // HERE\n}\n"),
        ("351", "// a library\npub fn make_table(seed: i32)\n\t-> [4]i32 // HERE\n{\n\treturn: [seed, 1, 2, 3]\n}\n", "import \"lib.pn\";\nfn main()\n{\n\tvar t = make_table(1);\n}\n"),
        ("512", "pub fn take(x: i32)\n{\n}\n", "import \"lib.pn\";\nfn main()\n{\n\tvar b: bool = true;\n\ttake(b); // HERE\n}\n"),
        ("402", "pub const K: i32 = 1;\n", "import \"lib.pn\";\nfn main()\n{\n\tvar r: i32 = K + nowhere; // HERE\n}\n")]):
        for order in (0, 1):
            mods = [("main.pn", main_), ("lib.pn", lib)]
            if order: mods.reverse()
            marked.append(("om%d.%d" % (mi, order), "known-offender:" + code, "".join("//// module %s\n%s" % m for m in mods)))
    # the SECOND operator of a chain is the offender (the third operand has another type): the diagnostic sits on
    # the operator's own line, not on the operand before it
    for ci, op in enumerate(["|", "&", "^", "+", "-", "*", "/", "%"]):
        for third, code in (("c", "551"),):
            body = "\tvar a: u8 = 1;\n\tvar b: u8 = 2;\n\tvar c: u16 = 3;\n\tvar x: u8 = a %s b\n\t\t%s %s; // HERE\n" % (op, op, third)
            marked.append(("oc%d" % ci, "known-offender:" + code, "fn main()\n{\n" + body + "}\n"))
        # three operators, the last one offends
        body = "\tvar a: i32 = 1;\n\tvar b: i32 = 2;\n\tvar c: i64 = 3;\n\tvar x: i32 = a %s b\n\t\t%s a\n\t\t%s c; // HERE\n" % (op, op, op)
        marked.append(("od%d" % ci, "known-offender:551", "fn main()\n{\n" + body + "}\n"))
    # the argument that lacks its `&` is the offender (E513), not the name of the called function
    marked.append(("o513a", "span-text:513:total", "fn increment(counter: &i32)\n{\n\tcounter = counter + 1;\n}\nfn main()\n{\n\tvar total: i32 = 0;\n\tincrement(total);\n}\n"))
    marked.append(("o513b", "known-offender:513", "fn swap(a: &i32, b: &i32)\n{\n}\nfn main()\n{\n\tvar p: i32 = 0;\n\tvar q: i32 = 1;\n\tswap(&p,\n\t\tq); // HERE\n}\n"))
    marked.append(("o512b", "known-offender:512", "fn take(a: i32, b: bool)\n{\n}\nfn main()\n{\n\tvar p: i32 = 0;\n\ttake(p,\n\t\tp); // HERE\n}\n"))
    marked.append(("o358a", "known-offender:358", "extern fn checksum(\n\tdata: []u128, // HERE\n\tlength: usize\n) -> u64;\nfn main()\n{\n}\n"))
    marked.append(("o358b", "known-offender:358", "extern fn flags(\n\tcount: usize,\n\tbits: []bool // HERE\n);\nfn main()\n{\n}\n"))
    marked.append(("o358c", "known-offender:358", "extern fn wide(\n\tvalue: u128 // HERE\n);\nfn main()\n{\n}\n"))
    # diagnostics with secondary labels: the excerpts shown are exactly the lines marked SHOWN (the `goto` that
    # does skip the declaration, not a later `goto` to the same label; both declarations of a duplicate)
    def skip_prog(before, after):
        b = "fn foo(x: i32) -> i32\n{\n\tvar result = 300;\n"
        for k in range(before):
            b += "\tif x == %d\n\t\tgoto calculations; // %s\n" % (400 + k, "SHOWN" if k == 0 else "")
        b += "\tvar a: i32 = 5; // SHOWN\n"
        for k in range(after):
            b += "\tif x == %d\n\t\tgoto calculations;\n\tresult = result + 1;\n" % (500 + k)
        b += "\tcalculations: // SHOWN\n\ta = 2 * a; // SHOWN\n\tresult = result + a;\n\treturn: result\n}\nfn main() -> i32\n{\n\treturn: foo(404)\n}\n"
        return b
    for bi, (nb, na) in enumerate([(1, 0), (1, 1), (1, 2), (1, 3)]):
        marked.append(("sl482.%d" % bi, "shown-lines:482", skip_prog(nb, na)))
    marked.append(("sl422", "shown-lines:422", "fn main()\n{\n\tvar r: i32 = 1; // SHOWN\n\tvar q: i32 = 2;\n\tvar r: i32 = 3; // SHOWN\n}\n"))
    marked.append(("sl420", "shown-lines:420", "fn main()\n{\n\tvar r: i32 = 1;\n\tagain: // SHOWN\n\tr = 2;\n\tagain: // SHOWN\n\tr = 3;\n}\n"))
    # the returned value is the offender (E333: the value does not have the declared return type)
    marked.append(("orv", "known-offender:333", "fn foo() -> i32\n{\n\tvar x: bool = true;\n\treturn: x // HERE\n}\nfn main()\n{\n}\n"))
    marked.append(("orv2", "known-offender:333", "fn foo(a: i32) -> bool\n{\n\tif a == 1\n\t{\n\t\ta = 2;\n\t}\n\treturn: a // HERE\n\n\n}\nfn main()\n{\n}\n"))
    # a lexically broken literal earlier on the line: the tokens after it keep their places
    for ui2, lit in enumerate(['"a\\qb"', "'ab'", '"\\u{110000}"', '"\\xZ1"', "'\\q'"]):
        known.append(("kb%d" % ui2, "known-ident", "fn main()\n{\n\tvar v0: i32 = 1;\n\tprint!(%s, qq7, \"\\n\");\n}\n" % lit))
    # a syntax error after a lexically broken literal on the same line (nothing later than the parser runs then)
    for ui3, lit in enumerate(['"a\\qb"', "'ab'", '"\\u{110000}"', '"\\xZ1" "ok"', "'\\q'", '"caf\\u{e9}"']):
        marked.append(("sb%d" % ui3, "span-text:300:=", "const A: []char8 = %s; const B: = 1;\n" % lit))
        marked.append(("sc%d" % ui3, "span-text:300:}", "fn main()\n{\n\tvar a = %s; var b: i32 = ;\n}\n" % lit if False else "fn main()\n{\n\tvar a = %s; var b: i32 = 1 }\n" % lit))
    # text before the offender on the same line whose length in characters differs from its length in the source
    for ui, lit in enumerate(['"caf\\u{e9}: "', '"\\u{1F600}\\u{20ac}"', '"\\x41\\n\\t"', "'\\u{41}'", '"é€😀"', '"a" "b"']):
        known.append(("ku%d" % ui, "known-ident", "fn main()\n{\n\tvar v0: i32 = 1;\n\tprint!(%s, qq7, \"\\n\");\n}\n" % lit))
    # the end of the file without a final newline, in every token state; and characters that some renderers
    # take for line ends although the lexer (and every editor) does not: the line shown is the line reported
    edges = []
    for ei, tail in enumerate(['"abc\\', '"abc', "'a", "'", "'\\", "0x", "12ab", "x", "x +", "$", "// c", '"a\\n', "@", "é", '"é\\', "var y = \"q\\"]):
        for pre in ("fn main() -> i32\n{\n\tvar x = ", ""):
            edges.append(("e%d.%d" % (ei, len(pre)), "end-of-file", pre + tail))
    for li, sep in enumerate(["\x0b", "\x0c", "\u0085", "\u2028", "\u2029", "\r"]):
        for where in ("// a%sb\n", "\tvar s = \"a%sb\";\n"):
            edges.append(("l%d.%d" % (li, len(where)), "odd-line-separator", "fn main() -> i32\n{\n" + (where % sep) + "\tvar x = nowhere;\n\treturn: 0\n}\n"))
    # programs that are ACCEPTED and raise every lint there is (L1142, L1800; in one program, in several, after
    # one another): lints are rendered like errors, under their published tag `[L<code>] Warning:`
    L1800 = "fn main() -> i32\n{\n\tvar x = 33;\n\tvar i = 1;\n\t{\n\t\tx = x * i;\n\t\ti = i + 1;\n\t\tif i != 10\n\t\t{\n\t\t\tloop;\n\t\t}\n\t}\n%s\tx = x + 1;\n\treturn: x\n}\n"
    lints = [("lint0", "lint", L1800 % ""), ("lint1", "lint", L1800 % "\tvar t: u8 = 300;\n"), ("lint2", "lint", "fn main()\n{\n\tvar t: u8 = 300;\n\tvar u: i8 = -129;\n\tvar w: u16 = 0x10000;\n}\n"),
             ("lint3", "lint", "fn f(c: bool)\n{\n\tif c\n\t{\n\t\tloop;\n\t}\n\telse\n\t{\n\t\tloop;\n\t}\n}\nfn main()\n{\n\tf(false);\n}\n"),
             ("lint4", "lint", "//// module lib.pn\npub fn g(c: bool) -> u8\n{\n\tif c\n\t{\n\t\tloop;\n\t}\n\treturn: 256\n}\n//// module main.pn\nimport \"lib.pn\";\nfn main()\n{\n\tvar r = g(false);\n\tvar big: i16 = 40000;\n}\n")]
    allc = cases + known + multi + marked + edges + lints
    impl = C.run_harness("diag", [(c[0], c[2]) for c in allc], ck.work + "/diag", timeout=1800)
    stats = collections.Counter(); codes_seen = collections.Counter(); bad = 0
    for cid, kind, src in allc:
        f = impl.get(cid, ["missing"])
        stats[f[0].split(" ")[0].split(":")[0]] += 1
        if f[0] in ("not-utf8",): continue
        if f[0] not in ("ok", "err", "err-empty"):
            # crashes are C02's business; C13 only looks at diagnostics that exist
            continue
        files = dict(GM_split(src))
        diags = f[1].split(" ") if len(f) > 1 and f[1] else []
        if kind.startswith("span-text:"):
            # the diagnostic of this code must cover exactly this text
            _, want, txt = kind.split(":", 2)
            mine = [re.match(r"\d+@(.*):(\d+)-(\d+):", d) for d in diags if d.startswith(want + "@")]
            if mine and not any(files.get(m_.group(1), "")[int(m_.group(2)):int(m_.group(3))] == txt for m_ in mine if m_):
                bad += 1
                ck.violation("span-misses-offender:E" + want, "E%s covers %s, the offending text is `%s`" % (want, [files.get(m_.group(1), "")[int(m_.group(2)):int(m_.group(3))] for m_ in mine if m_], txt), "source:\n%s\ndiagnostics: %s" % (src, f[1]))
        if kind.startswith("shown-lines:"):
            want = kind.split(":")[1]
            text_ = files["case.pn"]
            expect = sorted(i + 1 for i, l_ in enumerate(text_.split("\n")) if l_.endswith("// SHOWN"))
            for d in diags:
                if d.startswith(want + "@") and "%" in d:
                    got = sorted(int(x) for x in d.rsplit("%", 1)[1].split(",") if x)
                    if got != expect:
                        bad += 1
                        ck.violation("labels-elsewhere:E" + want, "E%s shows excerpts of lines %s, the lines involved are %s" % (want, got, expect), "source:\n%s\ndiagnostics: %s" % (src, f[1]))
        if kind.startswith("known-offender:"):
            want = kind.split(":")[1]
            hfile = [fn_ for fn_, text_ in files.items() if "// HERE" in text_][0]
            here = 1 + files[hfile][:files[hfile].index("// HERE")].count("\n")
            mine = [d for d in diags if d.startswith(want + "@")]
            def at(d_):
                m_ = re.match(r"\d+@(.*):(\d+)-(\d+):(\d+):", d_.split("#")[0])
                return (m_.group(1), int(m_.group(4)))
            if not mine:
                stats["offender-code-other"] += 1      # the construct is reported with another code: not a location matter
            elif not all(at(d) == (hfile, here) for d in mine):      # (every module that reports it: the importer sees the same text)
                bad += 1
                ck.violation("primary-location-elsewhere:E" + want, "E%s is reported at %s, the offending construct is on line %d" % (want, [d.split("#")[0] for d in mine], here), "source:\n%s" % src)
        for d in diags:
            codes_seen[d.split("@")[0]] += 1
            why = check_location(files, d)
            if why:
                bad += 1
                crlf = "crlf" if "\r" in src else "lf"
                key = "bad-location:%s:%s" % (why.split(" ")[0], crlf)
                dm = re.match(r"(\d+)@(.*):(\d+)-(\d+):", d)
                ftext = files.get(dm.group(2), "") if dm else ""
                if why.startswith("rendered header") and re.search("[\x0b\x0c\u0085\u2028\u2029]|\r(?!\n)", ftext):
                    key = "bad-location:rendered-line:odd-line-separator"     # (the listed class D65)
                elif why.startswith("span") and dm and dm.group(1) == "161" and int(dm.group(4)) == len(ftext) + 1 and ftext.endswith("\\"):
                    key = "bad-location:span-past-end:trailing-backslash"      # (the listed class D64)
                ck.violation(key, "diagnostic %s: %s" % (d, why), "kind: %s\nsource:\n%s" % (kind, src))
        if kind == "known-ident":
            hit = False
            for d in diags:
                m = re.match(r"(\d+)@(.*):(\d+)-(\d+):", d)
                if m and m.group(1) == "402":
                    text = files.get(m.group(2), "")
                    if text[int(m.group(3)):int(m.group(4))] == "qq7": hit = True
            if not hit and "qq7" in src and f[0] == "err" and any(d.startswith("402@") for d in diags):
                bad += 1
                ck.violation("span-misses-offender:" + ("crlf" if "\r" in src else "lf"), "E402 for the undefined name 'qq7' does not cover that name", "source:\n%s\ndiagnostics: %s" % (src, f[1]))
    ck.log("diag: %d inputs, verdicts %s, %d location problems, %d distinct codes" % (len(allc), dict(stats), bad, len(codes_seen)))
    # the second generation's diagnostics: the line of a lexical error is the line its span starts on, with LF and with
    # CRLF line ends, after comments, strings and blank lines
    dl = []
    for li, body in enumerate(["fn main()\n{\n\tvar x = 1;\n\tvar y = $;\n}\n", "// c\n\n\nconst A: i32 = 1;\nconst B: i32 = 12ab;\n", "fn f()\n{\n\tvar s = \"a b\";\n\n\tvar t = 'ab';\n\tvar u = 0x;\n}\n",
                               "\n\n\n\n@\n", "fn f()\n{\n}\n\n\nfn g()\n{\n\tvar c = \"\\q\";\n}\n"]):
        for eol in ("\n", "\r\n"):
            dl.append(("dl%d%s" % (li, "c" if eol != "\n" else "l"), body.replace("\n", eol)))
    dimpl = C.run_harness("lex", dl, ck.work + "/deltalines", timeout=600)
    dbad = 0
    for cid, src in dl:
        f = dimpl.get(cid, ["missing", "missing"])
        for gen, line in (("first", f[0]), ("second", f[1] if len(f) > 1 else "missing")):
            for t in line.split("|")[0].split(";"):
                parts = t.split(" ")
                if len(parts) >= 7 and parts[0] == "Error":
                    start = int(parts[3]); ln = int(parts[5])
                    real = 1 + (src.encode("utf-8")[:start].count(b"\n") if gen == "second" else src[:start].count("\n"))
                    if ln != real:
                        dbad += 1; bad += 1
                        ck.violation("bad-location:lexer-line:%s:%s" % (gen, "crlf" if "\r" in src else "lf"), "%s-generation lexer: E%s has a span that starts on line %d but reports line %d" % (gen, parts[1], real, ln), "source: %r\ntokens: %s" % (src, line[:600]))
    ck.log("lexical errors of both lexers, LF and CRLF: %d inputs, %d line problems" % (len(dl), dbad))
    # determinism: the same inputs in three fresh processes
    det = [(c[0], c[2]) for c in allc[: (300 if tier == "quick" else 5000)]]
    multimod = []
    for i, (dupf, nimp) in enumerate([(True, 2), (True, 3), (False, 4), (True, 4)]):
        mods = ["//// module lib%d.pn\npub fn %s(x: i32) -> i32\n{\n\treturn: x + %d\n}\npub const C%d: i32 = %d;\n" % (j, "helper" if dupf else "h%d" % j, j, j, j) for j in range(nimp)]
        main = "//// module main.pn\n" + "".join('import "lib%d.pn";\n' % j for j in range(nimp)) + "fn main() -> i32\n{\n\treturn: %s\n}\n" % " + ".join("C%d" % j for j in range(nimp))
        multimod.append(("mi%d" % i, main + "".join(mods)))
    det += multimod
    runs = [C.run_harness("ir", det, ck.work + "/det%d" % k, jobs=4 + 3 * k) for k in range(3)]
    nondet = 0
    for cid, src in det:
        outs = [tuple(r.get(cid, ["missing"])) for r in runs]
        if any(o[0].startswith("crash") or o[0].startswith("panic") or o[0] == "timeout" for o in outs): continue
        if len(set(outs)) != 1:
            nondet += 1
            ck.violation("nondeterministic", "three runs of the same input differ (verdict, diagnostics or IR text)",
                         "source:\n%s\nrun hashes: %s" % (src, [hashlib.sha1(repr(o).encode()).hexdigest()[:10] + " " + o[0][:60] for o in outs]))
    # the rendered diagnostics too (codes, locations, messages, secondary labels), including declaration
    # cycles through several constants and structures, where the reported names could depend on hashing
    from . import c11
    r11 = random.Random(ck.seed + 1)
    det2 = [(c[0], c[2]) for c in allc[: (200 if tier == "quick" else 3000)]]
    for i in range(200 if tier == "quick" else 4000):
        names, kinds, decls, edges, order = c11.graph_module(r11)
        if c11.has_cycle(names, edges): det2.append(("cy%d" % i, c11.render(names, kinds, decls, edges, order)[0]))
    for i, k in enumerate((2, 3, 4, 5)):
        cyc = "".join("const K%d: usize = K%d + 1;\n" % (j, (j + 1) % k) for j in range(k))
        det2.append(("cc%d" % i, cyc + "fn main()\n{\n}\n"))
        det2.append(("cs%d" % i, "const H: usize = |:P|;\n" + "".join("const T%d: usize = %s;\n" % (j, "H" if j == 0 else "T%d" % (j - 1)) for j in range(k)) + "struct P\n{\n\tpayload: [T%d]u8,\n}\nfn main()\n{\n}\n" % (k - 1)))
    det2 += multimod
    druns = [C.run_harness("diag", det2, ck.work + "/ddet%d" % k, jobs=3 + 4 * k) for k in range(4)]
    for cid, src in det2:
        outs = [tuple(r.get(cid, ["missing"])) for r in druns]
        if any(o[0].startswith("crash") or o[0].startswith("panic") or o[0] == "timeout" for o in outs): continue
        if len(set(outs)) != 1:
            nondet += 1
            ck.violation("nondeterministic-diagnostics", "four runs of the same input render different diagnostics", "source:\n%s\nruns: %s" % (src, sorted(set(outs))))
    ck.log("determinism: %d inputs x 3 processes (verdict + IR), %d inputs x 4 processes (rendered diagnostics), %d differ" % (len(det), len(det2), nondet))
    # the command line tool's own rendering (stdout.rs chooses the index type handed to the renderer):
    # sources with multi-byte characters before the offending name; the header must name its line and column
    from . import c18
    import os, shutil, subprocess
    ncli = 0
    if c18.build_penne(ck):
        root = os.path.join(ck.work, "cli"); shutil.rmtree(root, ignore_errors=True); os.makedirs(root)
        crng = random.Random(ck.seed + 5)
        for j in range(12 if tier == "quick" else 200):
            pre = "".join(crng.choice(["é", "€", "ü", "😀", "a", " ", "ß", "日本"]) for _ in range(crng.randint(1, 10)))
            lines = ["// " + pre if crng.random() < 0.5 else "// plain", "fn main() -> i32", "{"]
            lines += ['\tvar msg%d = "%s";' % (k, pre) for k in range(crng.randint(0, 2))]
            lines.append('\tvar s = "%s"; var total: i32 = qq7;' % pre if crng.random() < 0.6 else "\tvar total: i32 = qq7; // " + pre)
            lines += ["\treturn: total", "}"]
            text = "\n".join(lines) + "\n"
            ln = 1 + text[:text.index("qq7")].count("\n")
            col = 1 + len(text[:text.index("qq7")].split("\n")[-1])
            fn = os.path.join(root, "u%d.pn" % j); open(fn, "w", encoding="utf-8").write(text)
            p = subprocess.run([c18.PENNE, "emit", "--color=never", "--arrows=ascii", "u%d.pn" % j], cwd=root, capture_output=True, timeout=120)
            out = (p.stdout + p.stderr).decode("utf-8", errors="replace")
            ncli += 1
            m = re.search(r"\[E402\][^\n]*\n\s*,-\[ u%d\.pn:(\d+):(\d+) \]" % j, out)
            if "panicked" in out or not m:
                bad += 1; ck.violation("cli-render-failed", "penne emit does not render the E402 of a source with multi-byte characters", "source:\n%s\noutput:\n%s" % (text, out[:1500])); continue
            if (int(m.group(1)), int(m.group(2))) != (ln, col):
                bad += 1; ck.violation("cli-render-position", "penne emit shows E402 at %s:%s, the undefined name is at line %d column %d (in characters)" % (m.group(1), m.group(2), ln, col), "source:\n%s\noutput:\n%s" % (text, out[:1500]))
    ck.log("command line rendering: %d sources with multi-byte characters" % ncli)
    # the tie of Model/Loc.v: the real Location::combined_with (both argument orders) and comparison_key on
    # random pairs of locations (equal starts, equal lines, nested, disjoint, touching) = the extracted functions
    lrng = random.Random(ck.seed + 1313)
    lcases = []
    for i in range(600 if tier == "quick" else 30000):
        def one():
            s_ = lrng.choice([0, 1, 2, 5, 10, lrng.randrange(200)]); e_ = s_ + lrng.choice([0, 1, 2, 7, lrng.randrange(50)])
            return [s_, e_, lrng.choice([1, 2, 3, lrng.randrange(1, 40)]), lrng.choice([0, 1, 4, lrng.randrange(80)])]
        a = one(); b = one()
        if lrng.random() < 0.3: b[0] = a[0]; b[1] = max(b[1], b[0])
        if lrng.random() < 0.3: b[2] = a[2]
        if lrng.random() < 0.2: b[3] = a[3]
        lcases.append(("l%d" % i, " ".join(str(x) for x in a + b)))
    limpl = C.run_harness("loc", lcases, ck.work + "/loc", timeout=600)
    lmodel = C.run_model([("loc", cid, "(%s)" % txt) for cid, txt in lcases], ck.work + "/loc")
    lbad = 0
    for cid, txt in lcases:
        real = "\t".join(limpl.get(cid, ["missing"])); mod = lmodel.get(cid, "MODEL-MISSING")
        if real != mod:
            lbad += 1; ck.violation("tie-broken:location-model", "Location::combined_with / comparison_key differ from Model/Loc.v", "locations (start end line offset, twice): %s\nreal : %s\nmodel: %s" % (txt, real, mod))
    ck.log("location model tie: %d pairs, %d differences" % (len(lcases), lbad))
    if not proof_ok:
        ck.violation("tie-broken:proof", "Props/C13.v no longer checks (a code without a section in docs/errors.md, or a duplicated code)", getattr(ck, "proof_output", "")[-2500:])
    ck.coverage.update(
        evaluations=len(allc) + 3 * len(det), distinct_nontrivial=len(codes_seen) + len({c[2] for c in allc}),
        rule="diag stream: mutated corpus (tests/samples, examples, core, vendor), generated programs with 1-3 injected faults, token soup, CRLF and multi-byte variants, known-identifier faults; every reported location must lie in the file, start on the reported line at the reported column and render in 4 colour/charset configurations; determinism: 3 fresh processes per input, verdict + diagnostics + IR text compared byte for byte, and the rendered text of every diagnostic (digest) across 4 processes, including declaration cycles through 2-5 constants and a structure; the real command line tool on sources with multi-byte characters (line and column in the rendered header); distinct = distinct inputs + distinct codes observed; shown-lines cases: the source lines excerpted by the plain rendering of E482 (1-4 gotos around the declaration), E422, E420 are exactly the lines involved",
        verdicts=dict(stats), codes_observed=dict(codes_seen.most_common(60)), location_problems=bad, nondeterministic=nondet,
        samples=[dict(kind=allc[i][1], source=allc[i][2][:400], result=impl.get(allc[i][0], ["?"])) for i in (0, 5, len(allc) - 1)])
    ck.assumptions += ["ariadne's rendering itself is not modelled; rendering is exercised, not proved", "hash-seed effects are sampled over 3 processes"]
    return ck.finish()


def GM_split(src):
    if not src.startswith("//// module "): return [("case.pn", src)]
    mods = []
    for line in src.splitlines(keepends=True):
        if line.startswith("//// module "): mods.append([line[len("//// module "):].strip(), ""])
        elif mods: mods[-1][1] += line
    return [tuple(m) for m in mods]
