"""C14 — both lexers implement the same lexical grammar, with exact spans."""
import random, collections, itertools, re
from .. import common as C

ALPHABET = list("abfuxn_i10289 \t\n\r(){}[]<>|&^!+-*/%:;.,='\"\\#@$?~") + ["é"]
assert len(ALPHABET) == 48, len(ALPHABET)

KEYWORDS = ["fn", "var", "const", "if", "goto", "loop", "else", "cast", "as", "import", "pub", "extern", "struct", "word8", "word16", "word32", "word64", "word128"]
TYPES = {"i8": "Int8", "i16": "Int16", "i32": "Int32", "i64": "Int64", "i128": "Int128", "u8": "Uint8", "u16": "Uint16", "u32": "Uint32",
         "u64": "Uint64", "u128": "Uint128", "usize": "Usize", "char8": "Char8", "bool": "Bool", "void": "Void"}
SUFFIXES = ["i8", "i16", "i32", "i64", "i128", "u8", "u16", "u32", "u64", "u128", "usize"]
PUNCT = {"(": "ParenLeft", ")": "ParenRight", "{": "BraceLeft", "}": "BraceRight", "[": "BracketLeft", "]": "BracketRight", "<": "AngleLeft", ">": "AngleRight",
         "|": "Pipe", "&": "Ampersand", "^": "Caret", "!": "Exclamation", "_": "Placeholder", "+": "Plus", "-": "Minus", "*": "Times", "/": "Divide", "%": "Modulo",
         ":": "Colon", ";": "Semicolon", ".": "Dot", ",": "Comma", "=": "Assignment", "==": "Equals", "!=": "DoesNotEqual", ">=": "IsGE", "<=": "IsLE",
         "<<": "ShiftLeft", ">>": "ShiftRight", "->": "Arrow", "|:": "PipeForType", "..": "Dots"}


def kinds(line, with_spans=False):
    """canonical token line -> list of (kind, value, type[, start, end, line, col])"""
    out = []
    body = line.split("|")[0]
    for t in body.split(";"):
        if not t: continue
        f = t.split(" ")
        if with_spans: out.append((f[0], f[1], f[2], f[3], f[4], f[5], f[6]))
        else: out.append((f[0], f[1], f[2]))
    return out


def known_class(s):
    """classes of inputs on which the two lexers are known to diverge (DESIGN §0.3 D10)"""
    if any(ord(c) > 127 for c in s): return "K1-non-ascii"
    if re.search(r"\r(?!\n)", s): return "K2-lone-cr"
    if "\\\n" in s or "\\\r" in s: return "K3-backslash-newline"
    if "\r\n" in s and ("'" in s or '"' in s): return "K4-unterminated-before-crlf"
    if "\\u" in s and "'" in s: return "K5-unicode-escape-in-char"
    if re.search(r"0b[01_]{129,}", s): return "K6-long-binary"
    if "return!" in s: return "K7-return-bang"
    if re.search(r"\\u\{[0-9a-fA-F]{7,}\}", s): return "K8-long-unicode-escape"
    return None


def random_token(rng):
    """(spelling, expected (kind, value, type))"""
    k = rng.random()
    if k < 0.2:
        kw = rng.choice(KEYWORDS); return kw, (kw.capitalize() if not kw.startswith("word") else "Word" + kw[4:], "0", "-")
    if k < 0.3:
        t = rng.choice(list(TYPES)); return t, ("ValueTypeKeyword", "0", TYPES[t])
    if k < 0.45:
        name = rng.choice(["x", "foo", "a1", "_a", "returns", "iff", "__", "word9", "u7", "Fn"]); return name, ("Identifier", "0", "-")
    if k < 0.5:
        return rng.choice(["foo!", "print!", "x1!", "returns!", "return!"] if rng.random() < 0.5 else ["foo!", "print!"]), ("Builtin", "0", "-")
    if k < 0.6:
        v = rng.choice([0, 1, 7, 255, 65536, 2 ** 64, 2 ** 127, 2 ** 128 - 1, rng.getrandbits(rng.randint(1, 128))])
        s = str(v)
        if len(s) > 3 and rng.random() < 0.4: s = s[:-3] + "_" + s[-3:]
        if rng.random() < 0.4:
            sf = rng.choice(SUFFIXES); return s + sf, ("SuffixedInteger", str(v), TYPES[sf])
        return s, ("NakedDecimal", str(v), "-")
    if k < 0.7:
        v = rng.getrandbits(rng.randint(1, 128))
        if rng.random() < 0.5: s = "0x" + (("%x" if rng.random() < 0.5 else "%X") % v)
        else: s = "0b" + bin(v)[2:]
        return s, ("BitInteger", str(v), "-")
    if k < 0.75:
        return rng.choice(["true", "false"]), None
    if k < 0.8:
        c = rng.choice("abZ09 +~")
        return "'%s'" % c, ("CharLiteral", str(ord(c)), "-")
    if k < 0.85:
        return '"%s"' % rng.choice(["", "a", "hello world", "a\\n", "\\x41", "tab\\t", "q\\\"q"]), ("StringLiteral", "0", "-")
    p = rng.choice(list(PUNCT)); return p, (PUNCT[p], "0", "-")


GLUE = re.compile(r"[A-Za-z0-9_]")


def random_sequence(rng):
    toks = [random_token(rng) for _ in range(rng.randint(1, 12))]
    text, expected, spans = "", [], []
    for i, (sp, exp) in enumerate(toks):
        if exp is None:
            exp = ("BoolLiteral", "1" if sp == "true" else "0", "-")
        # separator: always whitespace or a comment+newline (layout must not matter)
        sep = rng.choice([" ", "  ", "\t", "\n", " // c\n", "\n\n", " "]) if i > 0 else rng.choice(["", " ", "\n"])
        text += sep
        spans.append((len(text), len(text) + len(sp)))
        text += sp
        expected.append(exp)
    text += rng.choice(["", "\n", " ", " // end"])
    return text, expected, spans


def run(tier):
    ck = C.Check("C14", tier)
    proof_ok = ck.prove()
    if not ck.builds():
        ck.violation("tie-broken:build", "model or harness does not build", "see log")
        return ck.finish()
    rng = random.Random(ck.seed)
    def witness(src):
        f = C.run_harness("lex", [("w", src)], ck.work + "/witness").get("w", ["missing", "missing"])
        if len(f) >= 2 and normalise(kinds(f[0])) != normalise(kinds(f[1])):
            k = known_class(src)
            return "lexer-divergence:" + k if k else "lexer-divergence"
        return None
    ck.witness_runner = witness
    maxlen = 3 if tier == "quick" else 4
    strings = [""]
    for n in range(1, maxlen + 1):
        strings += ["".join(t) for t in itertools.product(ALPHABET, repeat=n)]
    nex = len(strings)
    # boundary lexemes that no short string can spell
    boundary = []
    for e in (7, 8, 15, 16, 31, 32, 63, 64, 127, 128, 129):
        for d in (-2, -1, 0, 1, 2, 3, 4):
            v = (1 << e) + d
            if v < 0: continue
            for sp in (str(v), "0x%x" % v, "0x%X" % v, "0b" + bin(v)[2:]):
                boundary.append(sp)
                boundary.append(sp + rng.choice(["u8", "i8", "u128", "i128", "usize", "u64", "i32", "u7", "x"]))
                if len(sp) > 6: boundary.append(sp[:4] + "_" + sp[4:-3] + "_" + sp[-3:])
    # literals LONGER than 128 bits in every digit pattern around the overflow test: the value wraps to something
    # small exactly when high digits are followed by zeros (an overflow flag that is overwritten per digit instead
    # of accumulated lets 0x10ff..f through), with separators and suffixes
    for n in (33, 34, 35, 36, 40, 48, 64):
        for head in ("1", "10", "f0", "100", "8", "ff"):
            for fill in ("0", "f", "7"):
                body = (head + fill * n)[:n]
                boundary.append("0x" + body)
                if fill == "0": boundary.append("0x" + body[:-1] + "1")
        boundary.append("0x1_" + "0000_" * ((n - 1) // 4) + "0u8")
        boundary.append("0x" + "1" + "0" * (n - 1) + "u128")
    for n in (129, 130, 136, 160, 256):
        for head in ("1", "10", "11", "100"):
            for fill in ("0", "1"):
                boundary.append("0b" + (head + fill * n)[:n])
        boundary.append("0b" + "0" * (n - 128) + "1" * 128)                       # leading zeros (K6)
    for n in (39, 40, 41, 45, 60):
        for head in ("1", "3", "34", "9", "340282366920938463463374607431768211456"):
            for fill in ("0", "9", "5"):
                boundary.append((head + fill * n)[:n])
    boundary += ["340282366920938463463374607431768211455", "340282366920938463463374607431768211456", "340282366920938463463374607431768211457",
                 "3402823669209384634633746074317682114560", "680564733841876926926749214863536422912", "0x" + "0" * 10 + "f" * 32, "0x" + "0" * 10 + "1" + "f" * 32]
    # many payload-carrying tokens in a small source (1024 is the first size of the second generation's payload table)
    for cnt in (1000, 1023, 1024, 1025, 1200, 3000):
        boundary.append("[" + ", ".join(str(i % 89) for i in range(cnt)) + "]")
        boundary.append(" ".join("x%d" % i for i in range(cnt)))
        boundary.append(" ".join('"s%d"' % i for i in range(cnt)))
    # every raw byte below 0x80 inside a string and a character literal
    for b_ in list(range(1, 32)) + [127]:
        if b_ in (10, 13): continue
        boundary += ['"ab%scd"' % chr(b_), "'%s'" % chr(b_), "x %s y" % chr(b_)]
    for big in ("340282366920938463463374607431768211456", "3402823669209384634633746074317682114550", "9" * 40, "0x1" + "0" * 32, "0x" + "f" * 33, "0b1" + "0" * 128, "1" + "0" * 39, "1" + "0" * 45):
        for sfx in ("q", "u129", "u7", "i", "u128", "i128", "usize", "x1", "_", "u8u8"):
            boundary.append(big + sfx)
    boundary += ["9" * n for n in (38, 39, 40, 60)] + ["1" + "0" * n for n in (37, 38, 39, 40)] + ["0x" + "f" * n for n in (31, 32, 33)] + ["0b" + "1" * n for n in (127, 128)]
    for n in range(0, 9):
        hexs = "10FFFF00"[:n] if n else ""
        boundary += ['"\\u{%s}"' % hexs, "'\\u{%s}'" % hexs, '"x\\u{%s}y"' % ("0" * max(0, n - 2) + "41")[:max(n, 0)]]
    boundary += ['"\\u{10FFFF}"', '"\\u{110000}"', '"\\u{D7FF}"', '"\\u{D800}"', '"\\u{DFFF}"', '"\\u{E000}"', '"\\u{01F600}"', '"\\u{0000041}"', '"\\u{20ac}"', '"\\u{20AC}"',
                 '"\\xFF"', '"\\xff"', '"\\x7"', '"\\x"', "'\\x41'", "'\\x4'", "'\\0'", '"\\0\\n\\r\\t\\\\\\\'\\""', "x" * 300, "_" * 40, "a1_" * 30 + "!", "word8", "word16", "word32", "word64", "word128", "word256", "word", "u128", "u256", "i7", "usize", "isize"]
    strings += [b for b in boundary] + ["var x = %s;" % b for b in boundary[::3]]
    seqs = [random_sequence(rng) for _ in range(3000 if tier == "quick" else 100000)]
    cases = [("e%d" % i, s) for i, s in enumerate(strings)] + [("q%d" % i, t[0]) for i, t in enumerate(seqs)]
    impl = C.run_harness("lex", cases, ck.work + "/lex", timeout=3000)
    items = []
    for cid, s in cases:
        h = s.encode("utf-8").hex()
        items.append(("lex-alpha", cid + "a", h if h else "()")); items.append(("lex-delta", cid + "d", h if h else "()"))
    model = C.run_model(items, ck.work + "/lex", timeout=3000)
    stats = collections.Counter(); bad = 0; distinct = set()
    for cid, s in cases:
        f = impl.get(cid, ["missing", "missing"])
        if len(f) < 2 or f[0].startswith("panic") or f[1].startswith("panic") or f[0] == "missing":
            ck.violation(C.failure_key(f[0] if f[0].startswith("panic") else (f[1] if len(f) > 1 else "missing")), "a lexer failed on %r: %s" % (s, f), s); continue
        ma, md = model.get(cid + "a", "MODEL-MISSING"), model.get(cid + "d", "MODEL-MISSING")
        if ma != f[0]:
            bad += 1; ck.violation("tie-broken:alpha-lexer-model", "first-generation lexer differs from Model/LexAlpha.v on %r" % s, "input: %r\nreal : %s\nmodel: %s" % (s, f[0], ma)); continue
        if md != f[1]:
            bad += 1; ck.violation("tie-broken:delta-lexer-model", "second-generation lexer differs from Model/LexDelta.v on %r" % s, "input: %r\nreal : %s\nmodel: %s" % (s, f[1], md)); continue
        ka, kd = normalise(kinds(f[0])), normalise(kinds(f[1]))
        if any(k[0] == "Error" for k in ka): distinct.add(f[0])
        if ka != kd:
            k = known_class(s)
            if k in ("K1-non-ascii", "K2-lone-cr"):
                # several listed classes may apply to one input: the refinement below is only for inputs
                # that are in K1/K2 alone
                stripped = "".join(c for c in s if ord(c) < 128)
                stripped = re.sub(r"\r(?!\n)", "", stripped)
                k2 = known_class(stripped)
                if k2 not in (None, "K1-non-ascii", "K2-lone-cr"): k = k2
            if k in ("K1-non-ascii", "K2-lone-cr"):
                # these two classes only change the NUMBER of E110 tokens: everything else must agree
                drop = lambda ks: [x for x in ks if not (x[0] == "Error" and x[1] == "110")]
                if drop(ka) != drop(kd): k = None
            stats["diverge:" + (k or "UNKNOWN")] += 1
            ck.violation("lexer-divergence:" + k if k else "lexer-divergence", "the two lexers disagree on %r" % s, "input: %r\nfirst generation : %s\nsecond generation: %s" % (s, f[0], f[1]))
        else:
            stats["agree"] += 1
            if s.isascii() and kinds(f[0], True) != kinds(f[1], True) and "\\\n" not in s:
                sa, sd = kinds(f[0], True), kinds(f[1], True)
                # spans of error tokens inside literals are reported differently; compare non-error tokens
                if [x for x in sa if x[0] != "Error"] != [x for x in sd if x[0] != "Error"]:
                    k = known_class(s)
                    ck.violation("span-divergence:" + k if k else "span-divergence", "same tokens but different spans/lines on %r" % s, "first : %s\nsecond: %s" % (f[0], f[1]))
    # reference: generated token sequences
    for i, (text, expected, spans) in enumerate(seqs):
        f = impl.get("q%d" % i, ["missing", "missing"])
        if len(f) < 2: continue
        for gen, line in (("first", f[0]), ("second", f[1])):
            if gen == "second" and known_class(text) == "K7-return-bang": continue   # reported above as a listed divergence
            got = kinds(line, True)
            gk = [(k[0], k[1], k[2]) for k in got]
            exp = [("Return", "0", "-") if (gen == "second" and False) else e for e in expected]
            if gk != exp:
                bad += 1; ck.violation("wrong-tokens:" + gen, "%s-generation lexer does not split a generated token sequence into its tokens" % gen, "text: %r\nexpected: %s\ngot     : %s" % (text, exp, gk)); break
            if [(int(k[3]), int(k[4])) for k in got] != spans:
                bad += 1; ck.violation("wrong-spans:" + gen, "%s-generation lexer: spans do not cover exactly the tokens' characters" % gen, "text: %r\nexpected: %s\ngot     : %s" % (text, spans, [(k[3], k[4]) for k in got])); break
            lines_ok = all(int(k[5]) == 1 + text[:int(k[3])].count("\n") for k in got)
            if not lines_ok:
                bad += 1; ck.violation("wrong-line:" + gen, "%s-generation lexer: wrong line number" % gen, "text: %r\ngot: %s" % (text, got)); break
    ck.log("lexers: %d strings (exhaustive up to length %d: %d), %s, %d problems" % (len(cases), maxlen, nex, dict(stats), bad))
    # arbitrary bytes for the second generation
    nb = 3000 if tier == "quick" else 200000
    bcases = []
    for i in range(nb):
        n = rng.randint(0, 40)
        if i % 3 == 0: b = bytes(rng.getrandbits(8) for _ in range(n))
        else: b = bytes(rng.choice(b"ab01 \n\"'\\/x_\x00\xff\xc3\xa9{}();") for _ in range(n))
        bcases.append(("b%d" % i, b))
    implb = C.run_harness("lex", bcases, ck.work + "/bytes", timeout=3000)
    modelb = C.run_model([("lex-delta", cid, b.hex() if b else "()") for cid, b in bcases], ck.work + "/bytes", timeout=3000)
    bbad = 0
    for cid, b in bcases:
        f = implb.get(cid, ["missing", "missing"])
        if len(f) < 2 or f[1].startswith("panic"):
            ck.violation(C.failure_key(f[1] if len(f) > 1 else "missing"), "second-generation lexer failed on bytes %r" % b, repr(b)); continue
        if modelb.get(cid) != f[1]:
            bbad += 1; ck.violation("tie-broken:delta-lexer-model", "second-generation lexer differs from the model on bytes %r" % b, "real : %s\nmodel: %s" % (f[1], modelb.get(cid)))
    ck.log("arbitrary bytes: %d inputs, %d problems" % (len(bcases), bbad))
    if not proof_ok:
        ck.violation("tie-broken:proof", "Props/C14.v no longer checks", getattr(ck, "proof_output", "")[-2000:])
    ck.coverage.update(
        evaluations=len(cases) + len(bcases), distinct_nontrivial=len(distinct), exhaustive=True, exhaustive_part=nex,
        rule="all strings of length <= %d over the 48-character alphabet %r (exhaustive) plus boundary lexemes (integers around 2^7..2^129 in every base, with suffixes and underscores; 38-60 digit decimals; \\u{} escapes of 0-8 digits and at the surrogate and 0x10FFFF boundaries; \\x forms; very long identifiers), both real lexers vs both extracted models (token kinds, values, suffix types, spans, line, column, error codes) and against each other (kinds, values, codes; spans on ASCII); generated token sequences in random spellings and layouts against the generator's own token list (independent reference) with exact spans and line numbers; arbitrary bytes for the second generation vs its model; distinct = distinct error-bearing token lines" % (maxlen, "".join(ALPHABET)),
        stats=dict(stats), problems=bad, byte_problems=bbad,
        samples=[dict(input=cases[nex + 1][1], first=impl.get(cases[nex + 1][0], ["?"])[0][:300])])
    return ck.finish()


def normalise(ks):
    # the second generation reserves the word `return`
    return [("Identifier", "0", "-") if k[0] == "Return" else k for k in ks]
