"""C18 — the command line tool reports outcomes faithfully."""
import itertools, os, random, shutil, stat, subprocess, collections
from .. import common as C

PENNE_TARGET = os.path.join(C.CACHE, "penne-target")
PENNE = os.path.join(PENNE_TARGET, "debug", "penne")

VALID_A = 'fn main() -> i32\n{\n\tprint!("out-a\\n");\n\treturn: 7\n}\n'
VALID_MULTI = ('import "lib.pn";\nfn main() -> i32\n{\n\tprint!("out-m\\n");\n\treturn: twice(4)\n}\n',
               'pub fn twice(x: i32) -> i32\n{\n\treturn: x + x\n}\n')
INVALID = 'fn main() -> i32\n{\n\tvar x: i32 = undefined_name;\n\treturn: x\n}\n'
# an import of a bundled package that was not passed on the command line: the diagnostic carries a note with a hint
INVALID_HINT = 'import "core:text/char.pn";\nfn main() -> i32\n{\n\treturn: 0\n}\n'
DIRS = {"top.pn": 'import "geo/util.pn";\nimport "audio/util.pn";\nfn main() -> i32\n{\n\treturn: area(2) + louder(3)\n}\n',
        "geo/util.pn": 'pub fn area(x: i32) -> i32\n{\n\treturn: x * x\n}\n', "audio/util.pn": 'pub fn louder(x: i32) -> i32\n{\n\treturn: x + 1\n}\n'}


def build_penne(ck):
    with C.Lock("penne-bin"):
        p = C.sh(["cargo", "build", "--offline", "--locked", "--quiet", "--features", "alpha,llvm-sys", "--target-dir", PENNE_TARGET],
                 cwd=C.REPO, timeout=3000)
    if p.returncode != 0:
        ck.log("penne binary build failed\n" + p.stderr.decode(errors="replace")[-3000:])
    return p.returncode == 0


def make_stub(d, name, code):
    path = os.path.join(d, name)
    body = '#!/bin/sh\necho "%s $*" >> "%s/invoked.log"\nwhile IFS= read -r line; do printf "%%s\\n" "$line" >> "%s/stdin.%s"; done\n' % (name, d, d, name)
    if code == "signal": body += "kill -s SEGV $$\n"
    else: body += "exit %s\n" % code
    open(path, "w").write(body)
    os.chmod(path, 0o755)
    return path


def run(tier):
    ck = C.Check("C18", tier)
    proof_ok = ck.prove(extra_trusted=["clap (argument parsing), process spawning and the file system are exercised, not modelled"])
    if not ck.builds() or not build_penne(ck):
        ck.violation("tie-broken:build", "model, harness or penne binary does not build", "see log")
        return ck.finish()
    rng = random.Random(ck.seed)
    root = os.path.join(ck.work, "cli")
    os.makedirs(root, exist_ok=True)
    configs = []
    inputs = {"valid": (["a.pn"], True), "multi": (["main.pn", "lib.pn"], True), "invalid": (["bad.pn"], False), "mixed": (["a.pn", "bad.pn"], False),
              "dirs": (["top.pn", "geo/util.pn", "audio/util.pn"], True), "hint": (["hint.pn"], False),
              "notes": (["notes.pn", "a.pn"], True), "zero": (["a.pn", "zero.pn"], False),
              # a module whose name does not end in .pn (the back end runs all the same), and an error after text outside
              # ASCII (locations count characters; the renderer must be told so: the snippet and line:column are right)
              "otherext": (["prog.penne"], True), "noext": (["prog"], True), "accent": (["accent.pn"], False),
              # compilations that fail inside the generator / LLVM's verifier (the listed findings D45 and D60 of C02/C10: no
              # rendered diagnostic): whatever is printed, the tool must not report success, run a back end or leave IR behind
              "huge": (["huge.pn"], False), "opaque": (["opaque.pn"], False),
              # the error (E402) stands in a LATER statement than the one it poisons
              "late": (["late.pn"], False)}   # a zero-byte file is an error (E101)        # a module without declarations (only a comment) is a module
    for sub in ("build", "run", "emit"):
        for inp in inputs:
            opts_space = [("silent", [False, True]), ("verbose", [False, True]), ("color", [None, "never", "always"]), ("arrows", [None, "ascii", "unicode"]),
                          ("outdir", [False, True]), ("flag", [None, "stubF"]), ("env", [None, "stubE"]), ("config", [None, "stubC"]),
                          ("bres", ["0", "3", "signal", "spawnfail"]), ("wasm", [False, True])]
            combos = list(itertools.product(*[v for _, v in opts_space]))
            rng.shuffle(combos)
            for combo in combos[: (14 if tier == "quick" else 400)]:
                o = dict(zip([k for k, _ in opts_space], combo))
                if sub != "build": o["config"] = None
                if sub == "run": o["wasm"] = False
                if sub == "emit": o["flag"] = o["env"] = None
                configs.append((sub, inp, o))
    items, runs = [], []
    for i, (sub, inp, o) in enumerate(configs):
        d = os.path.join(root, "r%d" % i)
        shutil.rmtree(d, ignore_errors=True); os.makedirs(d)
        open(os.path.join(d, "a.pn"), "w").write(VALID_A)
        open(os.path.join(d, "main.pn"), "w").write(VALID_MULTI[0]); open(os.path.join(d, "lib.pn"), "w").write(VALID_MULTI[1])
        open(os.path.join(d, "bad.pn"), "w").write(INVALID); open(os.path.join(d, "hint.pn"), "w").write(INVALID_HINT)
        open(os.path.join(d, "notes.pn"), "w").write("// notes only: nothing is declared here\n")
        open(os.path.join(d, "zero.pn"), "w").write("")
        open(os.path.join(d, "huge.pn"), "w").write("struct Big\n{\n\tdata: [5000000000]u8,\n}\nfn touch(big: &Big) -> i32\n{\n\treturn: 1\n}\nfn main() -> i32\n{\n\treturn: 0\n}\n")
        open(os.path.join(d, "opaque.pn"), "w").write("struct Foo;\nfn main() -> i32\n{\n\tvar x: Foo;\n\treturn: 0\n}\n")
        open(os.path.join(d, "late.pn"), "w").write("fn main() -> i32\n{\n\tvar x;\n\tx = undefined_late;\n\treturn: 0\n}\n")
        open(os.path.join(d, "prog.penne"), "w").write(VALID_A); open(os.path.join(d, "prog"), "w").write(VALID_A)
        open(os.path.join(d, "accent.pn"), "w", encoding="utf-8").write("// Berechnet die Größe der Tabelle für das Café «Zoë» ✓✓✓✓✓✓✓✓✓✓✓✓✓✓✓✓ €€€€ 😀😀\n" + INVALID.replace("fn main", "// ï\nfn main"))
        for rel, text in DIRS.items():
            os.makedirs(os.path.dirname(os.path.join(d, rel)) or d, exist_ok=True); open(os.path.join(d, rel), "w").write(text)
        for nm in ("stubF", "stubE", "stubC", "clang", "lli"):
            if o["bres"] != "spawnfail": make_stub(d, nm, o["bres"])
        files, ok = inputs[inp]
        args = [PENNE, sub] + (["--silent"] if o["silent"] else []) + (["--verbose"] if o["verbose"] else [])
        if o["color"]: args.append("--color=" + o["color"])
        if o["arrows"]: args.append("--arrows=" + o["arrows"])
        if o["outdir"]: args += ["--out-dir", "out"]
        if o["wasm"] and sub != "run": args.append("--wasm")
        if o["flag"]: args += ["--backend", os.path.join(d, o["flag"])]
        if o["config"]:
            open(os.path.join(d, "cfg.toml"), "w").write('backend = "%s"\n' % os.path.join(d, o["config"]))
            args += ["--config", "cfg.toml"]
        env = dict(os.environ); env["PATH"] = d      # only the stubs: `clang` / `lli` defaults must not reach real tools
        env.pop("PENNE_BACKEND", None); env.pop("PENNE_LLI", None)
        if o["env"]: env["PENNE_BACKEND" if sub == "build" else "PENNE_LLI"] = os.path.join(d, o["env"])
        args += files
        p = subprocess.run(args, cwd=d, env=env, capture_output=True, timeout=120)
        log = open(os.path.join(d, "invoked.log")).read().split("\n") if os.path.exists(os.path.join(d, "invoked.log")) else []
        runs.append((i, sub, inp, o, p, [l for l in log if l], d, files, ok))
        nm = lambda v: v if v else "-"
        items.append(("cli", "r%d" % i, "(%s %s %s %s %s %d %s)" % (sub, nm(o["flag"]), nm(o["env"] if sub == "build" else None), nm(o["env"] if sub == "run" else None),
                                                                     nm(o["config"]), 1 if ok else 0, o["bres"])))
    # where the IR files go: Model/OutPath.v on every module path used below
    allmods = sorted({f for fs, _ in inputs.values() for f in fs} | {"a.pen"})
    pm = C.run_model([("llpath", "p%d" % k, "(out %s)" % f) for k, f in enumerate(allmods)], ck.work + "/pathmodel", jobs=1)
    llpath = {f: dict(x.split("=", 1) for x in pm.get("p%d" % k, "path=? pn=?").split(" ")) for k, f in enumerate(allmods)}
    model = C.run_model(items, ck.work + "/climodel", jobs=1)
    bad = 0; stats = collections.Counter(); distinct = set()
    for (i, sub, inp, o, p, log, d, files, ok) in runs:
        m = dict(x.split("=") for x in model.get("r%d" % i, "").split(" ")) if model.get("r%d" % i, "").startswith("backend=") else None
        desc = "penne %s %s %s" % (sub, inp, {k: v for k, v in o.items() if v})
        replay = "%s\nargv: see pv/props/c18.py (config %d)\nexit: %d\nstdout:\n%s\nstderr:\n%s\ninvoked: %s" % (desc, i, p.returncode, p.stdout.decode(errors="replace")[-1500:], p.stderr.decode(errors="replace")[-1500:], log)
        if m is None:
            ck.violation("tie-broken:model-error", "cli model failed", replay); continue
        distinct.add((sub, inp, m["backend"], m["success"], o["bres"]))
        stats["success" if p.returncode == 0 else "failure"] += 1
        if "panicked" in p.stderr.decode(errors="replace"):
            bad += 1; ck.violation("cli-panic", "the tool panicked: " + desc, replay); continue
        if (p.returncode == 0) != (m["success"] == "true"):
            bad += 1; ck.violation("wrong-exit-status", "exit status %d but compilation %s and backend result %s (%s)" % (p.returncode, "succeeded" if ok else "failed", o["bres"], desc), replay); continue
        invoked = [l.split(" ")[0] for l in log]
        if m["invoked"] == "true" and o["bres"] != "spawnfail":
            if invoked != [m["backend"]]:
                bad += 1; ck.violation("wrong-backend", "invoked %s, expected %s (%s)" % (invoked, m["backend"], desc), replay); continue
        elif invoked:
            bad += 1; ck.violation("backend-invoked-unexpectedly", "invoked %s (%s)" % (invoked, desc), replay); continue
        if m["invoked"] == "true" and o["bres"] == "0" and sub == "run" and ok:
            sp = os.path.join(d, "stdin." + m["backend"].split("/")[-1])
            ir = open(sp, errors="replace").read() if os.path.exists(sp) else ""
            want = ["main"] + (["twice"] if inp == "multi" else ["area", "louder"] if inp == "dirs" else [])
            missing = [f for f in want if not __import__("re").search(r"^define [^\n]*@%s\(" % f, ir, __import__("re").M)]
            q = C.sh(["llvm-as", "-o", "/dev/null", sp]) if ir else None
            if missing or q is None or q.returncode != 0:
                bad += 1; ck.violation("run-ir", "the IR handed to the interpreter %s (%s)" % ("does not define " + ", ".join(missing) if missing else "is rejected by llvm-as", desc),
                                       replay + "\nIR on the backend's stdin:\n" + ir[:3000]); continue
        out = p.stdout + p.stderr
        if o["silent"] and p.returncode == 0 and out.strip():
            # not part of the property's statement; kept as a statistic (it exposed D23)
            stats["silent-with-output"] += 1
        if o["wasm"] and ok and o["outdir"] and sub != "run":
            for f in files:
                path = os.path.join(d, "out", f + ".ll")
                if os.path.exists(path) and "wasm32" not in open(path).read().split("target triple")[1].split("\n")[0]:
                    bad += 1; ck.violation("wasm-module-triple", "--wasm: the IR written for module %s does not have the wasm32 target triple" % f, replay); break
        if inp in ("huge", "opaque"):
            lls_ = [f_ for dp, _, fs in os.walk(d) for f_ in fs if f_.endswith(".ll")]
            if lls_:
                bad += 1; ck.violation("ir-left-by-failed-compilation", "a compilation that failed in the generator left IR behind: %s (%s)" % (lls_, desc), replay)
            continue
        if not ok and not o["silent"]:
            if (b"E101" if inp == "zero" else b"E402" if inp != "hint" else b"E47") not in out:
                bad += 1; ck.violation("diagnostic-missing", "failing compilation without a rendered diagnostic (%s)" % desc, replay); continue
            if inp in ("invalid", "accent", "mixed") and o["color"] == "never" and (b"var x: i32 = undefined_name" not in out or (inp == "accent" and b"accent.pn:5:15" not in out) or p.returncode not in (1,)):
                bad += 1; ck.violation("diagnostic-misrendered", "the rendered diagnostic does not show the offending line at its place, or the tool did not exit with status 1 (exit %d; %s)" % (p.returncode, desc), replay); continue
            if o["color"] == "never" and b"\x1b" in out:
                bad += 1; ck.violation("color-never-ignored", "--color=never but ANSI escapes were printed (%s)" % desc, replay); continue
            if o["arrows"] == "ascii" and o["color"] == "never" and not o["verbose"] and not out.isascii():
                bad += 1; ck.violation("arrows-ascii-ignored", "--arrows=ascii but non-ASCII output (%s)" % desc, replay); continue
        if o["outdir"]:
            expect = [os.path.relpath(llpath[f]["path"], "out") for f in files] if ok else None      # (Model/OutPath.v: ll_path)
            found = sorted(os.path.relpath(os.path.join(dp, f), os.path.join(d, "out")) for dp, _, fs in os.walk(os.path.join(d, "out")) for f in fs if f.endswith(".ll"))
            if ok and found != sorted(expect):
                bad += 1; ck.violation("ll-files", "--out-dir: found %s, expected %s (%s)" % (found, expect, desc), replay); continue
            for f in found:
                q = C.sh(["llvm-as", "-o", "/dev/null", os.path.join(d, "out", f)])
                if q.returncode != 0:
                    bad += 1; ck.violation("ll-invalid", "written IR file %s is rejected by llvm-as" % f, replay)
    # `run` passes the program's output through and shows its exit status (real lli)
    d = os.path.join(root, "real"); shutil.rmtree(d, ignore_errors=True); os.makedirs(d)
    open(os.path.join(d, "a.pn"), "w").write(VALID_A)
    p = subprocess.run([PENNE, "run", "--color=never", "a.pn"], cwd=d, capture_output=True, timeout=120)
    if p.returncode != 0 or b"out-a" not in p.stdout or b"Output: 7" not in p.stdout:
        bad += 1; ck.violation("run-output", "penne run does not pass the program's output through / show its exit status", "exit %d\nstdout: %s\nstderr: %s" % (p.returncode, p.stdout[-500:], p.stderr[-500:]))
    # the same for a program of two modules, in both file orders: the linked program is what runs
    open(os.path.join(d, "main.pn"), "w").write(VALID_MULTI[0]); open(os.path.join(d, "lib.pn"), "w").write(VALID_MULTI[1])
    for order in (["main.pn", "lib.pn"], ["lib.pn", "main.pn"]):
        p = subprocess.run([PENNE, "run", "--color=never"] + order, cwd=d, capture_output=True, timeout=120)
        if p.returncode != 0 or b"out-m" not in p.stdout or b"Output: 8" not in p.stdout:
            bad += 1; ck.violation("run-output:multi", "penne run %s does not run the linked program (expected its output and exit status 8)" % " ".join(order),
                                   "exit %d\nstdout: %s\nstderr: %s" % (p.returncode, p.stdout[-500:], p.stderr[-800:]))
    # an environment variable that is set outranks the config file and the default even when its value cannot
    # be used (not Unicode): the lower-ranked backend must not run in its place; the flag still outranks it
    for sub, var, flag in (("build", "PENNE_BACKEND", False), ("run", "PENNE_LLI", False), ("build", "PENNE_BACKEND", True), ("run", "PENNE_LLI", True)):
        e = os.path.join(root, "env-%s-%d" % (sub, flag)); shutil.rmtree(e, ignore_errors=True); os.makedirs(e)
        open(os.path.join(e, "a.pn"), "w").write(VALID_A)
        for nm in ("stubF", "stubC", "clang", "lli"): make_stub(e, nm, "0")
        args = [PENNE, sub, "--out-dir", "out"]
        if sub == "build":
            open(os.path.join(e, "cfg.toml"), "w").write('backend = "%s"\n' % os.path.join(e, "stubC")); args += ["--config", "cfg.toml"]
        if flag: args += ["--backend", os.path.join(e, "stubF")]
        env = {k.encode(): v.encode() for k, v in os.environ.items() if k not in ("PENNE_BACKEND", "PENNE_LLI")}
        env[b"PATH"] = e.encode(); env[var.encode()] = b"\xff\xfe"
        p = subprocess.run(args + ["a.pn"], cwd=e, env=env, capture_output=True, timeout=120)
        log = [l.split(" ")[0] for l in open(os.path.join(e, "invoked.log")).read().split("\n") if l] if os.path.exists(os.path.join(e, "invoked.log")) else []
        want = ["stubF"] if flag else []
        if log != want or (p.returncode == 0) != flag:
            bad += 1; ck.violation("wrong-backend:unusable-environment-variable", "penne %s with %s set to a non-Unicode value%s: exit %d, invoked %s (expected %s)" % (
                sub, var, " and --backend" if flag else "", p.returncode, log, want or "no backend and a non-zero status"),
                "cwd %s\nargv %s\n%s=\\xff\\xfe\nexit %d\nstderr: %s" % (e, args, var, p.returncode, p.stderr.decode(errors="replace")[-600:]))
    # two modules whose paths differ only in the extension (D57): one .ll file per module
    e = os.path.join(root, "stem"); shutil.rmtree(e, ignore_errors=True); os.makedirs(e)
    open(os.path.join(e, "a.pn"), "w").write('import "a.pen";\nfn main() -> i32\n{\n\treturn: two()\n}\n')
    open(os.path.join(e, "a.pen"), "w").write('pub fn two() -> i32\n{\n\treturn: 2\n}\n')
    p = subprocess.run([PENNE, "emit", "--color=never", "--out-dir", "out", "a.pn", "a.pen"], cwd=e, capture_output=True, timeout=120)
    lls = sorted(os.path.join(dp, f) for dp, _, fs in os.walk(os.path.join(e, "out")) for f in fs if f.endswith(".ll"))
    defined = [fn for path in lls for fn in __import__("re").findall(r"^define [^\n]*@(\w+)\(", open(path).read(), __import__("re").M)]
    if sorted(os.path.relpath(x, e) for x in lls) != sorted({llpath["a.pn"]["path"], llpath["a.pen"]["path"]}):
        ck.violation("tie-broken:out-path", "files written %s, Model/OutPath.v says %s" % (lls, [llpath["a.pn"]["path"], llpath["a.pen"]["path"]]), "cwd %s" % e)
    if p.returncode == 0 and (len(lls) != 2 or sorted(defined) != ["main", "two"]):
        ck.violation("ll-files:same-stem", "penne emit --out-dir out a.pn a.pen exits 0 but leaves %d .ll file(s) defining %s (one module's IR was overwritten by the other's)" % (len(lls), defined),
                     "cwd %s\npenne emit --out-dir out a.pn a.pen\nexit 0\nfiles: %s\nstdout: %s" % (e, lls, p.stdout.decode(errors="replace")[-400:]))
    # absolute input path with --out-dir (D17, repaired): the file is under D, where Model/OutPath.v says
    ab = os.path.join(d, "a.pn")
    if os.path.exists(ab + ".ll"): os.remove(ab + ".ll")
    shutil.rmtree(os.path.join(d, "outabs"), ignore_errors=True)
    p = subprocess.run([PENNE, "emit", "--out-dir", "outabs", ab], cwd=d, capture_output=True, timeout=120)
    got = sorted(os.path.join(dp, f) for dp, _, fs in os.walk(os.path.join(d, "outabs")) for f in fs if f.endswith(".ll"))
    pm = C.run_model([("llpath", "abs", "(outabs %s)" % ab)], ck.work + "/pathmodel-abs", jobs=1)
    want = dict(x.split("=", 1) for x in pm.get("abs", "path=? pn=?").split(" "))["path"]
    if p.returncode == 0 and not got:
        ck.violation("ll-files:absolute-input-path", "penne emit --out-dir D /abs/path/a.pn exits 0 but writes nothing under D (%s exists: %s)" % (ab + ".ll", os.path.exists(ab + ".ll")),
                     "cwd %s\npenne emit --out-dir outabs %s\nexit 0; files under outabs: none; %s exists: %s" % (d, ab, ab + ".ll", os.path.exists(ab + ".ll")))
    elif p.returncode == 0 and [os.path.relpath(x, d) for x in got] != [want]:
        ck.violation("tie-broken:out-path", "an absolute module path: files written %s, Model/OutPath.v says %s" % (got, want), "cwd %s\npenne emit --out-dir outabs %s" % (d, ab))
    # an embedded package given as a DIRECTORY argument (`vendor:libc`, `core:text`): every file of it is a module of
    # its own name, a valid program that imports one of them compiles, and every module leaves its own .pn.ll
    pk = os.path.join(root, "pkg"); shutil.rmtree(pk, ignore_errors=True); os.makedirs(pk)
    open(os.path.join(pk, "call.pn"), "w").write('import "vendor:libc/stdlib.pn";\nfn main() -> u8\n{\n\tvar ptr: &[..]u8 = malloc(10);\n\tptr[5] = 5;\n\tvar result = ptr[5];\n\tfree(&ptr);\n\treturn: result\n}\n')
    open(os.path.join(pk, "up.pn"), "w").write('import "core:text/char.pn";\nfn main() -> u8\n{\n\treturn: 0\n}\n')
    npk = 0
    for pargs, pwant in ((["vendor:libc", "call.pn"], ["call.pn.ll", "vendor:libc/ctype.pn.ll", "vendor:libc/stdlib.pn.ll", "vendor:libc/string.pn.ll"]),
                         (["call.pn", "vendor:libc"], ["call.pn.ll", "vendor:libc/ctype.pn.ll", "vendor:libc/stdlib.pn.ll", "vendor:libc/string.pn.ll"]),
                         (["vendor:libc"], ["vendor:libc/ctype.pn.ll", "vendor:libc/stdlib.pn.ll", "vendor:libc/string.pn.ll"]),
                         (["vendor:libc/stdlib.pn", "call.pn"], ["call.pn.ll", "vendor:libc/stdlib.pn.ll"]),
                         (["core:text", "up.pn"], ["core:text/char.pn.ll", "up.pn.ll"])):
        shutil.rmtree(os.path.join(pk, "out"), ignore_errors=True)
        p = subprocess.run([PENNE, "emit", "--color=never", "--out-dir", "out"] + pargs, cwd=pk, capture_output=True, timeout=120)
        got = sorted(os.path.relpath(os.path.join(dp, f), os.path.join(pk, "out")) for dp, _, fs in os.walk(os.path.join(pk, "out")) for f in fs)
        npk += 1
        if p.returncode != 0 or got != sorted(pwant):
            bad += 1
            ck.violation("package-directory-argument", "penne emit --out-dir out %s: exit %d, files %s; a valid program, expected exit 0 and %s" % (" ".join(pargs), p.returncode, got, sorted(pwant)),
                         "cwd %s\ncall.pn:\n%s\noutput:\n%s" % (pk, open(os.path.join(pk, "call.pn")).read(), (p.stdout + p.stderr).decode(errors="replace")[-1500:]))
    ck.log("package directory arguments: %d invocations" % npk)
    ck.log("cli: %d invocations %s, %d problems" % (len(runs), dict(stats), bad))
    if not proof_ok:
        ck.violation("tie-broken:proof", "Props/C18.v no longer checks", getattr(ck, "proof_output", "")[-2000:])
    ck.coverage.update(
        evaluations=len(runs) + 2, distinct_nontrivial=len(distinct),
        rule="the real penne binary (built from /repo with alpha,llvm-sys) on {valid, multi-file, invalid, valid+invalid} x {build, run, emit} x sampled combinations of --silent --verbose --color --arrows --out-dir --backend --config --wasm PENNE_BACKEND/PENNE_LLI with stub back ends that record their invocation and exit with 0 / 3 / SIGSEGV / do not exist; exit status, invoked backend, diagnostics (no ANSI under --color=never, ASCII under --arrows=ascii), .pn.ll files under --out-dir (checked by llvm-as) vs Model/Cli.v; the IR handed to the interpreter by `run` (valid, defines main and every function of every module); plus real lli runs of a one-module and a two-module program in both file orders, and an absolute input path; distinct = (subcommand, input, backend, success, backend result); embedded packages given as directory arguments (vendor:libc, core:text) in both argument orders: exit 0 and one .pn.ll per module under its own name",
        stats=dict(stats), problems=bad,
        samples=[dict(config=str(configs[0]))])
    return ck.finish()
