"""C20 — rebuilt source parses back to the same tree."""
import random, collections, re
from .. import common as C
from .. import gen_syntax as GS, gen_mut as GM, gen_prog as GP
from .c16 import inputs

LIT = re.compile(r"\((?:sint|bits) (-?\d+) [^()]*\)")


def norm(show):
    """same tree up to the spelling and type suffix of literals"""
    return LIT.sub(r"(lit \1)", show)


def classify(f):
    """f = [tokens, alpha-show, rebuilt, reparsed-show, second-rebuild-identical, ...]"""
    if not f[1].startswith("ok "): return "skip"
    if "(bcall " in f[1] or "(sbcall " in f[1]: return "skip-builtin"
    if not f[2].startswith("ok "): return "rebuild-failed"
    if not f[3].startswith("ok "): return "rebuilt-does-not-parse"
    if norm(f[3][3:]) != norm(f[1][3:]): return "different-tree"
    if f[4] != "true": return "second-rebuild-differs"
    return None


def subclass(f):
    """which construct breaks the round trip (by looking at the rebuilt text)"""
    code = C.unesc(f[2][3:]).decode(errors="replace") if f[2].startswith("ok ") else ""
    tree = f[1]
    if f[1].strip() == "ok": return "empty-module"
    if "#" in code: return "annotation-in-output"
    if "(import " in tree and ("\\\\" in tree or "\\x22" in tree): return "import-path-escape"
    if "(opaque " in tree: return "opaque-structure"
    return "other"


def subclass2(tree):
    if "(opaque " in tree: return "opaque-structure"
    if "(import " in tree: return "import"
    return "other"


def run(tier):
    ck = C.Check("C20", tier)
    proof_ok = ck.prove()
    if not ck.builds():
        ck.violation("tie-broken:build", "model or harness does not build", "see log")
        return ck.finish()
    rng = random.Random(ck.seed + 20)
    def witness(src):
        f = C.run_harness("syntax-tree", [("w", src)], ck.work + "/witness").get("w", ["missing"])
        if len(f) < 5: return None
        k = classify(f)
        return None if k in (None, "skip", "skip-builtin") else "rebuild:%s:%s" % (k, subclass(f))
    ck.witness_runner = witness
    cases = inputs(rng, tier)
    impl = C.run_harness("syntax-tree", [(c[0], c[1]) for c in cases], ck.work + "/tree", timeout=3000)
    items = [("refparse", c[0], impl[c[0]][0]) for c in cases if c[0] in impl and len(impl[c[0]]) >= 5 and not impl[c[0]][0].startswith("lexerr")]
    model = C.run_model(items, ck.work + "/tree", timeout=3000)
    stats = collections.Counter(); distinct = set()
    for cid, src, kind in cases:
        f = impl.get(cid, ["missing"])
        if len(f) < 5:
            if f[0].startswith("panic"): ck.violation(C.failure_key(f[0]), "front end / rebuilder failed: " + f[0][:160], src)
            continue
        k = classify(f)
        if k in ("skip", "skip-builtin"): stats[k] += 1; continue
        # the reference side: printing the reference tree and parsing it again gives the same tree (theorem, re-checked by computation)
        m = model.get(cid, "")
        if "parsed=true" in m and "roundtrip=true" not in m:
            ck.violation("tie-broken:reference-roundtrip", "reference printer/parser do not round-trip on a real tree: " + m.split("\t")[0], src)
        stats[k or "roundtrip-ok"] += 1
        if k is None: distinct.add(f[1]); continue
        sub = subclass(f)
        ck.violation("rebuild:%s:%s" % (k, sub), "rebuilt source of an error-free module without builtin calls: %s (%s)" % (k, sub),
                     "source:\n%s\nrebuilt:\n%s\noriginal tree: %s\nreparsed tree: %s" % (src, C.unesc(f[2][3:]).decode(errors="replace")[:2000] if f[2].startswith("ok ") else f[2], f[1][:1200], f[3][:1200]))
    # second pass: modules whose only problem is the `#` annotation must round-trip once the
    # annotations are removed, so that the listed finding does not hide other printing errors
    again = []
    for cid, src, kind in cases:
        f = impl.get(cid, ["missing"])
        if len(f) >= 5 and classify(f) == "rebuilt-does-not-parse" and subclass(f) == "annotation-in-output":
            code = C.unesc(f[2][3:]).decode(errors="replace")
            again.append((cid, re.sub(r"#\??\w*", "", code), f[1]))
    impl2 = C.run_harness("syntax-tree", [(a[0], a[1]) for a in again], ck.work + "/tree2", timeout=3000)
    for cid, cleaned, orig in again:
        g = impl2.get(cid, ["missing"])
        if len(g) < 2 or not g[1].startswith("ok "):
            stats["deannotated:does-not-parse"] += 1
            ck.violation("rebuild:deannotated-does-not-parse", "rebuilt source does not parse even with the `#` annotations removed", "rebuilt (annotations removed):\n%s\nresult: %s" % (cleaned[:2000], g[1][:300] if len(g) > 1 else g))
        elif norm(g[1][3:]) != norm(orig[3:]):
            stats["deannotated:different-tree"] += 1
            ck.violation("rebuild:deannotated-different-tree:" + subclass2(orig), "rebuilt source (annotations removed) parses to a different tree", "rebuilt:\n%s\noriginal: %s\nreparsed: %s" % (cleaned[:2000], orig[:1500], g[1][:1500]))
        else:
            stats["deannotated:roundtrip-ok"] += 1
    ck.log("rebuild round trips: %d inputs %s" % (len(cases), dict(stats)))
    # the tie of Model/Escape.v: what the real rebuilder prints for a string constant and an import path,
    # for random byte strings (every byte value, every length up to 40), equals the model's text byte for byte
    def spell(b):
        if b in (34, 92): return "\\" + chr(b)
        if 32 <= b < 127: return chr(b)
        return {10: "\\n", 13: "\\r", 9: "\\t", 0: "\\0"}.get(b, "\\x%02X" % b)
    erng = random.Random(ck.seed + 2020)
    ecases, eitems, want = [], [], {}
    for i in range(300 if tier == "quick" else 20000):
        ln = i % 41 if i < 200 else erng.randint(0, 300)
        bs = bytes(erng.choice([erng.randrange(256), erng.choice(b"'\"\\\n\t\r\x00 az09")]) for _ in range(ln))
        path = bytes(erng.choice(b"abc/._-'\"\\ \xc3\xa9\x01") for _ in range(erng.randint(1, 12)))
        try: path.decode("utf-8")
        except UnicodeDecodeError: path = b"p/q.pn"          # (import paths must be UTF-8: parser.rs String::from_utf8)
        cid = "e%d" % i
        ecases.append((cid, 'const S: []char8 = "%s";\nimport "%s";\n' % ("".join(spell(b) for b in bs), "".join(spell(b) for b in path))))
        eitems += [("escape", cid + ".c", "(const %s)" % (bs.hex() or "-")), ("escape", cid + ".i", "(import %s)" % (path.hex() or "-"))]
    eimpl = C.run_harness("syntax-tree", ecases, ck.work + "/escape", timeout=1800)
    emodel = C.run_model(eitems, ck.work + "/escape")
    ebad = 0
    for cid, src in ecases:
        f = eimpl.get(cid, ["missing"])
        if len(f) < 3 or not f[2].startswith("ok "):
            ebad += 1; ck.violation("tie-broken:escape-rebuild", "a module of one string constant and one import is not rebuilt: %s" % (f[:3],), src); continue
        real = C.unesc(f[2][3:])
        try: model = b"\n" + bytes.fromhex(emodel.get(cid + ".c", "")) + b"\n" + bytes.fromhex(emodel.get(cid + ".i", ""))
        except ValueError: model = b"MODEL-ERROR " + repr((emodel.get(cid + ".c"), emodel.get(cid + ".i"))).encode()
        if real != model:
            ebad += 1; ck.violation("tie-broken:escape-text", "the rebuilder's text for a string constant / import differs from Model/Escape.v (rebuild_const_string / rebuild_import)",
                                    "source:\n%s\nreal : %r\nmodel: %r" % (src, real, model))
    ck.log("escape tie: %d modules, %d differences" % (len(ecases), ebad))
    if not proof_ok:
        ck.violation("tie-broken:proof", "Props/C20.v no longer checks", getattr(ck, "proof_output", "")[-2000:])
    ck.coverage.update(
        evaluations=len(cases), distinct_nontrivial=len(distinct),
        rule="(string/import printing: real rebuilder text = Model/Escape.v on random byte strings) grammar derivations covering every declaration, statement, type and expression form, generated programs and the corpus; for every module that parses without error and has no builtin call: real rebuild -> real lex+parse -> same tree up to literal spelling/suffix, and a second rebuild is byte-identical; the reference printer/parser round trip is re-checked by computation on the same trees; distinct = distinct trees that round-trip",
        stats=dict(stats),
        samples=[dict(source=cases[0][1][:300])])
    return ck.finish()
