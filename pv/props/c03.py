"""C03 — every successful compilation yields valid LLVM IR."""
import random, collections, re, itertools
from .. import common as C
from .. import gen_prog as GP
from .. import gen_mut as GM

ABI = ["i8", "i16", "i32", "i64", "u8", "u16", "u32", "u64", "usize"]


# programs whose invalid IR was once emitted or stopped only by the in-process verifier (D41 and relatives)
TYPER_GAPS = [
    "struct H\n{\n\tvalues: [2]i32,\n}\nfn main() -> i32\n{\n\tvar h = H { values: [1, 2, 3] };\n\treturn: h.values[0]\n}\n",
    "struct H\n{\n\tvalues: [2]i32,\n}\nfn main() -> i32\n{\n\tvar x: i32 = 1;\n\tvar h = H { values: [x, 2, 3] };\n\treturn: h.values[0]\n}\n",
    "struct H\n{\n\tv: i32,\n}\nfn main() -> i32\n{\n\tvar h = H { v: true };\n\treturn: h.v\n}\n",
    "struct H\n{\n\tv: i32,\n}\nfn main() -> i32\n{\n\tvar b: i64 = 3;\n\tvar h = H { v: b };\n\treturn: h.v\n}\n",
    "fn main() -> u8\n{\n\tvar a3: [2]i16 = [3964i16, 5152i16];\n\tprint!(a3, \"\\n\");\n\treturn: 0\n}\n",
    "fn main() -> u8\n{\n\tvar one: []i32 = [];\n\tprint!(one, \"\");\n\treturn: 0\n}\n",
]


def flagged_program(rng, i):
    g = GP.Gen(random.Random(rng.getrandbits(64)), level=3, max_funcs=4)
    p = g.program()
    lay = GP.Layout(random.Random(i), plain=True)
    out, expect = GP.source(dict(structs=p["structs"], consts=p["consts"], funcs=[]), random.Random(i), plain=True), {}
    with_main = rng.random() < 0.8
    for name, params, ret, body, result, _ in p["funcs"]:
        if name == "main" and not with_main: name = "notmain"
        if name == "main" and rng.random() < 0.3: params = [("argc", "i32")] + list(params)     # main may take parameters
        pub = name != "main" and rng.random() < 0.5
        ext = name != "main" and all(t in ABI for _, t in params) and (ret is None or ret in ABI) and rng.random() < 0.3
        out += "%s%sfn %s(%s)%s\n{\n" % ("pub " if pub else "", "extern " if ext else "", name,
                                         ", ".join("%s: %s" % (x, GP.src_ty(t)) for x, t in params), " -> " + GP.src_ty(ret) if ret else "")
        for s in body: out += GP.src_stmt(s, lay, 1)
        if result is not None: out += "\treturn: %s\n" % GP.src_expr(result, lay, result[0] != "lit")
        out += "}\n\n"
        expect[name] = "%s%s---" % ("p" if pub else "-", "e" if ext else "-") if name != "main" else "--m--"
    if rng.random() < 0.4:
        out += "extern fn puts_like(s: []u8) -> i32;\n"; expect["puts_like"] = "-e-f-"
    if expect and rng.random() < 0.3:
        # a constant may have the name of a function (separate name spaces): the function keeps its symbol
        out = "const %s: i32 = 7;\n" % rng.choice(sorted(expect)) + out
    return out.replace("notmain(", "notmain("), expect


def ir_functions(ir):
    """name -> (kind, linkage, cc) from define/declare lines"""
    out = {}
    for line in ir.split("\\n"):
        m = re.match(r"(define|declare)\s+(.*?)@\"?([\w.]+)\"?\(", line)
        if not m: continue
        attrs = m.group(2).split()
        linkage = "private" if "private" in attrs else ("internal" if "internal" in attrs else "external")
        cc = "fastcc" if "fastcc" in attrs else "ccc"
        out[m.group(3)] = (m.group(1), linkage, cc)
    return out


def call_conv_mismatches(ir):
    """call instructions whose calling convention differs from their callee's (undefined behaviour
    by the LLVM language reference, although the verifier accepts it): [(callee, call cc, callee cc)]"""
    fs = ir_functions(ir)
    out = []
    for line in ir.split("\\n"):
        m = re.search(r"\bcall\s+(.*?)@\"?([\w.]+)\"?\(", line)
        if not m or m.group(2) not in fs: continue
        cc = "fastcc" if "fastcc" in m.group(1).split() else "ccc"
        if cc != fs[m.group(2)][2]: out.append((m.group(2), cc, fs[m.group(2)][2]))
    return out


def run(tier):
    ck = C.Check("C03", tier)
    proof_ok = ck.prove(extra_trusted=["llvm-as and opt (LLVM 14) run as independent tools decide IR validity; their rules are not modelled"])
    if not ck.builds():
        ck.violation("tie-broken:build", "model or harness does not build", "see log")
        return ck.finish()
    rng = random.Random(ck.seed)
    n = 150 if tier == "quick" else 6000
    progs = [("f%d" % i,) + flagged_program(rng, i) for i in range(n)]
    impl = C.run_harness("tools", [(p[0], p[1]) for p in progs], ck.work + "/flag", timeout=1800)
    irs = C.run_harness("ir", [(p[0], p[1]) for p in progs], ck.work + "/flagir", timeout=1800)
    keys = sorted({v for p in progs for v in p[2].values()})
    table = C.run_model([("linkage", k, k) for k in keys], ck.work + "/flag", jobs=1)
    stats = collections.Counter(); bad = 0; distinct = set()
    for cid, src, expect in progs:
        f = impl.get(cid, ["missing"])
        if not f[0].startswith("ok"):
            if f[0].startswith("err"): ck.violation("valid-rejected:" + f[0], "generated valid program rejected: " + f[0], src)
            else: ck.violation(C.failure_key(f[0]), "compiler failed: " + f[0][:160], src)
            continue
        stats["accepted"] += 1
        if f[2] != "tools=ok":
            bad += 1; ck.violation("invalid-ir:" + f[2].split(":")[0], "LLVM tools reject the IR: " + f[2], src); continue
        fs = ir_functions(irs.get(cid, ["", ""])[1])
        mm = call_conv_mismatches(irs.get(cid, ["", ""])[1])
        if mm:
            bad += 1; ck.violation("call-convention-mismatch", "calls whose calling convention differs from the callee's (undefined behaviour in LLVM IR): %s" % mm[:4], src)
        for name, flags in expect.items():
            want = table.get(flags, "? ?").split(" ")
            got = fs.get(name)
            distinct.add((flags, got))
            if got is None:
                bad += 1; ck.violation("function-missing", "the IR does not define/declare the source function %s" % name, src); continue
            kind = "declare" if flags[3] == "f" else "define"
            if got != (kind, want[0], want[1]):
                key = "tie-broken:linkage-table" if proof_ok else "wrong-linkage"
                if (flags[0] == "p" or flags[2] == "m") and got[1] != "external": key = "hidden-symbol"
                bad += 1; ck.violation(key, "function %s (flags %s): IR has %s, expected %s %s %s" % (name, flags, got, kind, want[0], want[1]), src)
    ck.log("flagged programs: %d %s, %d problems" % (len(progs), dict(stats), bad))
    # other sources of accepted programs: multi-module sets, mutated corpus, wasm target
    others = []
    for i in range(40 if tier == "quick" else 1500):
        g = GP.Gen(random.Random(rng.getrandbits(64)), max_funcs=4); p = g.program()
        names = [f[0] for f in p["funcs"]]
        assign = {nm: rng.randrange(3) for nm in names}
        used = sorted(set(assign.values())); remap = {m: k for k, m in enumerate(used)}
        assign = {nm: remap[m] for nm, m in assign.items()}
        text, _ = GP.source_modules(p, assign, random.Random(i))
        others.append(("m%d" % i, text))
    for i, (k, s) in enumerate(GM.stream(rng, 400 if tier == "quick" else 20000)):
        others.append(("x%d" % i, s))
    # a module with k constants of other types before a module whose parameters and locals get the same
    # resolution ids (nothing of the first module may end up in the IR of the second)
    for kc in range(0, 8):
        for ty, val in (("i64", "1000"), ("u8", "7"), ("bool", "true"), ("[2]i64", "[1, 2]")):
            consts = "".join("const C%d: %s = %s;\n" % (j, ty, val) for j in range(kc))
            ma = consts + "fn main() -> i32\n{\n\treturn: 0\n}\n"
            mb = "pub struct Pair\n{\n\ta: i32,\n\tb: i32,\n}\npub fn make(x: i32, y: i32, z: i32) -> i32\n{\n\tvar p = Pair { a: x, b: y };\n\tvar q: [3]i32 = [x, y, z];\n\tvar w: i32 = z;\n\treturn: p.a + p.b + q[2] + w\n}\n"
            others.append(("lk%d%s" % (kc, ty[:2].strip("[")), "//// module settings.pn\n%s//// module pair.pn\n%s" % (ma, mb)))
    # inputs on which the in-process verifier or LLVM itself is known to stop the compiler (listed C02 findings)
    # and programs that were once accepted with invalid IR: whenever such a program is accepted, its IR must be valid
    import glob, os
    for fpath in sorted(glob.glob(os.path.join(C.VERIF, "findings", "C0[1237]-*.pn"))):
        others.insert(0, ("w" + os.path.basename(fpath), open(fpath, newline="").read()))
    for j, src in enumerate(TYPER_GAPS):
        others.insert(0, ("gap%d" % j, src))
    # builtins that stand for a value of a fixed type (line!() is a usize) inside constant aggregates, where the
    # in-process verifier does not look at element types
    for bi, ctx in enumerate(["\treport(Site { line: line!(), code: 7 });\n", "\tvar s = Site { line: line!(), code: 1 };\n", "\tvar a: [2]usize = [line!(), 2];\n", "\tvar l: usize = line!();\n",
                              "\tvar m: [2]Site = [Site { line: 1, code: 2 }, Site { line: line!(), code: 3 }];\n", "\tprint!(\"at \", line!(), \"\\n\");\n", "\tvar n: usize = line!() + 1;\n"]):
        others.insert(0, ("bl%d" % bi, "struct Site\n{\n\tline: usize,\n\tcode: i32,\n}\nfn report(s: Site)\n{\n}\nfn main() -> i32\n{\n" + ctx + "\treturn: 0\n}\n"))
    # aggregate literals whose elements do not agree (inner arrays of another element type or length, members of
    # another type): rejected, or else compiled to IR the assembler accepts - LLVM's builders and the in-process
    # verifier do not look inside constant aggregates
    for mi, (decl, lit) in enumerate([("[2][2]i32", "[[1i32, 2i32], [3u8, 4u8]]"), ("", "[[1i32, 2i32], [3u8, 4u8, 5u8]]"), ("[2][2]i32", "[[1, 2], [3u8, 4u8]]"), ("", "[[1i64, 2i64], [3i32, 4i32]]"),
                                      ("", "[[true, false], [1u8, 0u8]]"), ("[3][1]u16", "[[1u16], [2u16], [3u8]]"), ("", "[[[1i32]], [[2i64]]]"), ("", "[Site { line: 1, code: 2 }, Site { line: 3u8, code: 4 }]"),
                                      ("[2][2]i32", "[[1i32, 2i32], [3i32, 4i32]]")]):
        ty = ": " + decl if decl else ""
        others.insert(0, ("ma%dc" % mi, "struct Site\n{\n\tline: usize,\n\tcode: i32,\n}\nconst A%s = %s;\nfn main() -> i32\n{\n\treturn: 0\n}\n" % (ty, lit)) if decl else ("ma%dc" % mi, "fn main() -> i32\n{\n\treturn: 0\n}\n"))
        others.insert(0, ("ma%dv" % mi, "struct Site\n{\n\tline: usize,\n\tcode: i32,\n}\nfn main() -> i32\n{\n\tvar a%s = %s;\n\treturn: 0\n}\n" % (ty, lit)))
    impl2 = C.run_harness("tools", others, ck.work + "/others", timeout=1800)
    # the wasm32 target: the unmutated corpus, programs whose IR mentions usize (slices of strings and
    # arrays, lengths, size-of, indexing), and the head of the stream above
    wasm = [("k:" + name, src) for name, src in GM.corpus()]
    for j, (ty, val) in enumerate([("[]char8", '"hello"'), ("[]i32", "[1, 2, 3]"), ("[]u8", "[7u8]"), ("[]char8", '""')]):
        wasm.append(("z%d" % j, "fn count(x: %s) -> usize\n{\n\treturn: |x|\n}\npub extern fn start()\n{\n\tvar n = count(%s);\n\tvar a: [4]i32 = [1, 2, 3, 4];\n\tvar i: usize = |a| - 1;\n\tvar e = a[i];\n\tvar s: usize = |:[4]i32|;\n}\n" % (ty, val)))
    # casts between usize and every integer type on values known at compile time (sizes, lengths, constants,
    # literals), inside structure and array literals, constants, arguments and returned values: on wasm32 usize is
    # 32 bits wide, so `usize as u64` is a real conversion there (a cast taken for a no-op leaves an i32 in an i64 slot)
    kc = 0
    for T in ("u64", "i64", "u32", "i32", "u16", "u8", "u128", "i128", "usize"):
        for X in ("|:Payload|", "ENTRIES", "12usize", "|table|", "|:[3]&u8|", "(ENTRIES + 1)"):
            for T2, X2 in ((T, X), ("usize", "(%s as %s)" % (X, T) if T != "usize" else X)):
                if T2 == "usize" and T == "usize" and X2 == X: cast = X
                elif T2 == "usize": cast = "%s as usize" % X2
                else: cast = "%s as %s" % (X, T)
                head = ("struct Payload\n{\n\ta: u64,\n\tb: [3]u64,\n}\nconst ENTRIES: usize = 12;\nstruct Header\n{\n\tmagic: u32,\n\tsize: %s,\n\tn: %s,\n}\n"
                        "fn take(x: %s) -> %s\n{\n\treturn: x\n}\n") % (T2, T2, T2, T2)
                ccast = cast.replace("|table|", "5usize")
                # one context per program: a context that makes LLVM stop the compiler must not hide the silent ones
                for ctx in ("\tvar h = Header { magic: 7, size: %s, n: %s };\n" % (cast, cast), "\tvar arr: [2][2]%s = [[%s, %s], [%s, %s]];\n" % (T2, cast, cast, cast, cast),
                            "\tvar r = take(%s);\n" % cast, "\tvar q: %s = %s;\n" % (T2, cast), "\tvar hs: [2]Header = [Header { magic: 1, size: %s, n: 2 }, Header { magic: 2, size: 3, n: %s }];\n" % (cast, cast),
                            None):
                    if ctx is None: src = head + "const C: %s = %s;\nconst D: [2]%s = [%s, %s];\npub extern fn start()\n{\n\tvar q: %s = C;\n}\n" % (T2, ccast, T2, ccast, ccast, T2)
                    else: src = head + "pub extern fn start()\n{\n\tvar table: [5]u8 = [1, 2, 3, 4, 5];\n" + ctx + "}\n"
                    wasm.append(("wc%d" % kc, src)); kc += 1
    wasm += others[: (150 if tier == "quick" else 5000)]
    impl3 = C.run_harness("tools-wasm", wasm, ck.work + "/wasm", timeout=1800)
    acc = 0
    for label, res, srcs in (("native", impl2, others), ("wasm", impl3, wasm)):
        for cid, src in srcs:
            f = res.get(cid)
            if f is None or not f[0].startswith("ok"): continue
            acc += 1
            if len(f) > 2 and f[2] != "tools=ok":
                bad += 1; ck.violation("invalid-ir:%s:%s" % (label, f[2].split(":")[0]), "LLVM tools reject the %s IR: %s" % (label, f[2]), src)
    ck.log("other accepted inputs checked by the tools: %d" % acc)
    # a module cannot define a function whose name it also imports: LLVM would rename one of the two
    # (`@scale.1`) and the source function would not be defined under its name
    dups = []
    for di, (fa, fb) in enumerate([("pub fn scale", "pub fn scale"), ("pub fn scale", "fn scale"), ("pub extern fn scale", "fn scale"), ("pub fn scale", "extern fn scale")]):
        util = "%s(x: i32) -> i32\n{\n\treturn: x * 2\n}\n" % fa
        main_ = "import \"util.pn\";\n%s(x: i32) -> i32\n{\n\treturn: x * 3\n}\nfn main() -> i32\n{\n\treturn: scale(1)\n}\n" % fb
        for order in (0, 1):
            mods = [("util.pn", util), ("main.pn", main_)]
            if order: mods.reverse()
            dups.append(("du%d.%d" % (di, order), "".join("//// module %s\n%s" % m for m in mods)))
    # a PUBLIC function named like a C function the generated code calls keeps its name (D77 only takes the name from
    # private items): the module that defines it, and the linked program, define it
    cnames = []
    for cn in ("write", "snprintf", "abort"):
        lib = "pub fn %s(value: i32) -> i32\n{\n\tprint!(\"v \", value, \"\\n\");\n\treturn: value + 1\n}\n" % cn
        main_ = "import \"lib.pn\";\nfn main() -> i32\n{\n\treturn: %s(41)\n}\n" % cn
        for order in (0, 1):
            mods = [("lib.pn", lib), ("main.pn", main_)]
            if order: mods.reverse()
            cnames.append(("cn%s.%d" % (cn, order), "".join("//// module %s\n%s" % m for m in mods), cn))
        cnames.append(("cn%s.s" % cn, "pub fn %s(value: i32) -> i32\n{\n\tprint!(\"v\\n\");\n\treturn: value + 1\n}\nfn main() -> i32\n{\n\treturn: %s(41)\n}\n" % (cn, cn), cn))
    cimpl = C.run_harness("ir", [(a, b) for a, b, _ in cnames], ck.work + "/cnames", timeout=600)
    for cid, src, cn in cnames:
        f = cimpl.get(cid, ["missing"])
        if f[0].startswith("ok"):
            ir = "".join(f[1:]).replace("\\n", "\n")
            if not re.search(r"define [^\n]*@%s\(i32" % cn, ir):
                bad += 1; ck.violation("function-missing:named-like-c-function", "the public function `%s` of the source is not defined under its name in the emitted IR" % cn, src + "\n" + ir[:3000])
        elif not f[0].startswith("err codes="):
            ck.violation(C.failure_key(f[0]), "compiler failed: " + f[0][:160], src)
    tri = []
    tmods = [("a.pn", "pub fn helper(x: i32) -> i32\n{\n\treturn: x + 1\n}\n"), ("b.pn", "pub fn helper(x: i32) -> i32\n{\n\treturn: x + 2\n}\npub fn only_in_b(x: i32) -> i32\n{\n\treturn: x * 2\n}\n"),
             ("c.pn", "import \"b.pn\";\nfn main() -> i32\n{\n\treturn: only_in_b(21)\n}\n")]
    import itertools as _it3
    for oi, order in enumerate(_it3.permutations(tmods)):
        tri.append(("tri%d" % oi, "".join("//// module %s\n%s" % m for m in order)))
    timpl = C.run_harness("ir", tri, ck.work + "/tri", timeout=600)
    for cid, src in tri:
        f = timpl.get(cid, ["missing"])
        if f[0].startswith("ok"):
            ir = f[1].replace("\\n", "\n")          # the LINKED program (the modules' own IR follows in the other fields)
            if not re.search(r"define [^\n]*@only_in_b\(", ir) or len(re.findall(r"define [^\n]*@helper", ir)) < 2:
                bad += 1; ck.violation("function-missing:link-error-ignored", "two modules define `helper`; the compilation succeeds and the program lacks a definition the source has", src + "\n" + ir[-3000:])
    dimpl = C.run_harness("ir", dups, ck.work + "/dups", timeout=600)
    for cid, src in dups:
        f = dimpl.get(cid, ["missing"])
        if f[0].startswith("ok"):
            ir = "".join(f[1:])
            renamed = sorted(set(re.findall(r"@(scale\.\d+)\(", ir)))
            if renamed or len(re.findall(r"define [^\n]*@scale\(", ir.replace("\\n", "\n"))) != 2:
                bad += 1; ck.violation("function-missing:renamed-by-llvm", "a module that imports `scale` and defines its own `scale` is accepted; the IR has %s instead of the source function" % (renamed or "one definition"), src)
        elif not f[0].startswith("err codes="):
            ck.violation(C.failure_key(f[0]), "compiler failed: " + f[0][:160], src)
    # the same through the real command line tool: what `penne run a.pn b.pn ...` hands to the interpreter
    # is the linked program (main.rs, not the harness, drives the stages here)
    from . import c18
    ncli = 0
    if c18.build_penne(ck):
        import os, shutil, subprocess
        root = os.path.join(ck.work, "cli"); shutil.rmtree(root, ignore_errors=True)
        for cid, text in [o for o in others if o[0].startswith("m")][: (12 if tier == "quick" else 300)]:
            d = os.path.join(root, cid); os.makedirs(d)
            mods = C.split_modules(text)
            for name, src in mods: open(os.path.join(d, name), "w").write(src)
            c18.make_stub(d, "lli", "0")
            env = dict(os.environ); env["PATH"] = d
            p = subprocess.run([c18.PENNE, "run", "--color=never"] + [m[0] for m in mods], cwd=d, env=env, capture_output=True, timeout=120)
            sp = os.path.join(d, "stdin.lli")
            if p.returncode != 0 or not os.path.exists(sp): continue
            ncli += 1
            ir = open(sp).read()
            q = C.sh("llvm-as -o - %s | opt -passes=verify -o /dev/null" % sp)
            # private functions nothing refers to may be dropped by the linker: only main and public functions must be there
            fnames = set(re.findall(r"^pub (?:extern )?fn (\w+)\(", text, re.M)) | ({"main"} if re.search(r"^fn main\(", text, re.M) else set())
            missing = sorted(f for f in fnames if not re.search(r"^define [^\n]*@%s\(" % f, ir, re.M))
            if q.returncode != 0 or missing:
                bad += 1; ck.violation("invalid-ir:cli-linked", "the program `penne run` hands to the interpreter %s" % ("does not define " + ", ".join(missing) if missing else "is rejected by the LLVM tools: " + q.stderr.decode()[:200]), text)
        ck.log("linked programs through the command line tool: %d" % ncli)
    from .. import cfgstream
    ncfg, cstats, csizes, cbad = cfgstream.run(ck, 300 if tier == "quick" else 20000, ck.seed + 3, tools=True)
    bad += cbad
    if not proof_ok:
        ck.violation("tie-broken:proof", "Props/C03.v no longer checks", getattr(ck, "proof_output", "")[-2000:])
    ck.coverage.update(
        evaluations=len(progs) + len(others) + len(impl3) + ncfg, distinct_nontrivial=len(distinct) + acc,
        rule="generated valid programs with random pub/extern flags, with and without main (never executed here, so UB and non-termination are included), extern heads; every accepted module and the linked program through llvm-as and opt -passes=verify; every source function must be defined/declared with the linkage and calling convention of the generated table; plus multi-module sets (also through the real command line tool: the linked program handed to the interpreter must be valid and define main and every public function), accepted mutants of the corpus, inputs that once produced invalid IR, and the wasm32 target; distinct = (flag set, IR attributes) pairs + accepted other inputs; aggregate literals whose elements disagree in type or length (constant and local): rejected or valid IR",
        stats=dict(stats), problems=bad, other_accepted=acc, cfg_skeletons=ncfg, cfg_stats=dict(cstats), cfg_block_counts=dict(csizes),
        cfg_rule="random accepted control-flow skeletons (goto, conditional goto, labels, nested blocks, if/else chains, loops with exits; distinct constants identify actions and conditions): the blocks of the emitted IR in creation order must be exactly Model/Cfg.v's (base names, actions per block, terminators, targets), and llvm-as + opt verify must accept them",
        samples=[dict(source=progs[0][1][:500], expect=progs[0][2], tools=impl.get(progs[0][0], ["?"] * 3)[2])])
    return ck.finish()
