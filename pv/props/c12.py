"""C12 — imports expose exactly the public interface and modules compose."""
import re, random, itertools, collections
from .. import common as C
from .. import gen_prog as GP

KINDS = ["fn", "const", "struct", "fnhead"]


def random_module_set(rng):
    n = rng.randint(1, 4)
    if rng.random() < 0.4:
        # directories: several files share a base name or a path suffix; imports by exact path or relative to the importer
        pool = ["a/x.pn", "b/a/x.pn", "x.pn", "a/y.pn", "b/y.pn", "c/b/a/x.pn", "a/b/y.pn", "y.pn"]
        names = rng.sample(pool, n)
    else:
        names = ["m%d.pn" % i for i in range(n)]
    mods = []
    counter = 0
    for i in range(n):
        lines = []
        for _ in range(rng.randint(0, 3)):
            k = rng.random()
            if k < 0.75:
                target = rng.choice(names)
                if "/" in target and rng.random() < 0.6: target = rng.choice(["x.pn", "y.pn", "a/x.pn", "b/y.pn", target.split("/", 1)[1]])
            elif k < 0.9: target = "nowhere%d.pn" % rng.randint(0, 2)
            else: target = names[i]
            lines.append('import "%s";' % target)
        decls = []
        for _ in range(rng.randint(0, 5)):
            counter += 1
            pub = "pub " if rng.random() < 0.55 else ""
            ext = "extern " if rng.random() < 0.1 else ""
            kind = rng.choice(KINDS)
            if kind == "fn": decls.append("%s%sfn g%d(a: i32) -> i32\n{\n\treturn: a\n}" % (pub, ext, counter))
            elif kind == "fnhead": decls.append("%s%sfn h%d(a: i32) -> i32;" % (pub, ext, counter))
            elif kind == "const": decls.append("%sconst K%d: i32 = %d;" % (pub, counter, counter))
            else: decls.append("%sstruct S%d\n{\n\tx: i32,\n}" % (pub, counter))
        allitems = lines + decls
        if rng.random() < 0.3: rng.shuffle(allitems)
        mods.append((names[i], "\n".join(allitems) + "\n"))
    return "".join("//// module %s\n%s" % m for m in mods)


def leak_sweep():
    """two-module programs for state leaking between modules: k private constants (and a private function)
    in one module, a function with n parameters and m local variables in another - every small combination,
    both file orders, against the single file; plus private extern functions of the same name in both
    modules and an opaque public structure.  Returns [(id, source)], ids `w<n>` (single file) and `w<n>.o<k>`."""
    cases = []
    sw = 0
    for k in range(0, 6):
        for npar in range(0, 4):
            for nloc in range(1, 4):
                consts = "".join("const C%d: i32 = %d;\n" % (j, 1000 + 111 * j) for j in range(k))
                csum = " + ".join(["0"] + ["C%d" % j for j in range(k)])
                params = ", ".join("p%d: i32" % j for j in range(npar))
                body = "".join("\tvar v%d: i32 = %s;\n" % (j, ("p%d * 3" % (j % npar)) if npar else str(7 + j)) for j in range(nloc))
                body += "".join("\tv%d = v%d + 1;\n" % (j, j) for j in range(nloc))
                ret = " + ".join("v%d" % j for j in range(nloc))
                util = "pub fn scale(%s) -> i32\n{\n%s\treturn: %s\n}\n" % (params, body, ret)
                args = ", ".join(str(2 + j) for j in range(npar))
                main = "fn own() -> i32\n{\n\treturn: %s\n}\nfn main() -> u8\n{\n\tprint!(own(), \" \", scale(%s), \"\\n\");\n\treturn: 0\n}\n" % (csum, args)
                base = "w%d" % sw; sw += 1
                cases.append((base, consts + util + main))
                cases.append((base + ".o0", "//// module main.pn\nimport \"util.pn\";\n%s%s//// module util.pn\n%s" % (consts, main, util)))
                cases.append((base + ".o1", "//// module util.pn\n%s//// module main.pn\nimport \"util.pn\";\n%s%s" % (util, consts, main)))
    # each module has a PRIVATE extern function of the same name (their own definitions)
    a = "extern fn helper() -> i32\n{\n\treturn: 40\n}\npub fn from_a() -> i32\n{\n\treturn: helper()\n}\n"
    b = "import \"a.pn\";\nextern fn helper2() -> i32\n{\n\treturn: 2\n}\nfn main() -> u8\n{\n\tprint!(from_a() + helper2(), \"\\n\");\n\treturn: 0\n}\n"
    single = a + b.replace("import \"a.pn\";\n", "")
    b2 = b.replace("helper2", "helper")   # the same private name in both modules: two distinct functions
    cases += [("w%d" % sw, single), ("w%d.o0" % sw, "//// module a.pn\n%s//// module b.pn\n%s" % (a, b2)), ("w%d.o1" % sw, "//// module b.pn\n%s//// module a.pn\n%s" % (b2, a))]; sw += 1
    # an opaque public structure used through pointers by the importer
    reg = "pub struct Owner;\npub struct Handler\n{\n\towner: &Owner,\n\tcode: i32,\n}\npub fn code_of(h: &Handler) -> i32\n{\n\treturn: h.code\n}\n"
    use = "import \"reg.pn\";\nfn pass(o: &Owner, c: i32) -> i32\n{\n\treturn: c\n}\nfn main() -> u8\n{\n\tvar x: i32 = 42;\n\tprint!(x, \"\\n\");\n\treturn: 0\n}\n"
    single = reg + use.replace("import \"reg.pn\";\n", "")
    cases += [("w%d" % sw, single), ("w%d.o0" % sw, "//// module reg.pn\n%s//// module main.pn\n%s" % (reg, use)), ("w%d.o1" % sw, "//// module main.pn\n%s//// module reg.pn\n%s" % (use, reg))]; sw += 1
    # private structures of one name (different members) in two modules are two structures (D58)
    la = "struct %s\n{\n\ta: i32,\n\tb: i32,\n}\npub fn getb() -> i32\n{\n\tvar f = %s { a: 1, b: 2 };\n\treturn: f.b\n}\n"
    lm = "struct %s\n{\n\tx: i64,\n\ty: i64,\n\tz: i64,\n}\nfn main() -> u8\n{\n\tvar g = %s { x: 1, y: 2, z: 3 };\n\tvar n: usize = |:%s|;\n\tprint!(getb(), \" \", g.z, \" \", n, \"\\n\");\n\treturn: 0\n}\n"
    cases += [("w%d" % sw, la % ("FooA", "FooA") + lm % ("FooB", "FooB", "FooB")),
              ("w%d.o0" % sw, "//// module a.pn\n%s//// module main.pn\nimport \"a.pn\";\n%s" % (la % ("Foo", "Foo"), lm % ("Foo", "Foo", "Foo"))),
              ("w%d.o1" % sw, "//// module main.pn\nimport \"a.pn\";\n%s//// module a.pn\n%s" % (lm % ("Foo", "Foo", "Foo"), la % ("Foo", "Foo")))]; sw += 1
    # private constant ARRAYS of one name (they are emitted as globals; scalars are folded) in two modules
    ta = "const TABLE: [3]i32 = [1, 2, 3];\npub fn a_get(i: usize) -> i32\n{\n\treturn: TABLE[i]\n}\n"
    tb = "const TABLE: [3]i32 = [10, 20, 30];\npub fn b_get(i: usize) -> i32\n{\n\treturn: TABLE[i]\n}\n"
    tm = "fn main() -> u8\n{\n\tprint!(a_get(1), \" \", b_get(1), \"\\n\");\n\treturn: 0\n}\n"
    single = ta.replace("TABLE", "TABLE_A") + tb.replace("TABLE", "TABLE_B") + tm
    imp = "import \"a.pn\";\nimport \"b.pn\";\n"
    cases += [("w%d" % sw, single),
              ("w%d.o0" % sw, "//// module a.pn\n%s//// module b.pn\n%s//// module main.pn\n%s%s" % (ta, tb, imp, tm)),
              ("w%d.o1" % sw, "//// module b.pn\n%s//// module a.pn\n%s//// module main.pn\n%s%s" % (tb, ta, imp, tm)),
              ("w%d.o2" % sw, "//// module main.pn\n%s%s//// module b.pn\n%s//// module a.pn\n%s" % (imp, tm, tb, ta))]; sw += 1
    return cases


def check_leaks(ck, label="leaks"):
    """run the sweep: every split must behave like its single file (used by C01, C10, C12)"""
    cases = leak_sweep()
    impl = C.run_harness("exec", cases, ck.work + "/" + label, timeout=1800)
    bad = 0; n = 0
    for cid, src in cases:
        if "." not in cid: continue
        e = impl.get(cid.split(".")[0], ["missing"]); f = impl.get(cid, ["missing"])
        if not e[0].startswith("ok"):
            if cid.endswith(".o0"): ck.violation("impl-failure:single:" + e[0].split(" ")[0], "single-file program of the module sweep not accepted: " + e[0][:120], dict(cases)[cid.split(".")[0]])
            continue
        n += 1
        if f[:2] != e[:2]:
            bad += 1
            ck.violation("split-behaves-differently", "a two-module program behaves differently from the single file (state leaking between modules, or an item of the wrong visibility)",
                         "modules:\n%s\nmulti : %s\nsingle: %s" % (src, f[:2], e[:2]))
    ck.log("module sweep: %d two-module runs compared, %d problems" % (n, bad))
    return n, bad


def run(tier):
    ck = C.Check("C12", tier)
    proof_ok = ck.prove()
    if not ck.builds():
        ck.violation("tie-broken:build", "model or harness does not build", "see log")
        return ck.finish()
    rng = random.Random(ck.seed)
    # (a) expansion: real expander vs extracted model, and determinism
    nsets = 600 if tier == "quick" else 20000
    sets = [("e%d" % i, random_module_set(rng)) for i in range(nsets)]
    impl = C.run_harness("expand", sets, ck.work + "/expand")
    items = [("expand", cid, impl[cid][0]) for cid, _ in sets if cid in impl and impl[cid][0].startswith("(")]
    model = C.run_model(items, ck.work + "/expand")
    mism = 0; nontrivial = set()
    for cid, src in sets:
        f = impl.get(cid, ["missing"])
        if not f[0].startswith("("):
            ck.violation("impl-failure:" + f[0].split(" ")[0], "expander failed: " + f[0], src); continue
        if f[1] != f[0]: nontrivial.add(f[1])
        if len(f) > 2 and f[2] != "distinct=1":
            mism += 1
            ck.violation("nondeterministic-expansion", "the same module set expands differently from run to run (%s in 6 runs)" % f[2], src)
        m = model.get(cid, "MODEL-MISSING")
        if m != f[1]:
            mism += 1
            ck.violation("tie-broken:expand-correspondence" if "M " in m else "tie-broken:model-error",
                         "expander result differs from Model/Expand.v expand_sorted", "modules:\n%s\nreal : %s\nmodel: %s" % (src, f[1], m))
    ck.log("expand: %d module sets, %d with imports spliced, %d mismatches" % (len(sets), len(nontrivial), mism))
    # (b) composition: program split over modules, all file orders, vs single file
    nprog = 40 if tier == "quick" else 3000
    cases = []
    expected = {}
    privacy = []
    for i in range(nprog):
        g = GP.Gen(random.Random(rng.getrandbits(64)), level=3, with_structs=False, max_funcs=4)
        p = g.program()
        names = [f[0] for f in p["funcs"]]
        single = GP.source(p, random.Random(i), plain=True)
        cases.append(("s%d" % i, single))
        nm = rng.randint(2, min(4, max(2, len(names))))
        assign = {n: rng.randrange(nm) for n in names}
        # every module index must exist
        used = sorted(set(assign.values()))
        remap = {m: k for k, m in enumerate(used)}
        assign = {n: remap[m] for n, m in assign.items()}
        nm = len(used)
        orders = list(itertools.permutations(range(nm)))
        rng.shuffle(orders)
        for k, order in enumerate(orders[:(6 if tier == "quick" else 24)]):
            text, needs_pub = GP.source_modules(p, assign, random.Random(i), order=list(order))
            cases.append(("s%d.o%d" % (i, k), text))
        if needs_pub:
            victim = sorted(needs_pub)[0]
            text, _ = GP.source_modules(p, assign, random.Random(i), break_privacy=victim)
            privacy.append(("s%d.priv" % i, text))
    cases += leak_sweep()
    impl2 = C.run_harness("exec-tools", cases + privacy, ck.work + "/compose", timeout=1800)
    compared = 0; outs = set()
    for cid, src in cases:
        f = impl2.get(cid, ["missing"])
        base = cid.split(".")[0]
        if "." not in cid:
            expected[base] = f
            if not f[0].startswith("ok"):
                ck.violation("impl-failure:single:" + f[0].split(" ")[0], "single-file program not accepted: " + f[0], src)
            continue
        e = expected.get(base)
        if e is None or not e[0].startswith("ok"): continue
        if not f[0].startswith("ok"):
            if f[0].startswith("err"):
                ck.violation("split-rejected", "the program split over modules is rejected (%s) although the single file is accepted" % f[0], src)
            else:
                ck.violation("impl-failure:" + f[0].split(" ")[0].split(":")[0], "compiler failed on a multi-module set: " + f[0], src)
            continue
        if len(f) >= 3 and f[2] != "tools=ok":
            ck.violation("invalid-ir:" + f[2].split(":")[0], "LLVM tools reject IR of a multi-module set: " + f[2], src)
        compared += 1; outs.add(f[1])
        if f[1].split(" stderr=")[0] != e[1].split(" stderr=")[0]:
            ck.violation("split-behaves-differently", "multi-module program behaves differently from the single file",
                         "modules:\n%s\nmulti : %s\nsingle: %s" % (src, f[1], e[1]))
    # hygiene of exported items: a public constant / function signature that mentions a PRIVATE name of its module
    # keeps meaning that name (the single-file program has the two private names apart), whatever private item
    # of the same name the importer has (D63)
    hyg = []
    for hi, (lib, main_, want) in enumerate([
        ("const BASE: i32 = 5;\npub const LIMIT: i32 = BASE + 1;\npub fn lib_limit() -> i32\n{\n\treturn: LIMIT\n}\n",
         "const BASE: i32 = 100;\nfn main() -> i32\n{\n\tvar a = lib_limit();\n\tprint!(LIMIT, \" \", a, \" \", BASE, \"\\n\");\n\treturn: 0\n}\n", "6 6 100"),
        ("const N: usize = 3;\npub fn len_p(x: &[N]i32) -> usize\n{\n\treturn: |x|\n}\n",
         "const N: usize = 5;\nfn main() -> i32\n{\n\tvar a: [3]i32 = [1, 2, 3];\n\tprint!(len_p(&a), \" \", N, \"\\n\");\n\treturn: 0\n}\n", "3 5"),
        # the same capture the other way round (D76): the PARAMETER NAME of an imported function clashes with a constant
        # of the importer (E424), and a public constant that uses a private one cannot be imported at all (E402)
        ("pub fn foo(n: i32) -> i32\n{\n\treturn: n + 1\n}\n",
         "const n: i32 = 1;\nfn main() -> i32\n{\n\tprint!(foo(n), \"\\n\");\n\treturn: 0\n}\n", "2"),
        ("const B: i32 = 2;\npub const A: i32 = B + 1;\n",
         "fn main() -> i32\n{\n\tprint!(A, \"\\n\");\n\treturn: 0\n}\n", "3")]):
        for order in (0, 1):
            mods = [("lib.pn", lib), ("main.pn", 'import "lib.pn";\n' + main_)]
            if order: mods.reverse()
            hyg.append(("hy%d.%d" % (hi, order), "".join("//// module %s\n%s" % m for m in mods), want))
    # the interface as a whole: exported types used in the RETURN type and the parameters of exported functions (by
    # value for words, through pointers for structures), and an imported function next to a constant of the
    # importer that has its name - each behaves as the single file does, in every file order
    iface = [
        ([("color.pn", "pub word32 Color\n{\n\tr: u8,\n\tg: u8,\n\tb: u8,\n\ta: u8,\n}\npub fn make_color(r: u8) -> Color\n{\n\treturn: Color { r: r, g: 2, b: 3, a: 4 }\n}\npub fn brightness(c: Color) -> i32\n{\n\treturn: (c.r as i32) + (c.g as i32)\n}\n"),
          ("main.pn", "import \"color.pn\";\nfn main() -> i32\n{\n\tvar c = make_color(40);\n\tprint!(brightness(c), \"\\n\");\n\treturn: 0\n}\n")], "42"),
        ([("geometry.pn", "pub fn scale(x: i32) -> i32\n{\n\treturn: x * 2\n}\n"),
          ("main.pn", "import \"geometry.pn\";\nconst scale: i32 = 10;\nfn main() -> i32\n{\n\tprint!(scale(scale) + 1, \"\\n\");\n\treturn: 0\n}\n")], "21"),
        ([("settings.pn", "pub const scale: i32 = 10;\n"), ("geometry.pn", "pub fn scale(x: i32) -> i32\n{\n\treturn: x * 2\n}\n"),
          ("main.pn", "import \"geometry.pn\";\nimport \"settings.pn\";\nfn main() -> i32\n{\n\tprint!(scale(scale) + 1, \"\\n\");\n\treturn: 0\n}\n")], "21"),
        ([("shape.pn", "pub struct P\n{\n\tx: i32,\n\ty: i32,\n}\npub fn sum(p: P) -> i32\n{\n\treturn: p.x + p.y\n}\npub fn grow(p: &P)\n{\n\tp.x = p.x + 1;\n}\npub word16 W\n{\n\tlo: u8,\n\thi: u8,\n}\npub fn swap(w: W) -> W\n{\n\treturn: W { lo: w.hi, hi: w.lo }\n}\n"),
          ("main.pn", "import \"shape.pn\";\nfn main() -> i32\n{\n\tvar p = P { x: 1, y: 2 };\n\tgrow(&p);\n\tvar w = swap(W { lo: 7, hi: 9 });\n\tprint!(sum(p), \" \", w.lo, \" \", w.hi, \"\\n\");\n\treturn: 0\n}\n")], "4 9 7"),
        ([("len.pn", "pub const N: usize = 3;\npub fn total(a: []i32) -> i32\n{\n\treturn: a[0] + a[1] + a[2]\n}\npub fn fill(a: &[N]i32)\n{\n\ta[0] = 5;\n}\n"),
          ("main.pn", "import \"len.pn\";\nfn main() -> i32\n{\n\tvar a: [N]i32 = [1, 2, 3];\n\tfill(&a);\n\tprint!(total(a), \" \", |a|, \"\\n\");\n\treturn: 0\n}\n")], "10 3")]
    iface.append(([("shapes.pn", "pub struct Shape\n{\n\tkind: u8,\n\tarea: i64,\n\tsides: i32,\n}\n"), ("limits.pn", "import \"shapes.pn\";\npub const SHAPE_BYTES: usize = |:Shape|;\npub const TWO: usize = |:[2]Shape|;\n"),
                   ("main.pn", "import \"shapes.pn\";\nimport \"limits.pn\";\nfn main() -> i32\n{\n\tvar buffer: [SHAPE_BYTES]u8;\n\tprint!(|buffer| + SHAPE_BYTES, \" \", TWO, \"\\n\");\n\treturn: 0\n}\n")], "48 48"))
    import itertools as _it
    for ii, (mods, want) in enumerate(iface):
        for oi, order in enumerate(_it.permutations(mods)):
            hyg.append(("if%d.%d" % (ii, oi), "".join("//// module %s\n%s" % m for m in order), "iface:" + want))
        hyg.append(("if%d.s" % ii, "".join(re.sub(r'import "[^"]*";\n', "", m[1]) for m in mods), "iface:" + want))       # the single file
    himpl = C.run_harness("exec", [(h[0], h[1]) for h in hyg], ck.work + "/hygiene", timeout=600)
    for cid, src, want in hyg:
        f = himpl.get(cid, ["missing"])
        got = C.unesc(f[1].split(" out=", 1)[1].split(" stderr=")[0]).decode(errors="replace").strip() if f[0].startswith("ok") and " out=" in f[1] else f[0]
        if want.startswith("iface:"):
            if got != want[6:]:
                ck.violation("interface-behaves-differently" if f[0].startswith("ok") else ("interface-rejected:" + (f[0] if f[0].startswith("err codes=") else C.failure_key(f[0]))),
                             "a program whose exported functions return / take exported types, or whose importer has a constant named like an imported function, gives `%s` (expected `%s`)" % (got[:200], want[6:]), src)
            continue
        if got != want:
            ck.violation("private-name-captured-by-exported-item", "an exported constant / signature that uses a private name of its module is re-read in the importer's scope: the program prints `%s`, the single-file meaning is `%s`" % (got, want), src)
    # the libraries built into the tool (`core:`, `vendor:`): a module that imports one of their files compiles when that
    # file - or its directory - is named on the command line, in any order (main.rs gathers them under their scheme)
    from . import c18
    if c18.build_penne(ck):
        import os, shutil, subprocess
        d = os.path.join(ck.work, "builtin-libs"); shutil.rmtree(d, ignore_errors=True); os.makedirs(d)
        open(os.path.join(d, "main.pn"), "w").write('import "core:text/char.pn";\nfn main() -> i32\n{\n\treturn: 0\n}\n')
        open(os.path.join(d, "libc.pn"), "w").write('import "vendor:libc/stdlib.pn";\nfn main() -> i32\n{\n\treturn: 0\n}\n')
        for argv in (["main.pn", "core:text/char.pn"], ["core:text/char.pn", "main.pn"], ["main.pn", "core:text"], ["libc.pn", "vendor:libc/stdlib.pn"], ["vendor:libc", "libc.pn"]):
            p = subprocess.run([c18.PENNE, "emit", "--color=never"] + argv, cwd=d, capture_output=True, timeout=120)
            if p.returncode != 0:
                ck.violation("builtin-library-import-unresolved", "penne emit %s fails (exit %d) although the imported library file is named on the command line" % (" ".join(argv), p.returncode),
                             "cwd %s\npenne emit %s\n%s" % (d, " ".join(argv), (p.stdout + p.stderr).decode(errors="replace")[-1500:]))
    rejected_priv = 0
    for cid, src in privacy:
        f = impl2.get(cid, ["missing"])
        if f[0].startswith("ok"):
            ck.violation("private-visible", "a private function is callable from another module", src)
        elif f[0].startswith("err"): rejected_priv += 1
        else: ck.violation("impl-failure:" + f[0].split(" ")[0].split(":")[0], "compiler failed: " + f[0], src)
    ck.log("composition: %d multi-module runs compared, %d privacy breaches rejected" % (compared, rejected_priv))
    if not proof_ok:
        ck.violation("tie-broken:proof", "Props/C12.v no longer checks", getattr(ck, "proof_output", "")[-2000:])
    ck.coverage.update(
        evaluations=len(sets) + len(cases) + len(privacy), distinct_nontrivial=len(nontrivial) + len(outs),
        rule="expand stream: random sets of 1-4 modules (imports incl. cycles, self-imports, duplicates, unresolved; pub/private/extern constants, functions, heads, structures) through the real lexer+parser+expander vs Model/Expand.v, each expanded 6 times for determinism; composition stream: generated programs split over 2-4 modules in up to %s file orders vs the single file (lli output), plus one variant per program with a needed `pub` removed (must be rejected), plus a sweep of two-module programs (0-5 private constants in one module x 0-3 parameters x 1-3 local variables in the other, both file orders) for state leaking between modules; distinct = distinct expansions with spliced imports + distinct outputs" % ("6" if tier == "quick" else "24"),
        expand_sets=len(sets), expand_mismatches=mism, composition_runs=compared, privacy_variants_rejected=rejected_priv,
        samples=[dict(modules=sets[1][1], real=impl.get(sets[1][0], ["?"])[1:2]), dict(modules=cases[1][1] if len(cases) > 1 else "")])
    ck.assumptions += ["import path resolution is modelled for relative paths without . and .. components",
                       "behavioural composition is established by execution (lli), not by proof"]
    return ck.finish()
