"""C06 — loop and if-branches only appear where the language allows them."""
import random, collections
from .. import common as C
from .. import gen_bodies as G

LEAVES = [('assign',), ('goto', 'return'), ('loop',)]


def relabel(body, counter):
    out = []
    for st in body:
        if st[0] == 'label':
            counter[0] += 1; out.append(('label', 'l%d' % counter[0]))
        elif st[0] == 'block': out.append(('block', relabel(st[1], counter)))
        elif st[0] == 'ifs':
            t = relabel([st[1]], counter)[0]
            e = relabel([st[2]], counter)[0] if st[2] is not None else None
            out.append(('ifs', t, e))
        else: out.append(st)
    return out


def cases(tier, seed):
    rng = random.Random(seed)
    out = []
    maxn = 5 if tier == "quick" else 6
    for n in range(0, maxn + 1):
        for b in G.enum_syntax(n, 4, LEAVES):
            out.append(("x", b))
    nex = len(out)
    leaves = LEAVES + [('label', '?'), ('assign',)]
    for i in range(4000 if tier == "quick" else 80000):
        body = [G.random_syntax_stmt(rng, 4, leaves) for _ in range(rng.randint(1, 6))]
        out.append(("r", relabel(body, [0])))
    # statements that a LATER stage rejects (assignment to a parameter: E530; a call with a wrong number of
    # arguments: E511) in every position: the placement rules are judged first.  An undefined FUNCTION or a
    # duplicate label is an earlier stage that replaces the whole statement and hides it; an undefined ASSIGNEE
    # (E402) does not: the assignment stays an assignment and is judged where it stands
    leaves_o = leaves + [('raw', 'p = 3;'), ('raw', 'helper(r, r);'), ('raw', 'r = helper(r);'), ('raw', 'nowhere = 3;')]
    for i in range(1500 if tier == "quick" else 30000):
        body = [G.random_syntax_stmt(rng, 3, leaves_o) for _ in range(rng.randint(1, 5))]
        out.append(("o", relabel(body, [0])))
    return out, nex, maxn


def parse_kv(m):
    return dict(p.split("=") for p in m.split(" ")) if m.startswith("model=") else {}


def run(tier):
    ck = C.Check("C06", tier)
    proof_ok = ck.prove()
    if not ck.builds():
        ck.violation("tie-broken:build", "model or harness does not build", "see log")
        return ck.finish()
    bodies, nex, maxn = cases(tier, ck.seed)
    ck.log("cases: %d (exhaustive part %d, <=%d nodes)" % (len(bodies), nex, maxn))
    def prog(k, b):
        if k != "o": return G.program(b)
        return "fn helper(a: i32) -> i32\n{\n\treturn: a\n}\n" + G.program(b).replace("fn main() -> i32", "fn main(p: i32) -> i32")
    srcs = [("%s%d" % (k, i), prog(k, b)) for i, (k, b) in enumerate(bodies)]
    # ... and as the body of a `pub extern fn` (flags do not change what is allowed where, nor the lints)
    srcs += [("%s%dX" % (k, i), prog(k, b).replace("fn main() -> i32", "pub extern fn entry() -> i32")) for i, (k, b) in enumerate(bodies) if k != "o" and i % 4 == 0]
    # ... and next to a constant or a structure that fails (the two halves of a module are resolved apart and merged):
    # only the placement codes are compared ("o" ids)
    FAULTY = ["const LIMIT: i32 = true;\n", "struct Bad\n{\n\tm: Nowhere,\n}\n", "const A: i32 = B;\nconst B: i32 = A;\n"]
    srcs += [("o%dF" % i, FAULTY[i % 3] + prog(k, b)) for i, (k, b) in enumerate(bodies) if k != "o" and i % 7 == 0]
    impl = C.run_harness("front", srcs, ck.work)
    items = [("syntax", cid, impl[cid][1]) for cid, _ in srcs if cid in impl and len(impl[cid]) >= 2 and impl[cid][1].startswith("(")]
    model = C.run_model(items, ck.work)
    dist = collections.Counter(); distinct = set(); mism = 0
    for cid, src in srcs:
        f = impl.get(cid, ["missing"])
        verdict = f[0]
        mm = parse_kv(model.get(cid, ""))
        if verdict.startswith("ok lints="):
            real, lints = "[]", verdict[len("ok lints="):]
        elif verdict.startswith("err codes="):
            real, lints = verdict[len("err codes="):], None
        else:
            ck.violation("impl-failure:" + verdict.split(" ")[0], "implementation did not produce a verdict: " + verdict, src); continue
        if cid.startswith("o"):
            # only the placement codes are compared here (the other stages add their own)
            real = "[" + ",".join(x for x in real.strip("[]").split(",") if x in ("800", "801", "840")) + "]"
            if verdict.startswith("err") : lints = None
        dist[real + ("" if lints in (None, "[]") else " lint" + lints)] += 1
        if not mm:
            ck.violation("tie-broken:model-error", "model failed: " + model.get(cid, "missing"), src); continue
        if real != "[]" or lints not in (None, "[]"): distinct.add(f[1])
        replay = "source:\n%s\nparsed shape: %s\nreal: %s\nmodel: %s" % (src, f[1], verdict, model.get(cid))
        if mm["spec"] != real:
            mism += 1
            ck.violation("wrong-codes", "implementation reports %s, the structural specification requires %s" % (real, mm["spec"]), replay)
        elif lints is not None and mm["lintspec"] != lints:
            mism += 1
            ck.violation("wrong-lints", "accepted program raises lints %s, specification requires %s" % (lints, mm["lintspec"]), replay)
        elif (mm["model"] != real or (lints is not None and mm["lint"] != lints)) and not cid.startswith("o"):
            mism += 1
            ck.violation("tie-broken:correspondence", "model and implementation differ although the specification is met", replay)
    # "allowed" means allowed all the way: a body the analysis accepts is compiled (every loop at the end of a block,
    # every naked or braced branch lowered) and the IR is valid - the generator relies on exactly the placement
    # rules (its `Statement::Loop => unreachable!()`, the end block of an else branch)
    acc = [(cid, src) for cid, src in srcs if impl.get(cid, ["?"])[0].startswith("ok lints=")]
    r2 = random.Random(ck.seed + 66)
    nacc = 500 if tier == "quick" else 30000
    # the exhaustive small ones first (every shape of <= maxn nodes), then a sample of the rest
    small = [x for x in acc if x[0].startswith("e")]
    rest = [x for x in acc if not x[0].startswith("e")]
    r2.shuffle(rest)
    chosen = (small + rest)[:nacc] if len(small) <= nacc * 2 // 3 else small[:: max(1, len(small) * 3 // (nacc * 2))][: nacc * 2 // 3] + rest[: nacc // 3]
    gen = C.run_harness("ir", chosen, ck.work + "/gen", timeout=3000)
    ngen = 0; gbad = 0
    for cid, src in chosen:
        g = gen.get(cid, ["missing"])
        if g[0].startswith("ok"):
            ngen += 1
            continue
        gbad += 1; mism += 1
        ck.violation("accepted-not-compiled:" + C.failure_key(g[0]), "a body the placement rules accept is not compiled to valid IR: " + g[0][:200], "source:\n%s\nanalysis: %s\ngeneration: %s" % (src, impl.get(cid, ["?"])[0], g[0][:600]))
    ck.log("accepted bodies compiled: %d of %d (of %d accepted), %d failures" % (ngen, len(chosen), len(acc), gbad))
    if not proof_ok:
        ck.violation("tie-broken:proof", "Props/C06.v no longer checks", getattr(ck, "proof_output", "")[-2000:])
    ck.coverage.update(
        evaluations=len(srcs), distinct_nontrivial=len(distinct),
        rule="all statement trees with <=%d nodes over {assignment, goto, loop, block, if/else with arbitrary (naked or braced) branches}, depth<=4 (exhaustive: %d) plus %d random bodies incl. labels; non-trivial = rejected or linted, distinct by parsed shape" % (maxn, nex, len(srcs) - nex),
        exhaustive_part=nex, verdict_distribution=dict(dist.most_common(14)), mismatches=mism,
        samples=[dict(source=srcs[i][1], impl=impl.get(srcs[i][0], ["?"])[0], model=model.get(srcs[i][0])) for i in (nex // 3, nex + 1, len(srcs) - 1)])
    ck.assumptions += ["the statement shape fed to the model is the real parser's output (dangling else is resolved by the parser, not by the generator)",
                       "lints are only observable on accepted programs; the lint model is compared there"]
    return ck.finish()
