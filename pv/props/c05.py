"""C05 — no variable is used out of scope, shadowed, or with its declaration skipped."""
import random, collections, re
from .. import common as C
from .. import gen_bodies as G
from .. import sexp

LEAVES = [('label', 'a'), ('label', 'b'), ('goto', 'a'), ('goto', 'b'), ('cgoto', 'a'), ('cgoto', 'b'),
          ('decl', 'x'), ('decl', 'y'), ('use', 'x'), ('use', 'y')]


def oracle(vshape):
    """Independent index-based definition on the event sequence of the parsed,
    label-resolved program: returns the sorted list of expected codes."""
    prog = sexp.parse(vshape)
    consts = prog[0][1:]
    codes = []
    for fn in prog[1:]:
        ev = []  # (kind, payload, path, silent)
        for c in consts: ev.append(('decl', c, (), False, 'const'))
        for p in fn[1]: ev.append(('decl', p, (0,), False, 'param'))
        counter = [1]
        def walk(st, path):
            k = st[0]
            if k == 'D':
                # duplicate declarations drop the diagnostics of their own initialiser
                ev.append(('declstart', None, path, False, None))
                for u in st[2]: ev.append(('use', u, path, False, None))
                ev.append(('decl', st[1], path, False, 'var'))
            elif k == 'A':
                for u in st[1]: ev.append(('use', u, path, False, None))
            elif k == 'R':
                for u in st[1]: ev.append(('use', u, path, False, None))
            elif k == 'G': ev.append(('goto', st[1], path, False, None))
            elif k == 'L': ev.append(('label', st[1], path, False, None))
            elif k == 'I':
                for u in st[1]: ev.append(('use', u, path, False, None))
                walk(st[2], path)
                if len(st) > 3: walk(st[3], path)
            elif k == 'B':
                counter[0] += 1
                p2 = path + (counter[0],)
                for s in st[1:]: walk(s, p2)
        for st in fn[2:]: walk(st, (0, 1))
        def visible(dp, up): return up[:len(dp)] == dp
        def cands(i, x, p):
            return [d for d in range(i) if ev[d][0] == 'decl' and ev[d][1] == x and visible(ev[d][2], p)]
        def resolve(i):
            k, x, p = ev[i][0], ev[i][1], ev[i][2]
            c = cands(i, x, p)
            return sorted(c, key=lambda d: (len(ev[d][2]), d))[0] if c else None
        fcodes = []
        pending = []
        for u, e in enumerate(ev):
            k, x, p = e[0], e[1], e[2]
            if k == 'declstart': pending = []
            if k == 'decl':
                if e[4] == 'const': continue
                dup = bool(cands(u, x, p))
                if e[4] == 'param':
                    if dup: fcodes.append(424)
                else:
                    if dup: fcodes.append(422)
                    else: fcodes += pending
                    pending = None
            if k == 'use':
                d = resolve(u)
                out = []
                if d is None: out.append(402)
                else:
                    prunes = [l for l in range(d + 1, u) if ev[l][0] == 'label' and ev[l][2] == ev[d][2]
                              and any(ev[g][0] == 'goto' and ev[g][1] == ev[l][1] for g in range(d))]
                    if prunes:
                        last = max(prunes)
                        if not any(ev[i][0] == 'use' and resolve(i) == d for i in range(last + 1, u)):
                            out.append(482)
                if pending is not None and isinstance(pending, list) and ev_in_decl(ev, u): pending += out
                else: fcodes += out
        codes += fcodes
    return sorted(codes)


def ev_in_decl(ev, u):
    # a use belongs to a declaration's initialiser iff a 'declstart' precedes it with no 'decl' var in between
    i = u
    while i >= 0:
        if ev[i][0] == 'declstart': return True
        if ev[i][0] in ('decl', 'goto', 'label') : return False
        i -= 1
    return False


def flat(body):
    for st in body:
        yield st
        if st[0] == 'block': yield from flat(st[1])
        elif st[0] in ('if',):
            yield from flat(st[1])
            if st[2] is not None: yield from flat(st[2])
        elif st[0] == 'ifs':
            yield st[1]
            if st[2] is not None: yield st[2]


def cases(tier, seed):
    rng = random.Random(seed)
    out = []
    maxn = 3 if tier == "quick" else 4
    for n in range(0, maxn + 1):
        for b in G.enum_bodies(n, 3, LEAVES, with_else=(n <= 3)):
            out.append(("x", b))
    nex = len(out)
    leaves = LEAVES + [('set', 'x'), ('set', 'y'), ('set', 'z'), ('use', 'x'), ('use', 'y'), ('decl', 'x'), ('declu', 'y', 'x'), ('declu', 'x', 'y'), ('declu', 'x', 'x'), ('declu', 'y', 'y'), ('use', 'z'), ('goto', 'return')]
    leaves_arr = leaves + [('declarr', 'e', ()), ('declarr', 'f', ('x',)), ('declarr', 'e', ('x', 'y')), ('declarr', 'g', ())]
    for i in range(6000 if tier == "quick" else 150000):
        out.append(("r", G.random_body(rng, 3, rng.randint(1, 30 if i % 5 == 0 else 9), leaves if i % 3 else leaves_arr, 0.12, 0.08)))
    for i in range(6000 if tier == "quick" else 150000):
        out.append(("s", G.smart_body(rng, 3, rng.randint(2, 14), ['r', 'p'], ['a', 'b', 'c', 'return'])))
    # brace-less branches (rejected by the syntax analysis, E840, unless the branch is a goto) and jumps
    # into blocks (rejected by the label scoper, E400): the skip rule relies on both rejections
    for i in range(1500 if tier == "quick" else 40000):
        body = G.random_body(rng, 2, rng.randint(1, 6), leaves, 0.15, 0.1)
        k = rng.randrange(len(body) + 1)
        extra = rng.choice([('ifs', ('decl', 'x'), None), ('ifs', ('use', 'x'), ('decl', 'y')), ('ifs', ('goto', 'a'), ('decl', 'x')),
                            ('block', [('decl', 'y'), ('block', [('label', 'a'), ('use', 'y')])]), ('block', [('label', 'b'), ('use', 'x')])])
        out.append(("n", body[:k] + [extra] + body[k:]))
    return out, nex, maxn


# the places a variable can be used in: the verdict depends on the name only, never on the expression around it
# (an index inside a length `|a[x]|` that the typer folds away must still be looked at)
USEFORMS = [("len", "|qa[%s as usize]| as i32"), ("idx", "qb[%s as usize]"), ("call", "helper(%s)"), ("neg", "-%s"), ("paren", "((%s))"), ("bin", "1 + %s * 2"),
            ("cast", "(%s as i64) as i32"), ("lenidx2", "|qa[|qa[%s as usize]|]| as i32"), ("arrlit", "|[%s, 1, 2]| as i32"), ("nested", "helper(qb[helper(%s) as usize])")]
# (a module constant used as an array length - in a local's type, in a nested block, in a parameter, in a member - is
# looked up among the module's constants, whatever scopes are open)
FORM_PRELUDE = "const LEN: usize = 3;\nstruct Rec\n{\n\tm: [LEN]i32,\n}\nfn helper(a: i32) -> i32\n{\n\treturn: a\n}\nfn helper2(a: &[LEN]i32, b: [][LEN]i32)\n{\n\tvar inner: [LEN][LEN]u8;\n}\n"
FORM_LOCALS = "\tvar qa: [6][4]i32;\n\tvar qb: [4]i32 = [1, 2, 3, 4];\n\tvar nl: [LEN]i32 = [1, 2, 3];\n\t{\n\t\tvar nl2: [LEN]i32;\n\t\t{\n\t\t\tvar nl3: [2][LEN]i32;\n\t\t}\n\t}\n"


def program_form(body, form):
    G.USEFORM[0] = form
    try:
        return FORM_PRELUDE + "fn main(p: i32) -> i32\n{\n\tvar r: i32 = 0;\n" + FORM_LOCALS + G.render(body) + "\treturn: r\n}\n"
    finally:
        G.USEFORM[0] = None


def program(body, template=0):
    """module shapes around the body: 0 parameter + leading variable; 1 nothing declared before the
    body (no parameter, no leading variable, `use x` is `x = x;`); 2 module constants named like the
    body's variables, a parameter named like a constant; 3 signatures without body (before and after)
    whose parameters are named like the body's variables and constants"""
    if template == 1:
        return "fn main()\n{\n" + G.render(body, cond="true == true", sink=None) + "}\n"
    if template == 2:
        return "const y: i32 = 7;\nconst k: i32 = 8;\nfn main(k: i32) -> i32\n{\n\tvar r: i32 = 0;\n" + G.render(body) + "\treturn: r\n}\nconst z: i32 = 9;\n"
    if template == 3:
        return "fn head(x: i32, y: i32) -> i32;\nfn main(p: i32) -> i32\n{\n\tvar r: i32 = 0;\n" + G.render(body) + "\treturn: r\n}\nextern fn tail(r: i32, r: i32);\n"
    return "fn main(p: i32) -> i32\n{\n\tvar r: i32 = 0;\n" + G.render(body) + "\treturn: r\n}\n"


def run(tier):
    ck = C.Check("C05", tier)
    proof_ok = ck.prove()
    if not ck.builds():
        ck.violation("tie-broken:build", "model or harness does not build", "see log")
        return ck.finish()
    bodies, nex, maxn = cases(tier, ck.seed)
    ck.log("cases: %d (exhaustive part %d, <=%d statements)" % (len(bodies), nex, maxn))
    srcs = [("%s%d" % (k, i), program(b)) for i, (k, b) in enumerate(bodies)]
    # the other module shapes: exhaustive bodies in every shape, random bodies in one shape each
    for i, (k, b) in enumerate(bodies):
        if k == "x":
            for t in (1, 2, 3): srcs.append(("%s%dt%d" % (k, i, t), program(b, t)))
        elif i % 2 == 0:
            t = 1 + (i // 2) % 3
            if t == 1 and k == "s": continue
            srcs.append(("%s%dt%d" % (k, i, t), program(b, t)))
    # the same bodies with every use of a variable inside another expression form
    nf = 0
    for i, (k, b) in enumerate(bodies):
        if k in ("r", "s") and any(st[0] in ("use", "declu") for st in flat(b)) and i % (4 if tier == "quick" else 2) == 0:
            name, pat = USEFORMS[(i // 4) % len(USEFORMS)]
            srcs.append(("%s%du%s" % (k, i, name), program_form(b, pat))); nf += 1
    ck.log("use forms: %d programs" % nf)
    impl = C.run_harness("front", srcs, ck.work)
    items = [("vars", cid, impl[cid][2]) for cid, _ in srcs if cid in impl and len(impl[cid]) >= 3 and impl[cid][2].startswith("(")]
    # the specifications of the two earlier stages the skip rule relies on (C04 labels, C06 syntax)
    items += [("labels", cid + "L", impl[cid][1]) for cid, _ in srcs if cid in impl and len(impl[cid]) >= 3 and impl[cid][1].startswith("(")]
    items += [("syntax", cid + "S", impl[cid][1]) for cid, _ in srcs if cid in impl and len(impl[cid]) >= 3 and impl[cid][1].startswith("(")]
    model = C.run_model(items, ck.work)
    dist = collections.Counter(); distinct = set(); mism = 0
    VAR = {"402", "422", "424", "482"}
    for cid, src in srcs:
        f = impl.get(cid, ["missing"])
        verdict = f[0]
        m = model.get(cid, "")
        mm = dict(p.split("=") for p in m.split(" ")) if m.startswith("model=") else {}
        if verdict.startswith("ok"): real = []
        elif verdict.startswith("err codes="): real = [x for x in verdict[len("err codes="):].strip("[]").split(",") if x]
        else:
            ck.violation("impl-failure:" + verdict.split(" ")[0], "implementation did not produce a verdict: " + verdict, src); continue
        if verdict.startswith("ok"):
            for suffix, what in (("L", "label scoping (E400/E420)"), ("S", "the syntax analysis (E800/E801/E840)")):
                ms = model.get(cid + suffix, "")
                sp = re.search(r"spec=\[([0-9,]*)\]", ms)
                if sp and sp.group(1):
                    mism += 1
                    ck.violation("accepted-against-earlier-stage", "the program is accepted although %s requires %s" % (what, sp.group(1)), "source:\n%s\nshape: %s" % (src, f[1]))
        real_var = sorted(x for x in real if x in VAR)
        dist[",".join(real_var)] += 1
        if not mm:
            ck.violation("tie-broken:model-error", "model failed: " + m, src); continue
        if real_var: distinct.add(f[2])
        if mm.get("once") != "true":
            ck.violation("tie-broken:hypothesis", "the label scoper's output does not satisfy labels_once (hypothesis of C05_model_eq_spec)", "source:\n%s\nshape: %s" % (src, f[2]))
        spec = sorted(x for x in mm["spec"].strip("[]").split(",") if x)
        mod = sorted(x for x in mm["model"].strip("[]").split(",") if x)
        orc = [str(x) for x in oracle(f[2])]
        replay = "source:\n%s\nlabel-resolved shape: %s\nreal: %s\nmodel: %s\nindex oracle: %s" % (src, f[2], verdict, m, orc)
        if cid.startswith("n"):
            # a branch rejected by a later stage (E840) is replaced as a whole and loses the codes inside it:
            # only acceptance (above) and the absence of invented codes are checked for these inputs
            if not set(real_var) <= set(orc) or (verdict.startswith("ok") and orc):
                mism += 1
                ck.violation("wrong-verdict", "implementation reports %s, the index-based definition allows at most %s" % (real_var, orc), replay)
            continue
        if set(orc) != set(real_var):
            mism += 1
            ck.violation("wrong-verdict", "implementation reports %s but the index-based definition (visible binding / skipped declaration) requires %s" % (real_var, orc), replay)
        elif orc != real_var or spec != real_var:
            mism += 1
            ck.violation("wrong-multiplicity", "same kinds but different multiplicities: real %s, oracle %s, spec %s" % (real_var, orc, spec), replay)
        elif mod != real_var:
            mism += 1
            ck.violation("tie-broken:correspondence", "model %s differs from implementation %s" % (mod, real_var), replay)
    # visibility across modules: what a module imports is in scope there and NOT in the modules that import it in turn
    # (a imports b imports c), whatever the order in which the files are given
    import itertools
    mods = {"c.pn": "pub const LIMIT: i32 = 7;\nconst HIDDEN: i32 = 8;\nconst HIDDEN_LEN: usize = 3;\nconst HIDDEN_FLAG: bool = true;\nconst HIDDEN_ROW: [2]u8 = [1, 2];\n",
            "b.pn": "import \"c.pn\";\npub fn clamp(x: i32) -> i32\n{\n\tvar r: i32 = x;\n\tif r > LIMIT\n\t{\n\t\tr = LIMIT;\n\t}\n\treturn: r\n}\nconst INNER: i32 = 3;\n"}
    amods = [("uses-transitive", "import \"b.pn\";\nfn main() -> i32\n{\n\tvar r: i32 = clamp(LIMIT);\n\treturn: r\n}\n", ["402"]),
             ("declares-transitive", "import \"b.pn\";\nfn main() -> i32\n{\n\tvar LIMIT: i32 = 9;\n\treturn: clamp(LIMIT)\n}\n", []),
             ("uses-private", "import \"b.pn\";\nfn main() -> i32\n{\n\treturn: clamp(INNER)\n}\n", ["402"]),
             ("declares-private", "import \"b.pn\";\nfn main() -> i32\n{\n\tvar INNER: i32 = 1;\n\tvar HIDDEN: i32 = 2;\n\treturn: clamp(INNER + HIDDEN)\n}\n", []),
             ("uses-private-of-direct-import", "import \"c.pn\";\nfn main() -> usize\n{\n\treturn: HIDDEN_LEN + 1\n}\n", ["402"]),
             ("uses-private-length-of-direct-import", "import \"c.pn\";\nfn main() -> i32\n{\n\tvar a: [HIDDEN_LEN]i32;\n\treturn: 0\n}\n", ["402"]),
             ("uses-private-others-of-direct-import", "import \"c.pn\";\nfn main() -> i32\n{\n\tvar f: bool = HIDDEN_FLAG;\n\tvar r: u8 = HIDDEN_ROW[0];\n\treturn: HIDDEN\n}\n", ["402", "402", "402"]),
             ("declares-private-of-direct-import", "import \"c.pn\";\nfn take(HIDDEN_LEN: i32) -> i32\n{\n\tvar HIDDEN_FLAG: i32 = 2;\n\tvar HIDDEN_ROW: i32 = 3;\n\treturn: HIDDEN_LEN + HIDDEN_FLAG + HIDDEN_ROW\n}\nfn main() -> i32\n{\n\treturn: take(LIMIT)\n}\n", []),
             ("uses-direct", "import \"b.pn\";\nimport \"c.pn\";\nfn main() -> i32\n{\n\treturn: clamp(LIMIT)\n}\n", []),
             ("redeclares-direct", "import \"b.pn\";\nimport \"c.pn\";\nfn main() -> i32\n{\n\tvar LIMIT: i32 = 9;\n\treturn: clamp(LIMIT)\n}\n", ["422"])]
    msrcs = []
    for ai, (what, atext, want) in enumerate(amods):
        for oi, order in enumerate(itertools.permutations(["a.pn", "b.pn", "c.pn"])):
            texts = dict(mods); texts["a.pn"] = atext
            msrcs.append(("m%d.%d" % (ai, oi), "".join("//// module %s\n%s" % (n, texts[n]) for n in order), what, want))
    mimpl = C.run_harness("ir", [(c[0], c[1]) for c in msrcs], ck.work + "/modules", timeout=1200)
    mbad = 0
    for cid, src, what, want in msrcs:
        f = mimpl.get(cid, ["missing"])
        if f[0].startswith("ok"): got = []
        elif f[0].startswith("err codes="): got = sorted(x for x in f[0][len("err codes="):].split(" ")[0].strip("[]").split(",") if x in VAR)
        else:
            ck.violation(C.failure_key(f[0]), "compiler failed on a three-module program: " + f[0][:200], src); continue
        if got != want:
            mbad += 1; mism += 1
            ck.violation("wrong-visibility-across-modules:" + what, "three modules (a imports b imports c), %s: the variable-scoping codes are %s, expected %s" % (what, got, want), src)
    ck.log("visibility across modules: %d module sets, %d problems" % (len(msrcs), mbad))
    if not proof_ok:
        ck.violation("tie-broken:proof", "Props/C05.v no longer checks", getattr(ck, "proof_output", "")[-2000:])
    ck.coverage.update(
        evaluations=len(srcs), distinct_nontrivial=len(distinct),
        rule="all bodies with <=%d statements over {label a/b, goto a/b, if-goto a/b, var x/y, use x/y, block, if/else}, depth<=3 (exhaustive: %d, each in 4 module shapes: parameter + leading variable / nothing declared before the body / module constants named like the variables / signatures without body with clashing parameter names) plus %d random bodies up to 30 statements (initialisers using other variables, undefined names, goto return); non-trivial = rejected with a variable-scoping code, distinct by parsed shape" % (maxn, nex, len(srcs) - nex),
        exhaustive_part=nex, verdict_distribution=dict(dist.most_common(14)), mismatches=mism,
        samples=[dict(source=srcs[i][1], impl=impl.get(srcs[i][0], ["?"])[0], model=model.get(srcs[i][0])) for i in (nex // 3, nex + 1, len(srcs) - 1)])
    ck.assumptions += ["reachability is the over-approximation in which every statement may complete normally (the reading of docs/errors.md: 'may be skipped')",
                       "labels are resolved by the real label scoper; the model and the oracle consume its output"]
    return ck.finish()
