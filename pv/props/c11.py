"""C11 — top-level declarations are order-independent and must be well-formed."""
import random, collections, itertools
from .. import common as C
from .. import gen_prog as GP


PTRS, INTS = {}, {}


def graph_module(rng):
    n = rng.randint(2, 7)
    kinds = [rng.choice("cs") for _ in range(n)]       # c = constant (usize), s = struct
    names = ["%s%d" % ("K" if k == "c" else "S", i) for i, k in enumerate(kinds)]
    cyclic = rng.random() < 0.35
    decls = {}
    edges = {}
    for i in range(n):
        def pick():
            if cyclic and rng.random() < 0.3: return rng.randrange(n)
            return rng.randrange(i) if i > 0 else None
        if kinds[i] == "c":
            terms, es = [], []
            for _ in range(rng.randint(0, 3)):
                j = pick()
                if j is None or rng.random() < 0.3: terms.append("%dusize" % rng.randint(1, 4)); continue
                if kinds[j] == "c": terms.append(names[j])
                else: terms.append("|:%s|" % names[j])
                es.append((names[i], names[j], "c"))
            if not terms: terms = ["%dusize" % rng.randint(1, 5)]
            decls[i] = "const %s: usize = %s;\n" % (names[i], " + ".join(terms))
            edges[i] = es
        else:
            ms, es = [], []
            for m in range(rng.randint(0, 3)):
                j = pick()
                k = rng.random()
                if j is None or k < 0.2: ms.append("\tm%d: i32,\n" % m); INTS.setdefault(id(decls), []).append((i, m)); continue
                if kinds[j] == "s":
                    if k < 0.45: ms.append("\tm%d: %s,\n" % (m, names[j])); es.append((names[i], names[j], "m"))
                    elif k < 0.6: ms.append("\tm%d: &%s,\n" % (m, names[j])); PTRS.setdefault(id(decls), []).append((i, m, j))
                    else:
                        cs = [x for x in range(n) if kinds[x] == "c" and (x < i or cyclic)]
                        if cs:
                            c = rng.choice(cs)
                            ms.append("\tm%d: [%s]%s,\n" % (m, names[c], names[j]))
                            es.append((names[i], names[j], "m")); es.append((names[i], names[c], "m"))
                        else:
                            ms.append("\tm%d: [2]%s,\n" % (m, names[j])); es.append((names[i], names[j], "m"))
                elif k < 0.6:
                    ms.append("\tm%d: [%s]i32,\n" % (m, names[j])); es.append((names[i], names[j], "m"))
                else:
                    # a named length behind a pointer is a dependency too (the pointee is not contained)
                    ms.append("\tm%d: %s[%s]i32,\n" % (m, rng.choice(["&", "&&", "&[2]"]), names[j])); es.append((names[i], names[j], "m"))
            decls[i] = "struct %s\n{\n%s}\n" % (names[i], "".join(ms))
            edges[i] = es
    order = list(range(n))
    rng.shuffle(order)
    # uses of the pointer members: reading and writing a scalar member of the pointee THROUGH the pointer member
    # needs the pointee's structure to be known when the holder is typed, wherever it is declared
    users = ""
    ints = {}
    for (i, m) in INTS.pop(id(decls), []): ints.setdefault(i, []).append(m)
    for (i, m, j) in PTRS.pop(id(decls), []):
        if j in ints and kinds[j] == "s":
            q = ints[j][0]
            users += "fn rd_%d_%d(v: &%s) -> i32\n{\n\treturn: v.m%d.m%d\n}\nfn wr_%d_%d(v: &%s)\n{\n\tv.m%d.m%d = 1;\n}\n" % (i, m, names[i], m, q, i, m, names[i], m, q)
    # a WORD reached through a pointer member, declared anywhere among the others
    if rng.random() < 0.5:
        structs_ = [i for i in range(n) if kinds[i] == "s"]
        if structs_:
            i = rng.choice(structs_)
            decls[i] = decls[i].replace("\n{\n", "\n{\n\tpw: &W9,\n", 1)
            decls[n] = "word64 W9\n{\n\tx: i32,\n\ty: i32,\n}\n"
            order.insert(rng.randrange(len(order) + 1), n)
            edges[n] = []
            users += "fn rdw_%d(v: &%s) -> i32\n{\n\treturn: v.pw.x\n}\n" % (i, names[i])
    decls["users"] = users
    return names, kinds, decls, edges, order


def render(names, kinds, decls, edges, order):
    src = "".join(decls[i] + "\n" for i in order) + (decls.get("users", "") if not has_cycle(names, edges) else "") + "fn main() -> u8\n{\n\treturn: 0\n}\n"
    cs = "(" + " ".join("(%s %s)" % (names[i], kinds[i]) for i in order if i < len(names)) + ")"      # (the extra word W9 is not part of the graph)
    es = "(" + " ".join("(%s %s %s)" % e for i in order if i < len(names) for e in edges[i]) + ")"
    return src, "(%s %s)" % (cs, es)


def has_cycle(names, edges):
    adj = collections.defaultdict(set)
    for es in edges.values():
        for a, b, _ in es: adj[a].add(b)
    color = {}
    def dfs(u):
        color[u] = 1
        for v in adj[u]:
            if color.get(v) == 1 or (color.get(v) is None and dfs(v)): return True
        color[u] = 2
        return False
    return any(color.get(u) is None and dfs(u) for u in names)


def run(tier):
    ck = C.Check("C11", tier)
    proof_ok = ck.prove()
    if not ck.builds():
        ck.violation("tie-broken:build", "model or harness does not build", "see log")
        return ck.finish()
    rng = random.Random(ck.seed)
    def witness(src):
        f = C.run_harness("front", [("w", src)], ck.work + "/witness").get("w", ["missing"])
        return None if f[0].startswith("ok") or f[0].startswith("err codes=") else C.failure_key(f[0])
    ck.witness_runner = witness
    n = 800 if tier == "quick" else 30000
    cases, items, meta = [], [], {}
    for i in range(n):
        g = graph_module(rng)
        names, kinds, decls, edges, order = g
        for k in range(2):   # two source orders of the same graph
            o = list(order) if k == 0 else rng.sample(order, len(order))
            src, sx = render(names, kinds, decls, edges, o)
            cid = "g%d.%d" % (i, k)
            cases.append((cid, src)); items.append(("containers", cid, sx))
            meta[cid] = (has_cycle(names, edges), sx)
    impl = C.run_harness("front", cases, ck.work + "/graphs", timeout=1800)
    model = C.run_model(items, ck.work + "/graphs")
    CYC = {"413", "415", "416"}
    stats = collections.Counter(); mism = 0; distinct = set()
    verdicts = {}
    for cid, src in cases:
        f = impl.get(cid, ["missing"])
        cyc, sx = meta[cid]
        m = model.get(cid, "MODEL-MISSING")
        if f[0].startswith("ok"): real = []
        elif f[0].startswith("err codes="): real = [x for x in f[0][len("err codes="):].strip("[]").split(",") if x]
        else:
            ck.violation(C.failure_key(f[0]), "compiler failed: " + f[0][:200], src); continue
        stats["cyclic" if cyc else "acyclic"] += 1
        verdicts[cid] = bool(real)
        real_cyc = [x for x in real if x in CYC]
        distinct.add(sx)
        replay = "source:\n%s\ngraph: %s\nreal: %s depths %s\nmodel: %s" % (src, sx, f[0], f[3] if len(f) > 3 else "?", m)
        # the property itself
        if cyc and not real:
            mism += 1; ck.violation("cycle-accepted", "a module whose constants/structures depend on themselves is accepted", replay); continue
        if cyc and not real_cyc and not ({"433"} & set(real)):
            mism += 1; ck.violation("cycle-wrong-code", "a cyclic module is rejected without E413/E415/E416/E433: %s" % real, replay); continue
        if not cyc and real:
            mism += 1; ck.violation("acyclic-rejected", "an acyclic module is rejected: %s" % real, replay); continue
        if not m.startswith("codes="):
            ck.violation("tie-broken:model-error", "containers model failed: " + m[:200], replay); continue
        mc, md = m.split(" ")
        mcodes = [x for x in mc[len("codes="):].strip("[]").split(",") if x]
        if sorted(mcodes) != sorted(real_cyc):
            mism += 1; ck.violation("tie-broken:codes", "model cycle codes %s, real %s" % (mcodes, real_cyc), replay); continue
        rd = dict(x.split("=") for x in f[3].split(",")) if len(f) > 3 and f[3] not in ("-", "") else {}
        rd.pop("W9", None)
        mdm = dict(x.split("=") for x in md[len("depths="):].split(",")) if md != "depths=" else {}
        if rd != mdm:
            mism += 1; ck.violation("tie-broken:depths", "model depths differ from the scoper's", replay)
    # the two source orders of each graph must be accepted or rejected alike
    for i in range(n):
        a, b = verdicts.get("g%d.0" % i), verdicts.get("g%d.1" % i)
        if a is not None and b is not None and a != b:
            mism += 1
            ck.violation("order-dependent-verdict", "two orders of the same declarations are not accepted/rejected alike",
                         "order 1:\n%s\norder 2:\n%s" % (dict(cases)["g%d.0" % i], dict(cases)["g%d.1" % i]))
    ck.log("graphs: %d modules %s, %d problems" % (len(cases), dict(stats), mism))
    # duplicate names (E421 functions, E423 constants, E425 structures, E424 parameters, E426 members):
    # random declarations over a small pool of names, in two orders; the set of codes is decided by the
    # name spaces alone (functions / constants / structures; parameters also clash with constants, members only
    # with the other members of their structure)
    drng = random.Random(ck.seed + 21)
    dcases, dexp = [], {}
    for i in range(400 if tier == "quick" else 15000):
        pool = ["a", "b", "c", "d"]
        decls, fns, consts, structs, codes = [], [], [], [], set()
        for _ in range(drng.randint(2, 5)):
            k = drng.random(); nm = drng.choice(pool)
            if k < 0.12:
                # a signature without a body (a forward / extern declaration): its parameters are in scope in it alone
                ps = [drng.choice(pool + ["p", "q", "r"]) for _ in range(drng.randint(1, 3))]
                decls.append(("head", "h%d" % len(decls), ps))
            elif k < 0.35:
                ps = [drng.choice(pool + ["p", "q"]) for _ in range(drng.randint(0, 3))]
                decls.append(("fn", nm, ps)); fns.append(nm)
            elif k < 0.65:
                decls.append(("const", nm, None)); consts.append(nm)
            else:
                ms = [drng.choice(pool + ["m", "n"]) for _ in range(drng.randint(1, 3))]
                decls.append(("struct", nm, ms)); structs.append(nm)
        if len(set(fns)) < len(fns): codes.add("421")
        if len(set(consts)) < len(consts): codes.add("423")
        if len(set(structs)) < len(structs): codes.add("425")
        for kind, nm, xs in decls:
            if kind in ("fn", "head") and (len(set(xs)) < len(xs) or set(xs) & set(consts)): codes.add("424")
            if kind == "struct" and len(set(xs)) < len(xs): codes.add("426")      # members only clash with members of the same structure (D71)
        # every structure is also USED as a type (a constant of the same name must not get in the way)
        for st_ in sorted(set(structs)):
            decls.append(("user", st_, None))
        def render_d(d):
            kind, nm, xs = d
            if kind == "user": return "fn use_%s(v: &%s)\n{\n}\n" % (nm, nm)
            if kind == "head": return "%sfn %s(%s);\n" % ("extern " if len(nm) % 2 else "", nm, ", ".join("%s: i32" % x for x in xs))
            if kind == "fn":
                # locals named like the parameters of OTHER functions and signatures (never like its own or a constant)
                loc = [v for v in ("p", "q", "r") if v not in xs]
                return "fn %s(%s)\n{\n%s}\n" % (nm, ", ".join("%s: i32" % x for x in xs), "".join("\tvar %s: i32 = 1;\n" % v for v in loc))
            if kind == "const": return "const %s: i32 = 1;\n" % nm
            return "struct %s\n{\n%s}\n" % (nm, "".join("\t%s: i32,\n" % x for x in xs))
        for k in range(2):
            order = list(decls) if k == 0 else drng.sample(decls, len(decls))
            cid = "dup%d.%d" % (i, k)
            dcases.append((cid, "".join(render_d(d) for d in order))); dexp[cid] = codes
    dimpl = C.run_harness("front", dcases, ck.work + "/dups", timeout=1800)
    dbad = 0; dstat = collections.Counter()
    for cid, src in dcases:
        f = dimpl.get(cid, ["missing"])[0]
        if not (f.startswith("ok") or f.startswith("err codes=")):
            ck.violation(C.failure_key(f), "compiler failed: " + f[:160], src); continue
        got = set(x for x in f[len("err codes="):].strip("[]").split(",") if x) if f.startswith("err") else set()
        dstat["rejected" if got else "accepted"] += 1
        # a duplicate declaration is poisoned as a whole, which hides the duplicates inside it: every reported
        # code must be required, at least one required code must be reported, a single required code exactly
        exp = dexp[cid]
        if not (got <= exp and bool(got) == bool(exp) and (len(exp) != 1 or got == exp)):
            dbad += 1
            ck.violation("duplicate-names", "declarations with %s: the compiler reports %s, the name spaces require %s" % ("duplicate names" if dexp[cid] else "distinct names", sorted(got), sorted(dexp[cid])), src)
    ck.log("duplicate names: %d modules %s, %d problems" % (len(dcases), dict(dstat), dbad))
    mism += dbad
    # type legality per position: every written type up to nesting depth 2/3 x every declaration position,
    # real codes vs Model/TypeLegal.v
    from .. import gen_legal, compare_legal
    depth = 3 if tier == "quick" else 4
    lcases, litems, lmeta = [], [], {}
    for pos in gen_legal.positions():
        for t in gen_legal.types(depth):
            text, mpos, noinit = gen_legal.program(pos, t)
            cid = "L%d" % len(lcases)
            lcases.append((cid, text)); litems.append(("legal", cid, "(%s %s)" % (mpos, gen_legal.sexp(t)))); lmeta[cid] = (gen_legal.posname(pos), gen_legal.src(t), noinit)
    limpl = C.run_harness("front", lcases, ck.work + "/legal", timeout=3000)
    lmodel = C.run_model(litems, ck.work + "/legal", timeout=3000)
    lstats = collections.Counter(); lbad = 0
    for cid, text in lcases:
        posn, tys, noinit = lmeta[cid]
        rf = limpl.get(cid, ["missing"])[0]
        r = compare_legal.parse_real(rf); m = compare_legal.parse_model(lmodel.get(cid, "<missing>"))
        if noinit and m == ("codes", []) and r[0] == "codes": r = ("codes", [c for c in r[1] if c != 500])
        if r[0] == "panic" or rf.startswith("panic@") or rf.startswith("crash"):
            lstats["panic"] += 1
            ck.violation(C.failure_key(rf), "declaring %s as %s makes the compiler fail: %s (the model %s)" % (tys, posn, rf[:120], "predicts this assertion failure" if m[0] == "panic" else "says " + str(m)), text)
            if m[0] != "panic": lbad += 1
            continue
        if r == m:
            lstats["accepted" if m == ("codes", []) else "rejected"] += 1
        else:
            lbad += 1; lstats["DISAGREE"] += 1
            ck.violation("type-legality-differs", "type %s at position %s: the compiler says %s, Model/TypeLegal.v says %s" % (tys, posn, rf[:100], lmodel.get(cid)), text)
    ck.log("type legality: %d declarations (depth %d) %s" % (len(lcases), depth, dict(lstats)))
    # a variable declared WITH an initialiser is judged like one without: every type that is illegal for a variable
    # (E352 by the model) and legal for a parameter, as `fn foo(p: T) { var x: T = p; }`
    bytype = collections.defaultdict(dict)
    for cid, text in lcases:
        posn, tys, _ = lmeta[cid]
        bytype[tys][posn] = compare_legal.parse_model(lmodel.get(cid, "<missing>"))
    vcases = []
    for tys, d_ in sorted(bytype.items()):
        pv_ = [v for k_, v in d_.items() if str(k_).startswith("var")]; pp_ = [v for k_, v in d_.items() if "parambody" in str(k_) and "p" not in str(k_).replace("parambody", "").replace("param", "")]
        if pv_ and pv_[0][0] == "codes" and 352 in pv_[0][1] and any(v == ("codes", []) for k_, v in d_.items() if "param" in str(k_)):
            vcases.append(("vi%d" % len(vcases), gen_legal.PRELUDE + "fn foo(p: %s) { var x: %s = p; }\n" % (tys, tys), tys))
    vimpl = C.run_harness("front", [(a, b) for a, b, _ in vcases], ck.work + "/legalinit", timeout=1800)
    vbad = 0
    for cid, text, tys in vcases:
        rf = vimpl.get(cid, ["missing"])[0]
        r = compare_legal.parse_real(rf)
        if r[0] != "codes" or not r[1]:          # (another error may stand in for E352 - conflicting types, a copy; ACCEPTING it is the violation)
            if r[0] == "codes":
                vbad += 1; lbad += 1
                ck.violation("type-legality-differs:initialised-variable", "`var x: %s = p;` (p a parameter of that type): the compiler says %s; without the initialiser the type is E352 for a variable" % (tys, rf[:100]), text)
            else: ck.violation(C.failure_key(rf), "declaring an initialised variable of type %s makes the compiler fail: %s" % (tys, rf[:120]), text)
    ck.log("initialised variables of types illegal for variables: %d, %d problems" % (len(vcases), vbad))
    mism += lbad
    # words larger than declared (E380): every small word at every declared size
    from . import c10
    nwords, wbad = c10.check_words(ck, tier)
    mism += wbad
    # permutations of whole programs behave identically
    nprog = 40 if tier == "quick" else 3000
    pc = []
    for i in range(nprog):
        g = GP.Gen(random.Random(rng.getrandbits(64)), level=3, max_funcs=4)
        p = g.program()
        base = GP.source(p, random.Random(i), plain=True)
        pc.append(("q%d" % i, base))
        for k in range(3):
            # all top-level declarations (structures, words, constants, functions) interleaved at random
            pc.append(("q%d.%d" % (i, k), GP.source(p, random.Random(i), plain=True, shuffle=random.Random(rng.getrandbits(64)))))
    impl2 = C.run_harness("exec", pc, ck.work + "/perm", timeout=1800)
    compared = 0
    for cid, src in pc:
        if "." not in cid: continue
        a, b = impl2.get(cid.split(".")[0], ["missing"]), impl2.get(cid, ["missing"])
        if not a[0].startswith("ok"): continue
        compared += 1
        if a[:2] != b[:2]:
            ck.violation("permutation-changes-behaviour", "a permutation of the top-level declarations changes verdict or output",
                         "permuted source:\n%s\noriginal: %s\npermuted: %s" % (src, a[:2], b[:2]))
    ck.log("permutations: %d permuted programs compared" % compared)
    if not proof_ok:
        ck.violation("tie-broken:proof", "Props/C11.v no longer checks", getattr(ck, "proof_output", "")[-2000:])
    ck.coverage.update(
        evaluations=len(cases) + len(pc), distinct_nontrivial=len(distinct),
        rule="random dependency graphs of 2-7 constants and structures (edges through constant expressions, size-of, member types, named array lengths; 35% with back edges), each in two source orders: acyclic must be accepted, cyclic rejected with a cycle code, both orders alike; scoper depths and cycle codes vs Model/Containers.v fed with the edge list in processing order; random declarations over a pool of four names in two orders (the codes E421 / E423 / E424 / E425 / E426 must be exactly those the name spaces require); every written type up to nesting depth 3 (quick) / 4 (thorough) over 9 leaves and 7 constructors at every declaration position (variable, size-of, constant, parameter with and without body, return type, struct member, word member of every size; plain, pub, extern, pub extern): the reported codes must be exactly those of Model/TypeLegal.v; every word of 1-4 members of 1/2/4/8 bytes at every declared size (E380 iff the aligned size exceeds it, per Model/Layout.v); plus generated programs (with constants defined from constants, structures, words, functions) under 3 random permutations of ALL their top-level declarations (same verdict and lli output); distinct = distinct graphs",
        graph_stats=dict(stats), problems=mism, permuted_programs=compared,
        samples=[dict(source=cases[0][1], graph=meta[cases[0][0]][1], real=impl.get(cases[0][0], ["?"])[0])])
    ck.assumptions += ["the edge list given to the model is computed by the generator in the order the scoper visits declarations, value expressions, members and array types",
                       "names that are undeclared or cyclic stay the scoper's business; the legality model takes what a name is declared as"]
    return ck.finish()
