"""C16 — the second-generation parser builds a faithful parse tree."""
import random, collections, re
from .. import common as C
from .. import gen_syntax as GS, gen_mut as GM, gen_prog as GP


def inputs(rng, tier):
    out = []
    n = 400 if tier == "quick" else 15000
    for i in range(n):
        s = GS.Syn(random.Random(rng.getrandbits(64)), trailing_commas=(i % 3 != 0), newline_layout=(i % 2 == 0))
        out.append(("g%d" % i, s.module(), "grammar"))
    for i in range(60 if tier == "quick" else 2000):
        g = GP.Gen(random.Random(rng.getrandbits(64)), level=2)
        out.append(("p%d" % i, GP.source(g.program(), random.Random(i), plain=(i % 2 == 0)), "program"))
    for name, src in GM.corpus():
        out.append(("c:" + name, src, "corpus"))
    # import paths and strings with characters that need escaping; heads with every flag
    for i, path in enumerate(["dir/file.pn", "dir\\\\file.pn", "a\\\"b.pn", "tab\\tname.pn", "caf\\xc3\\xa9.pn", "core:text/char.pn"]):
        out.append(("ip%d" % i, 'import "%s";\npub fn head%d(a: i32) -> i32;\npub extern fn ext%d(a: i32);\nextern fn priv%d();\nconst S: []char8 = "q\\"\\\\";\n' % (path, i, i, i), "escapes"))
    # every byte as the content of a string and of a character literal (printable characters as themselves -
    # a quote of the other kind included -, the rest through escapes), sixteen per module
    def spell(b, quote):
        if b == ord(quote) or b == 92: return "\\" + chr(b)
        if 32 <= b < 127: return chr(b)
        return {10: "\\n", 13: "\\r", 9: "\\t", 0: "\\0"}.get(b, "\\x%02X" % b)
    for base in range(0, 256, 16):
        text = "".join('const S%d: []char8 = "a%sz";\n' % (b, spell(b, '"')) for b in range(base, base + 16))
        text += "".join("const C%d: char8 = '%s';\n" % (b, spell(b, "'")) for b in range(base, min(base + 16, 128)))
        out.append(("by%d" % base, text + 'import "it\'s/%d.pn";\n' % base, "escapes"))
    # integer literals at the boundaries of the literal kinds (signed / bit integer) in every spelling
    blits = []
    for v in ((1 << 127) - 1, 1 << 127, (1 << 128) - 1, (1 << 63) - 1, 1 << 63, (1 << 64) - 1, 0, 1, 255, 256):
        for sp in ("%d" % v, "0x%x" % v, "0b" + bin(v)[2:]):
            for suf in ("", "i128", "u128", "i64", "u64", "u8"):
                blits.append(sp + suf)
    for bi in range(0, len(blits), 12):
        out.append(("bl%d" % bi, "".join("const K%d: u128 = %s;\n" % (j, l) for j, l in enumerate(blits[bi:bi + 12])) + 'const CR: []char8 = "line\\x0d\\n\\r\\u{d}\\t\\x09";\n', "boundary-literals"))
    # references of 125-127 steps (the limit of both generations is 127)
    for n_ in (125, 126, 127):
        out.append(("st%d" % n_, "fn main()\n{\n\tvar y = x%s;\n}\n" % (".a" * n_), "long-references"))
        out.append(("se%d" % n_, "fn main()\n{\n\tvar y = x%s;\n}\n" % ("[0]" * n_), "long-references"))
    return out


_SRC = {}


def ref_src(f):
    return _SRC.get(id(f), "")


def classify_delta(f, ref):
    """f = fields [tokens, alpha, rebuilt, reparsed, again, dstrict, drepaired, dfolded]"""
    dstrict, drep, dfold = f[5], f[6], f[7]
    if dstrict.startswith("panic@"): return "delta-panic:" + dstrict.split(" ")[0]
    if dstrict.startswith("lexerr"): return "delta-lexer-divergence"      # classes K1-K6 of C14
    if dstrict.startswith("parseerr"):
        # the second generation reserves the word `return` (allowed by C14): a label named `return`
        # that is not the function's final return label is a syntax error there
        if ref.count("(label n0)") > ref.count("(label n0)) (ret"): return "delta-rejects-valid:return-as-plain-label"
        if "[390]" in dstrict and (".a" * 127 in ref_src(f) or "[0]" * 127 in ref_src(f)): return "delta-rejects-valid:reference-of-127-steps"
        return "delta-rejects-valid"
    if dstrict == "ok " + ref: return None
    if dstrict.startswith("err unbalanced"):
        what = "BitCast" if "<BitCast>" in dstrict else ("IdentifierAndExpression" if "IdentifierAndExpression" in dstrict else "other")
        if drep == "ok " + ref or dfold == "ok " + ref: return "xml-unbalanced:" + what
        return "xml-unbalanced-and-different:" + what
    if dstrict.startswith("err"): return "xml-malformed"
    if dfold == "ok " + ref: return "negative-literal-not-folded"
    return "different-tree"


def run(tier):
    ck = C.Check("C16", tier)
    proof_ok = ck.prove()
    if not ck.builds():
        ck.violation("tie-broken:build", "model or harness does not build", "see log")
        return ck.finish()
    rng = random.Random(ck.seed)
    def witness(src):
        f = C.run_harness("syntax-tree", [("w", src)], ck.work + "/witness").get("w", ["missing"])
        if len(f) == 6 and f[5].startswith("panic@"): f = f + [f[5], f[5]]
        if len(f) < 8 or not f[1].startswith("ok "): return None
        _SRC[id(f)] = src
        return classify_delta(f, f[1][3:])
    ck.witness_runner = witness
    cases = inputs(rng, tier)
    # modules of more than 2^16 parse nodes and of more than 2^16 / 2 tokens (node and token ids are stored in three
    # bytes; the third one only matters from 65536 on): many small functions, every list short
    for nb, nf in enumerate((1200, 1500) if tier == "quick" else (1200, 1500, 2200)):
        big = "".join("fn f%d(a: i32, b: i32) -> i32\n{\n\tvar x: i32 = a + b * %d;\n\tif x == %d\n\t{\n\t\tx = x - 1;\n\t}\n\treturn: x\n}\n" % (i, i, i) for i in range(nf))
        cases.append(("big%d" % nb, big, "big-module"))
    firsts = ["fn double(x: i32) -> i32\n{\n\treturn: x + x\n}\n", "const K: i32 = 1;\n", "struct S\n{\n\tx: i32,\n}\n", "word16 W\n{\n\ta: u8,\n\tb: u8,\n}\n", "struct Opaque;\n", "import \"other.pn\";\n", "extern fn e(a: i32) -> i32;\n", "fn head(a: i32);\n"]
    for nf_, fd_ in enumerate(firsts):
        for pub_ in ("", "pub "):
            for rest_ in ("", "fn main()\n{\n}\n", "pub const LAST: u8 = 2;\n"):
                cases.append(("first%d%s%d" % (nf_, "p" if pub_ else "q", len(rest_)), pub_ + fd_ + rest_, "first-declaration"))
    for nd, terms in enumerate((8, 14, 30, 60)):
        ids = ["a", "b", "c", "d"]
        e1 = " + ".join(ids[i % 4] for i in range(terms)); e2 = " * ".join(ids[(i + 1) % 4] for i in range(terms)); e3 = " + ".join("%s * %s" % (ids[i % 4], ids[(i + 2) % 4]) for i in range(terms // 2))
        cases.append(("dense%d" % nd, "fn mix(a: u32, b: u32, c: u32, d: u32) -> u32\n{\n\tvar x: u32 = %s;\n\tvar y: u32 = %s;\n\treturn: %s\n}\n" % (e1, e2, e3), "dense-expressions"))
    impl = C.run_harness("syntax-tree", [(c[0], c[1]) for c in cases], ck.work + "/tree", timeout=3000)
    items = [("refparse", c[0], impl[c[0]][0]) for c in cases if c[0] in impl and len(impl[c[0]]) >= 6 and not impl[c[0]][0].startswith("lexerr") and c[2] != "big-module"]
    model = C.run_model(items, ck.work + "/tree", timeout=3000)
    stats = collections.Counter(); bad = 0; distinct = set()
    for cid, src, kind in cases:
        f = impl.get(cid, ["missing"])
        if len(f) == 6 and f[5].startswith("panic@"):
            f = f + [f[5], f[5]]          # the second-generation front end panicked: one field instead of three
        if len(f) < 8:
            if f[0].startswith("panic"): ck.violation(C.failure_key(f[0]), "first-generation front end failed: " + f[0][:160], src)
            continue
        if f[0].startswith("lexerr"): stats["lexical-error"] += 1; continue
        if kind == "big-module":
            # (too large for the extracted reference parser's stack: the two real parsers are compared directly)
            if not f[1].startswith("ok "):
                bad += 1; ck.violation("valid-rejected:big-module", "the first generation rejects a module of many small functions: " + f[1][:200], src[:2000]); continue
            k = classify_delta(f, f[1][3:])
            stats["big:" + (k or "delta-equal")] += 1
            if k is not None:
                ck.violation("delta:" + k + ":big-module", "second-generation parser on a valid module of %d bytes (more than 2^16 parse nodes): %s" % (len(src), k), "source: %d functions like\n%s\nsecond generation: %s" % (src.count("fn f"), src[:300], f[5][:600]))
            continue
        m = model.get(cid, "MODEL-MISSING")
        alpha_ok = f[1].startswith("ok ")
        ref_ok = "parsed=true" in m
        if alpha_ok != ref_ok:
            bad += 1
            ck.violation("tie-broken:reference-verdict", "first-generation parser %s but the reference parser %s" % ("accepts" if alpha_ok else "rejects", "accepts" if ref_ok else "rejects"),
                         "source:\n%s\nalpha: %s\nreference: %s" % (src, f[1][:300], m[:300])); continue
        if not alpha_ok: stats["syntax-error(both)"] += 1; continue
        ref = m.split("\t", 1)[1] if "\t" in m else ""
        if ref != f[1][3:]:
            bad += 1
            ck.violation("tie-broken:reference-tree", "first-generation AST differs from the reference parser's tree", "source:\n%s\nalpha    : %s\nreference: %s" % (src, f[1][3:][:1500], ref[:1500])); continue
        if "wf=true" not in m or "roundtrip=true" not in m:
            bad += 1; ck.violation("tie-broken:reference-wf", "reference tree not wf / does not round-trip: " + m.split("\t")[0], src); continue
        distinct.add(ref)
        _SRC[id(f)] = src
        k = classify_delta(f, f[1][3:])
        stats["valid:" + (k or "delta-equal")] += 1
        if k is not None:
            ck.violation("delta:" + k, "second-generation parser on a syntactically valid module: " + k,
                         "source:\n%s\nfirst generation / reference:\n%s\nsecond generation (strict XML decoding): %s\nwith dump defects repaired: %s" % (src, C.unesc(f[1][3:]).decode(errors="replace")[:2000], f[5][:600], f[6][:300]))
    ck.log("syntax trees: %d inputs %s, %d tie problems" % (len(cases), dict(stats), bad))
    # the tie of Model/DeltaExpr.v: on the tokens of `const X: i32 = EXPR;` the model of the second-generation
    # expression parser accepts exactly when the real one does (and the reference exactly when the first generation does)
    erng = random.Random(ck.seed + 1616)
    ecases = []
    for i in range(600 if tier == "quick" else 30000):
        syn = GS.Syn(random.Random(erng.getrandbits(64)), trailing_commas=(i % 3 != 0), newline_layout=False)
        e = syn.expr(erng.choice([1, 2, 3]), nobrace=False)
        if i % 7 == 0: e = erng.choice(["a + b & c", "a * b << c", "a as [:][:]u8", "x" + ".a" * erng.choice([126, 127, 128]), "&" * erng.choice([1, 127, 128]) + "a",
                                        "a & b & c", "a & b | c", "a + b + c & d", "-5", "- 5", "-(5)", "a as u8 as u16 as u32", "|:[3][]u8|", "f(g(h(1)))", "[[1, 2], [3]]", "a.b[c.d[e]].f"])
        ecases.append(("x%d" % i, "const X: i32 = %s;\n" % e))
    eimpl = C.run_harness("syntax-tree", ecases, ck.work + "/dexpr", timeout=1800)
    emodel = C.run_model([("dexpr", cid, eimpl[cid][0]) for cid, _ in ecases if cid in eimpl and len(eimpl[cid]) >= 6 and not eimpl[cid][0].startswith("lexerr")], ck.work + "/dexpr")
    ebad = 0; estats = collections.Counter()
    for cid, src in ecases:
        f = eimpl.get(cid, ["missing"]); m = emodel.get(cid)
        if m is None or len(f) < 6: estats["not-compared"] += 1; continue
        mm = dict(x.split("=") for x in m.split(" ")) if m.startswith("delta=") else {}
        if not mm:
            ebad += 1; ck.violation("tie-broken:model-error", "DeltaExpr model failed: " + m[:200], src); continue
        if f[5].startswith("panic"): continue                      # (classified by the tree comparison above / C15)
        real_delta = "rejected" if f[5].startswith("parseerr") else "ok"
        real_alpha = "ok" if f[1].startswith("ok ") else "rejected"
        model_delta = "ok" if mm["delta"] == "ok" else "rejected"
        model_ref = "ok" if mm["reference"] == "ok" else "rejected"
        estats["delta-%s/alpha-%s" % (real_delta, real_alpha)] += 1
        if real_delta != model_delta:
            ebad += 1; ck.violation("tie-broken:delta-expression-model", "the second-generation parser %s the expression, Model/DeltaExpr.v says %s (%s)" % (real_delta, model_delta, m), "source: %s\nreal: %s" % (src, f[5][:300]))
        elif real_alpha != model_ref:
            ebad += 1; ck.violation("tie-broken:reference-verdict", "the first-generation parser %s the expression, the reference parser says %s" % (real_alpha, model_ref), "source: %s\nreal: %s" % (src, f[1][:300]))
        elif mm["same"] == "false":
            ebad += 1; ck.violation("tie-broken:delta-expression-model", "model trees differ although both accept (contradicts C16_delta_expression_is_reference)", src)
    ck.log("expression parser tie: %d expressions %s, %d problems" % (len(ecases), dict(estats), ebad))
    if not proof_ok:
        ck.violation("tie-broken:proof", "Props/C16.v no longer checks", getattr(ck, "proof_output", "")[-2000:])
    ck.coverage.update(
        evaluations=len(cases), distinct_nontrivial=len(distinct),
        rule="random derivations of the grammar (every declaration kind and flag, type form, statement, expression layer, literal and reference form; with/without trailing commas; one-line and multi-line layouts), generated well-typed programs, and the whole corpus (tests/samples, examples, core, vendor): real first-generation tokens -> reference parser (extracted) vs first-generation AST vs second-generation XML dump decoded strictly (balanced, no MALFORMED); verdict agreement on syntax errors too; distinct = distinct valid trees",
        stats=dict(stats), tie_problems=bad,
        samples=[dict(source=cases[0][1][:400], reference=model.get(cases[0][0], "")[:300])])
    return ck.finish()
