"""C04 — goto only ever jumps forward and outward."""
import random, collections
from .. import common as C
from .. import gen_bodies as G

LEAVES = [('label', 'a'), ('label', 'b'), ('goto', 'a'), ('goto', 'b'), ('cgoto', 'a'), ('cgoto', 'b')]


def cases(tier, seed):
    rng = random.Random(seed)
    out = []
    maxn = 4 if tier == "quick" else 5
    for n in range(0, maxn + 1):
        for b in G.enum_bodies(n, 3, LEAVES, with_else=(n <= 4)):
            out.append(("x", b))
    exhaustive_n = len(out)
    nrand = 3000 if tier == "quick" else 60000
    leaves = LEAVES + [('assign',), ('goto', 'return'), ('label', 'c'), ('goto', 'c')]
    leaves2 = leaves + [('ifs', ('goto', x), ('goto', y)) for x in "ab" for y in "ab"]
    for i in range(nrand):
        out.append(("r", G.random_body(rng, 3, rng.randint(1, 40 if i % 4 == 0 else 9), leaves if i % 3 else leaves2)))
    # several functions using the same label names: a label is visible in its own function only
    small = [b for n in range(0, 3) for b in G.enum_bodies(n, 1, LEAVES[:4] + [('ifs', ('goto', 'a'), ('goto', 'b'))], with_else=False)]
    multi = [[f, g] for f in small for g in small]
    for i in range(nrand // 10):
        multi.append([G.random_body(rng, 2, rng.randint(0, 6), leaves2) for _ in range(rng.randint(2, 4))])
    return out, exhaustive_n, maxn, multi


def program_multi(bodies):
    s = ""
    for i, b in enumerate(bodies):
        name = "main" if i == len(bodies) - 1 else "f%d" % i
        s += "fn %s() -> i32\n{\n\tvar r: i32 = 0;\n%s\treturn: r\n}\n" % (name, G.render(b))
    return s


def expected_shape(body):
    """the statement shape the parser must build for a generated body (harness/src/shape.rs syntax): the model is
    fed with what the real parser built, so a parser that loses or misplaces a label or a goto is only visible here"""
    def st(x):
        k = x[0]
        if k == 'label': return "(L %s)" % x[1]
        if k == 'goto': return "(G %s)" % x[1]
        if k == 'cgoto': return "(I (r) (G %s))" % x[1]
        if k == 'assign': return "(A (r r))"
        if k == 'block': return "(B %s)" % " ".join(st(y) for y in x[1]) if x[1] else "(B )"
        if k == 'if':
            t = "(B %s)" % " ".join(st(y) for y in x[1]) if x[1] else "(B )"
            if x[2] is None: return "(I (r) %s)" % t
            e = "(B %s)" % " ".join(st(y) for y in x[2]) if x[2] else "(B )"
            return "(I (r) %s %s)" % (t, e)
        if k == 'ifs': return "(I (r) %s)" % st(x[1]) if x[2] is None else "(I (r) %s %s)" % (st(x[1]), st(x[2]))
        raise ValueError(k)
    inner = " ".join(st(x) for x in body)
    return "((C ) (F () (D r ())%s (L return) (R (r))))" % (" " + inner if inner else "")


def run(tier):
    ck = C.Check("C04", tier)
    proof_ok = ck.prove()
    if not ck.builds():
        ck.violation("tie-broken:build", "model or harness does not build", "see log")
        return ck.finish()
    bodies, nex, maxn, multi = cases(tier, ck.seed)
    ck.log("cases: %d (exhaustive part %d, <=%d statements)" % (len(bodies), nex, maxn))
    srcs = [("%s%d" % (k, i), G.program(b)) for i, (k, b) in enumerate(bodies)]
    srcs += [("m%d" % i, program_multi(bs)) for i, bs in enumerate(multi)]
    ck.log("programs of several functions: %d" % len(multi))
    impl = C.run_harness("front", srcs, ck.work)
    items = []
    for cid, _ in srcs:
        f = impl.get(cid)
        if f and len(f) >= 2 and f[1].startswith("("):
            items.append(("labels", cid, f[1]))
    model = C.run_model(items, ck.work)
    dist = collections.Counter()
    distinct = set()
    mism = 0
    srcmap = dict(srcs)
    want_shape = {"%s%d" % (k, i): expected_shape(b) for i, (k, b) in enumerate(bodies)}
    for cid, src in srcs:
        f = impl.get(cid, ["missing"])
        verdict = f[0]
        if cid in want_shape and len(f) >= 2 and f[1].startswith("(") and f[1] != want_shape[cid]:
            mism += 1
            ck.violation("parsed-shape-differs", "the parser builds another statement tree than the source says (labels, gotos and blocks of the body)",
                         "source:\n%s\nparsed  : %s\nexpected: %s" % (src, f[1], want_shape[cid]))
            continue
        m = model.get(cid, "MODEL-MISSING")
        if verdict.startswith("ok"):
            real = "[]"
        elif verdict.startswith("err codes="):
            real = verdict[len("err codes="):]
        else:
            ck.violation("impl-failure:" + verdict.split(" ")[0], "implementation did not produce a verdict: " + verdict, src)
            continue
        dist[real] += 1
        mm = dict(p.split("=") for p in m.split(" ")) if m.startswith("model=") else {}
        real_sorted = sorted(x for x in real.strip("[]").split(",") if x)
        if real != "[]": distinct.add(f[1])
        if not mm:
            ck.violation("tie-broken:model-error", "model failed: " + m, src); continue
        spec_sorted = sorted(x for x in mm["spec"].strip("[]").split(",") if x)
        if spec_sorted != real_sorted:
            # the specification is the oracle: implementation contradicts the property
            ck.violation("wrong-verdict", "implementation reports %s, the specification (later in same/enclosing block) requires %s" % (real, mm["spec"]),
                         "source:\n%s\nparsed shape: %s\nreal codes: %s\nspec codes: %s\nmodel codes: %s\nreplay: pvh front <file with this source>" % (src, f[1], real, mm["spec"], mm["model"]))
            mism += 1
        elif mm["model"] != real and not cid.startswith("m"):
            # (programs of several erroneous functions: resolver.rs sorts the combined diagnostics by source
            # location, which the model - it has no locations - does not reproduce; the multisets were compared above)
            mism += 1
            ck.violation("tie-broken:correspondence-order", "model and implementation list different codes/orders (model %s, real %s) though the verdict agrees" % (mm["model"], real), src)
    # an illegal jump is rejected (E400/E420) also when something ELSE in the module is wrong: a constant or a structure
    # that fails, before or after the function (the module is rejected either way; the diagnostics of the jump must
    # not get lost behind those of the container)
    faulty = ["fn broken_sibling()\n{\n\tvar x: i32 = ;\n\tgoto done;\n\tdone:\n}\n", "fn broken2()\n{\n\tif\n}\n", "const LIMIT: i32 = true;\n", "struct Dup\n{\n\tm: i32,\n\tm: i32,\n}\n", "const A: i32 = B;\nconst B: i32 = A;\n", "struct Self\n{\n\tinner: Self,\n}\n", "const N: usize = nowhere;\n",
              "word8 Big\n{\n\tx: u64,\n}\n"]
    frng = random.Random(ck.seed + 404)
    rejected = [(cid, src) for cid, src in srcs if not cid.startswith("m") and impl.get(cid, ["?"])[0].startswith("err codes=")]
    fsel = frng.sample(rejected, min(len(rejected), 300 if tier == "quick" else 6000))
    fsrcs = []
    for j, (cid, src) in enumerate(fsel):
        fd = faulty[j % len(faulty)]
        fsrcs.append(("f%s" % cid, (fd + src) if (j // len(faulty)) % 2 == 0 else (src + fd), cid))
        # the condition of every `if` is itself erroneous (an undefined name, operands of different types): the
        # diagnostics of the jumps in and after its branches must survive
        if "r == 0" in src:
            fsrcs.append(("fc%s" % cid, src.replace("r == 0", "nowhere == 0" if j % 2 else "r == true"), cid))
    fimpl = C.run_harness("front", [(a, b) for a, b, _ in fsrcs], ck.work + "/faulty")
    LBL = {"400", "420"}
    fbad = 0
    for fcid, fsrc, cid in fsrcs:
        f = fimpl.get(fcid, ["missing"])
        if not f[0].startswith("err codes="):
            fbad += 1; mism += 1
            ck.violation("illegal-jump-lost:" + (C.failure_key(f[0]) if not f[0].startswith("ok") else "accepted"), "a body with an illegal jump next to a faulty constant/structure: " + f[0][:120], fsrc); continue
        got = sorted(x for x in f[0][len("err codes="):].split(" ")[0].strip("[]").split(",") if x in LBL)
        base = sorted(x for x in impl[cid][0][len("err codes="):].split(" ")[0].strip("[]").split(",") if x in LBL)
        if got != base:
            fbad += 1; mism += 1
            ck.violation("illegal-jump-lost", "next to a faulty constant/structure the label diagnostics of the body are %s, alone they are %s" % (got, base), fsrc)
    ck.log("illegal jumps next to faulty containers: %d programs, %d problems" % (len(fsrcs), fbad))
    # "forward jumps to unique labels are accepted": bodies that also declare and use variables between gotos and
    # labels (the stages that run after the label scoper see its output).  A program is accepted exactly when the
    # three specifications (labels: this property; variables: C05; syntax: C06) have nothing to report, and the
    # label codes are exactly those of the label specification
    import re
    rng2 = random.Random(ck.seed + 44)
    vb = [("v%d" % i, G.program(G.smart_body(rng2, 3, rng2.randint(2, 14), ['r', 'p'], ['a', 'b', 'c', 'return'])).replace("fn main() -> i32", "fn main(p: i32) -> i32")) for i in range(1500 if tier == "quick" else 40000)]
    vimpl = C.run_harness("front", vb, ck.work + "/vars")
    vitems = []
    for cid, _ in vb:
        f = vimpl.get(cid)
        if f and len(f) >= 3 and f[1].startswith("("):
            vitems += [("labels", cid + "L", f[1]), ("syntax", cid + "S", f[1]), ("vars", cid + "V", f[2])]
    vmodel = C.run_model(vitems, ck.work + "/vars")
    vstats = collections.Counter()
    for cid, src in vb:
        f = vimpl.get(cid, ["missing"])
        if not (f[0].startswith("ok") or f[0].startswith("err codes=")):
            ck.violation("impl-failure:" + f[0].split(" ")[0], "implementation did not produce a verdict: " + f[0], src); continue
        real = [] if f[0].startswith("ok") else [x for x in f[0][len("err codes="):].strip("[]").split(",") if x]
        specs = {}
        for suffix in "LSV":
            sp = re.search(r"spec=\[([0-9,]*)\]", vmodel.get(cid + suffix, ""))
            if sp is None:
                specs = None; break
            specs[suffix] = [x for x in sp.group(1).split(",") if x]
        if specs is None:
            ck.violation("tie-broken:model-error", "a specification could not be evaluated", src); continue
        clean = not (specs["L"] or specs["S"] or specs["V"])
        vstats["accepted" if not real else "rejected"] += 1
        if clean and real:
            mism += 1; ck.violation("valid-rejected", "a body whose jumps are all forward to unique labels of the same or an enclosing block, with no variable skipped or out of scope and no misplaced statement, is rejected with %s" % real,
                                    "source:\n%s\nshape: %s" % (src, f[1]))
        elif not clean and not real:
            mism += 1; ck.violation("wrong-verdict", "accepted although the specifications report labels %s, syntax %s, variables %s" % (specs["L"], specs["S"], specs["V"]), "source:\n%s\nshape: %s" % (src, f[1]))
        elif sorted(x for x in real if x in ("400", "420")) != sorted(specs["L"]) and not specs["S"]:
            mism += 1; ck.violation("wrong-verdict", "label codes %s, the specification requires %s" % ([x for x in real if x in ("400", "420")], specs["L"]), "source:\n%s\nshape: %s" % (src, f[1]))
    ck.log("bodies with variables: %d %s" % (len(vb), dict(vstats)))
    if not proof_ok:
        ck.violation("tie-broken:proof", "Props/C04.v no longer checks", getattr(ck, "proof_output", "")[-2000:])
    ck.coverage.update(
        evaluations=len(srcs), distinct_nontrivial=len(distinct),
        rule="all bodies with <=%d statements over {label a/b, goto a/b, if-goto a/b, block, if/else block}, depth<=3 (exhaustive: %d) plus %d random bodies up to 40 statements (a third with brace-less if/else of two gotos) and programs of 2-4 functions sharing label names (all pairs of bodies of <=2 statements, and random ones); non-trivial = rejected body, distinct by parsed shape" % (maxn, nex, len(srcs) - nex),
        exhaustive_part=nex, verdict_distribution=dict(dist.most_common(12)), mismatches=mism,
        samples=[dict(source=srcs[i][1], impl=impl.get(srcs[i][0], ["?"])[0], model=model.get(srcs[i][0])) for i in (nex // 2, nex + 1, len(srcs) - 1)])
    ck.assumptions += ["the statement shape fed to the model is the real parser's output, serialised by harness/src/shape.rs",
                       "diagnostics of the full pipeline (lex..resolve) are compared, so a goto poisoned by the label scoper is what the user sees"]
    return ck.finish()
