"""The tie of Model/MemLower.v (properties C01 / C10): for generated references (a base of
aggregate, pointer, slice or endless-array type followed by element and member steps down to a
scalar) the instructions the real generator emits to compute the storage address - extractvalue,
getelementptr with its index list, load, in order - must be those of the extracted model
(`lower_ref` over the typer's steps as `elaborate` produces them)."""
import random, re, collections
from . import common as C

# (source syntax, model syntax) of the declared types; structures are declared in every program
IN = ("In", "(struct (int 4) (int 8))")
OUT = ("Out", "(struct (int 1) (arr 3 %s) (int 2) (arr 2 (arr 4 (int 8))))" % IN[1])
HOLD = ("Hold", "(struct (ptr %s) (int 1) (ptr (arr 3 (int 8))))" % OUT[1])
DECLS = ("struct In\n{\n\tx: i32,\n\ty: i64,\n}\nstruct Out\n{\n\ta: u8,\n\tarr: [3]In,\n\tb: u16,\n\tm: [2][4]i64,\n}\n"
         "struct Hold\n{\n\tp: &Out,\n\tq: i8,\n\tr: &[3]i64,\n}\n")
MEMBERS = {"In": ["x", "y"], "Out": ["a", "arr", "b", "m"], "Hold": ["p", "q", "r"]}


def parse_ty(sx):
    """model type syntax -> nested python tuples"""
    from .sexp import parse
    return parse(sx)


def bases():
    """(kind, declaration text placed as parameter or local, model type)"""
    i64, i32 = ("i64", "(int 8)"), ("i32", "(int 4)")
    def arr(n, t): return ("[%d]%s" % (n, t[0]), "(arr %d %s)" % (n, t[1]))
    def ptr(t): return ("&" + t[0], "(ptr %s)" % t[1])
    def sliceptr(t): return ("&[]" + t[0], "(sliceptr %s)" % t[1])
    def slice_(t): return ("[]" + t[0], "(slice %s)" % t[1])
    def endless(t): return ("&[..]" + t[0], "(ptr (endless %s))" % t[1])
    out = []
    for t in (OUT, IN, HOLD, arr(5, IN), arr(2, arr(3, i64)), arr(4, OUT)):
        out.append(("local", t))
        out.append(("param", ptr(t)))
    for t in (i64, IN, arr(4, i64), OUT):
        out.append(("param", sliceptr(t)))
        out.append(("param", endless(t)))
    for t in (ptr(i64), ptr(ptr(i64))):
        out.append(("param", slice_(t)))
        out.append(("param", sliceptr(t)))
    out.append(("param", ptr(ptr(OUT))))
    return out


def leaf_paths(t, struct_names, rng, depth=0):
    """one random path from a value of model type t (python tuple form) down to a scalar:
    returns (source suffix, model steps, uses_dynamic_index)"""
    src, steps, dyn = "", [], False
    name = struct_names
    while True:
        head = t[0] if isinstance(t, list) else t
        if head == "int" or t == "bool": return src, steps, dyn
        if head in ("ptr", "view"):
            t = t[1]; continue                     # dereferenced implicitly by the next step (or by the assignment)
        if head in ("arr", "slice", "sliceptr", "endless"):
            n = int(t[1]) if head == "arr" else 3
            e = t[2] if head == "arr" else t[1]
            if rng.random() < 0.5:
                src += "[i]"; steps.append("(e 7)"); dyn = True
            else:
                k = rng.randrange(n); src += "[%d]" % k; steps.append("(e %d)" % k)
            t = e; continue
        if head == "struct":
            ms = t[1:]
            k = rng.randrange(len(ms))
            src += "." + member_name(t, k); steps.append("(m %d)" % k)
            t = ms[k]; continue
        raise ValueError(t)


_NAMES = {}


def member_name(t, k):
    from .sexp import show
    key = show(t)
    for (nm, sx) in (IN, OUT, HOLD):
        if show(parse_ty(sx)) == key: return MEMBERS[nm][k]
    raise KeyError(key)


def cases(rng, n):
    out = []
    bs = bases()
    for i in range(n):
        kind, (tsrc, tsx) = bs[i % len(bs)]
        t = parse_ty(tsx)
        suffix, steps, dyn = leaf_paths(t, None, rng)
        if not steps and kind == "local": continue
        if not steps:
            # a pointer to a scalar: `p = 1` writes through it only for &i64 parameters; skip
            continue
        params = ["i: usize"] + (["v: %s" % tsrc] if kind == "param" else [])
        # a write `v.. = 1;` or a read `var r = v..;` (the value is loaded from the address, then stored to r)
        read = (i // len(bs)) % 2 == 1
        body = ("\tvar v: %s;\n" % tsrc if kind == "local" else "") + ("\tvar r = v%s;\n" % suffix if read else "\tv%s = 1;\n" % suffix)
        src = DECLS + "fn f(%s)\n{\n%s}\nfn main()\n{\n}\n" % (", ".join(params), body)
        out.append(("a%d" % i, src, "(%s %s (%s))" % (kind, tsx, " ".join(steps)), "read" if read else "write", tsrc + suffix))
    return out


def ir_address_instrs(ir):
    """the address computation of the first store in @f"""
    m = re.search(r"define[^\n]*@f\([^\n]*\{\n(.*?)\n\}", ir, re.S)
    if not m: return None
    out = []
    body = m.group(1)
    for line in body.split("\n"):
        line = line.strip()
        if line.startswith("store "): return " ".join(out)
        mm = re.match(r"(%\w+) = extractvalue ", line)
        if mm and len(re.findall(re.escape(mm.group(1)) + r"\b", body)) == 1: continue       # a dead extractvalue (its result is never used)
        mm = re.match(r"%\w+ = extractvalue .*, (\d+)$", line)
        if mm: out.append("X" + mm.group(1)); continue
        if re.match(r"%\w+ = getelementptr ", line):
            idx = []
            # the indices follow the pointer operand: `T, T* %p, i32 0, i64 %1`
            parts = [p.strip() for p in split_top(line.split("getelementptr", 1)[1])][2:]
            for p in parts:
                ty, val = p.rsplit(" ", 1)
                idx.append(val if ty == "i32" and re.fullmatch(r"-?\d+", val) else "?")
            out.append("G[%s]" % ",".join(idx)); continue
        if re.match(r"%\w+ = load ", line): out.append("L"); continue
    return None


def split_top(s):
    out, depth, cur = [], 0, ""
    for ch in s:
        if ch in "([{<": depth += 1
        elif ch in ")]}>": depth -= 1
        if ch == "," and depth == 0:
            out.append(cur); cur = ""
        else: cur += ch
    if cur.strip(): out.append(cur)
    return out


def run(ck, n, seed):
    rng = random.Random(seed)
    cs = cases(rng, n)
    impl = C.run_harness("ir", [(c[0], c[1]) for c in cs], ck.work + "/memlower", timeout=1800)
    model = C.run_model([("memlower", c[0], c[2]) for c in cs], ck.work + "/memlower")
    stats = collections.Counter(); bad = 0; shapes = set()
    for cid, src, sx, kind, ref in cs:
        f = impl.get(cid, ["missing"])
        if not f[0].startswith("ok"):
            if f[0].startswith("err codes="):
                # (before D68/D69 were repaired a third of these references were rejected with E500/E504)
                stats["rejected"] += 1; bad += 1
                ck.violation("valid-rejected:" + f[0], "a well-formed program reading or writing `%s` is rejected: %s" % (ref, f[0]), src)
                continue
            bad += 1; ck.violation(C.failure_key(f[0]), "compiler failed on a reference %s: %s" % (ref, f[0][:200]), src); continue
        ir = C.unesc(f[1]).decode(errors="replace")
        real = ir_address_instrs(ir)
        m = model.get(cid, "MODEL-MISSING")
        want = m.split("\t")[0][len("instrs="):] if m.startswith("instrs=") else None
        if real is None or want is None or want == "none":
            bad += 1; ck.violation("tie-broken:memlower-format", "cannot compare (real %r, model %r)" % (real, m), src + "\n" + ir[:3000]); continue
        if kind == "read": want = (want + " L").strip()          # the value itself is loaded from the address
        stats["compared:" + kind] += 1; shapes.add(re.sub(r"\d+", "n", real))
        if real != want:
            bad += 1
            ck.violation("wrong-address-computation", "the address of `%s` is computed as [%s]; Model/MemLower.v (lower_ref, proved equal to the step-by-step meaning of the reference: lower_ref_sound) says [%s]" % (ref, real, want),
                         "source:\n%s\nmodel input: %s\nIR:\n%s" % (src, sx, ir[:3000]))
    ck.log("memory lowering tie: %d references %s, %d instruction shapes, %d problems" % (len(cs), dict(stats), len(shapes), bad))
    return len(cs), dict(stats), bad
