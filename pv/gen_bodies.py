"""Generators of function bodies built from labels, gotos, conditional gotos,
blocks, if/else blocks, declarations, uses and loops; exhaustive by size and
random.  A body is a list of tuples:
 ('label',n) ('goto',n) ('cgoto',n) ('decl',v) ('use',v) ('loop',) ('block',[..])
 ('if',[..],[..]|None)  ('ifs', then_stmt, else_stmt|None)   (naked branches)
"""
import itertools


SINK = ["r"]   # variable that `use` statements assign to; None: `x = x;` (no other variable needed)


# the expression a `use` of a variable stands in (a pattern with one %s); None: the bare name
USEFORM = [None]


def render(body, ind=1, cond="r == 0", sink="r"):
    old = SINK[0]; SINK[0] = sink
    try:
        s = ""
        for st in body:
            s += render_stmt(st, ind, cond)
        return s
    finally:
        SINK[0] = old


def render_stmt(st, ind, cond="r == 0"):
    t = "\t" * ind
    k = st[0]
    if SINK[0] is None:
        if k == 'use': return "%s%s = %s;\n" % (t, st[1], st[1])
        if k == 'assign': return "%s{\n%s}\n" % (t, t)
    elif SINK[0] != "r":
        if k == 'use': return "%s%s = %s;\n" % (t, SINK[0], st[1])
        if k == 'assign': return "%s%s = %s + 1;\n" % (t, SINK[0], SINK[0])
    if k == 'label': return "%s%s:\n" % (t, st[1])
    if k == 'goto': return "%sgoto %s;\n" % (t, st[1])
    if k == 'cgoto': return "%sif %s\n%s\tgoto %s;\n" % (t, cond, t, st[1])
    if k == 'decl': return "%svar %s: i32 = 1;\n" % (t, st[1])
    if k == 'declu': return "%svar %s: i32 = %s;\n" % (t, st[1], st[2])
    if k == 'raw': return "%s%s\n" % (t, st[1])          # any statement text (errors of other stages inside branches)
    if k == 'declarr':      # an array literal (empty, or of the given variables) opens a scope of its own in the scoper
        return "%svar %s: [%d]i32 = [%s];\n" % (t, st[1], len(st[2]), ", ".join(st[2]))
    if k == 'set': return "%s%s = 5;\n" % (t, st[1])          # the variable is the TARGET of an assignment: a use all the same
    if k == 'use': return "%sr = %s;\n" % (t, (USEFORM[0] or "%s") % st[1])
    if k == 'assign': return "%sr = r + 1;\n" % t
    if k == 'loop': return "%sloop;\n" % t
    if k == 'block': return "%s{\n%s%s}\n" % (t, render(st[1], ind + 1, cond, SINK[0]), t)
    if k == 'if':
        s = "%sif %s\n%s{\n%s%s}\n" % (t, cond, t, render(st[1], ind + 1, cond, SINK[0]), t)
        if st[2] is not None:
            s += "%selse\n%s{\n%s%s}\n" % (t, t, render(st[2], ind + 1, cond, SINK[0]), t)
        return s
    if k == 'ifs':
        s = "%sif %s\n%s" % (t, cond, render_stmt(st[1], ind + 1, cond))
        if st[2] is not None:
            s += "%selse\n%s" % (t, render_stmt(st[2], ind + 1, cond))
        return s
    raise ValueError(k)


def program(body, ret=True):
    return "fn main() -> i32\n{\n\tvar r: i32 = 0;\n" + render(body) + "\treturn: r\n}\n"


def size(body):
    n = 0
    for st in body:
        n += 1
        if st[0] == 'block': n += size(st[1])
        elif st[0] == 'if': n += size(st[1]) + (size(st[2]) if st[2] is not None else 0)
    return n


def enum_bodies(n, depth, leaves, with_else=True):
    """All bodies with exactly n statements (every statement counts, including
    blocks and ifs), nesting depth <= depth, leaf statements from `leaves`."""
    memo = {}
    def bodies(n, depth):
        key = (n, depth)
        if key in memo: return memo[key]
        if n == 0:
            memo[key] = [[]]; return memo[key]
        out = []
        # first statement uses k statements (1..n), rest uses n-k
        for k in range(1, n + 1):
            firsts = stmts(k, depth)
            if not firsts: continue
            rests = bodies(n - k, depth)
            for f in firsts:
                for r in rests:
                    out.append([f] + r)
        memo[key] = out
        return out
    smemo = {}
    def stmts(k, depth):
        key = (k, depth)
        if key in smemo: return smemo[key]
        out = []
        if k == 1:
            out += list(leaves)
        if depth > 0:
            for inner in bodies(k - 1, depth - 1):
                out.append(('block', inner))
            for a in range(0, k):
                for t in bodies(a, depth - 1):
                    if a == k - 1:
                        out.append(('if', t, None))
                    if with_else:
                        for e in bodies(k - 1 - a, depth - 1):
                            out.append(('if', t, e))
        smemo[key] = out
        return out
    return bodies(n, depth)


def random_body(rng, depth, n, leaves, p_block=0.14, p_if=0.10):
    out = []
    for _ in range(n):
        x = rng.random()
        if depth > 0 and x < p_block:
            out.append(('block', random_body(rng, depth - 1, rng.randint(0, 4), leaves, p_block, p_if)))
        elif depth > 0 and x < p_block + p_if:
            t = random_body(rng, depth - 1, rng.randint(0, 3), leaves, p_block, p_if)
            e = random_body(rng, depth - 1, rng.randint(0, 3), leaves, p_block, p_if) if rng.random() < 0.5 else None
            out.append(('if', t, e))
        else:
            out.append(rng.choice(leaves))
    return out


def enum_syntax(n, depth, leaves):
    """All bodies with exactly n statement nodes whose if-branches are arbitrary
    statements (naked or braced), for the syntax analyzer (C06)."""
    bmemo, smemo = {}, {}
    def bodies(n, depth):
        key = (n, depth)
        if key in bmemo: return bmemo[key]
        if n == 0:
            bmemo[key] = [[]]; return bmemo[key]
        out = []
        for k in range(1, n + 1):
            for f in stmts(k, depth):
                for r in bodies(n - k, depth):
                    out.append([f] + r)
        bmemo[key] = out
        return out
    def stmts(k, depth):
        key = (k, depth)
        if key in smemo: return smemo[key]
        out = []
        if k == 1: out += list(leaves)
        if depth > 0:
            for inner in bodies(k - 1, depth - 1):
                out.append(('block', inner))
            for t in stmts(k - 1, depth - 1):
                out.append(('ifs', t, None))
            for a in range(1, k - 1):
                for t in stmts(a, depth - 1):
                    for e in stmts(k - 1 - a, depth - 1):
                        out.append(('ifs', t, e))
        smemo[key] = out
        return out
    return bodies(n, depth)


def random_syntax_stmt(rng, depth, leaves):
    x = rng.random()
    if depth > 0 and x < 0.25:
        return ('block', [random_syntax_stmt(rng, depth - 1, leaves) for _ in range(rng.randint(0, 4))])
    if depth > 0 and x < 0.5:
        t = random_syntax_stmt(rng, depth - 1, leaves)
        e = random_syntax_stmt(rng, depth - 1, leaves) if rng.random() < 0.55 else None
        return ('ifs', t, e)
    return rng.choice(leaves)


def smart_body(rng, depth, n, visible, labels_pool, outer_labels=()):
    """Mostly-valid bodies: uses of visible variables, fresh declarations,
    forward gotos whose labels are placed later in the same block (or left to
    an enclosing block), so that E482 situations (declaration between goto and
    label, use after the label) are frequent."""
    vis = list(visible)
    out = []
    wanted = []   # (label, index after which it may be placed)
    for _ in range(n):
        x = rng.random()
        if x < 0.22:
            pool = [v for v in ('x', 'y', 'z', 'w', 'v', 'u') if v not in vis] or ['x']
            v = rng.choice(pool) if rng.random() < 0.93 else rng.choice(vis or ['x'])
            if vis and rng.random() < 0.4: out.append(('declu', v, rng.choice(vis)))
            else: out.append(('decl', v))
            if v not in vis: vis.append(v)
        elif x < 0.50:
            if vis and rng.random() < 0.95: out.append(('use', rng.choice(vis)))
            else: out.append(('use', rng.choice(['x', 'y', 'q'])))
        elif x < 0.68:
            l = rng.choice(labels_pool)
            out.append((rng.choice(['goto', 'cgoto']), l))
            wanted.append((l, len(out)))
        elif x < 0.80 and depth > 0:
            out.append(('block', smart_body(rng, depth - 1, rng.randint(0, 4), vis, labels_pool)))
        elif x < 0.90 and depth > 0:
            t = smart_body(rng, depth - 1, rng.randint(0, 3), vis, labels_pool)
            e = smart_body(rng, depth - 1, rng.randint(0, 3), vis, labels_pool) if rng.random() < 0.4 else None
            out.append(('if', t, e))
        else:
            out.append(('assign',))
    # place labels for gotos of this block (and of nested blocks, found by scanning)
    def gotos(ss, acc):
        for st in ss:
            if st[0] in ('goto', 'cgoto'): acc.add(st[1])
            elif st[0] == 'block': gotos(st[1], acc)
            elif st[0] == 'if':
                gotos(st[1], acc)
                if st[2] is not None: gotos(st[2], acc)
        return acc
    placed = set()
    for l in sorted(gotos(out, set())):
        if l == 'return' or rng.random() < 0.25: continue
        # earliest position: after the first statement containing a goto to l
        first = next(i for i, st in enumerate(out) if l in gotos([st], set()))
        pos = rng.randint(first + 1, len(out))
        out.insert(pos, ('label', l))
        placed.add(l)
    return out
