def parse(s):
    pos = 0
    n = len(s)
    def one():
        nonlocal pos
        while pos < n and s[pos] == ' ': pos += 1
        if s[pos] == '(':
            pos += 1
            items = []
            while True:
                while pos < n and s[pos] == ' ': pos += 1
                if s[pos] == ')':
                    pos += 1
                    return items
                items.append(one())
        st = pos
        while pos < n and s[pos] not in ' ()': pos += 1
        return s[st:pos]
    return one()


def show(x):
    return x if isinstance(x, str) else "(" + " ".join(show(y) for y in x) + ")"
