"""The `opcodes` correspondence: for every (operator, primitive type) and every
(source, destination) cast pair a one-line function is compiled by the real
compiler; acceptance and the selected LLVM opcode are compared with the tables
the translator generated (Gen/ResolverTables.v, Gen/LowerTables.v)."""
import re
from . import common as C

PRIMS = ["i8", "i16", "i32", "i64", "i128", "u8", "u16", "u32", "u64", "u128", "usize", "char8", "bool"]
BINOPS = ["+", "-", "*", "/", "%", "&", "|", "^", "<<", ">>"]
UNOPS = ["-", "!"]
CMPOPS = ["==", "!=", ">", ">=", "<", "<="]
WIDTH = {"i8": 8, "i16": 16, "i32": 32, "i64": 64, "i128": 128, "u8": 8, "u16": 16, "u32": 32, "u64": 64, "u128": 128, "usize": 64, "char8": 8, "bool": 1}


def sources():
    out = []
    for t in PRIMS:
        for op in BINOPS:
            out.append(("B %s %s" % (op, t), "fn f(a: %s, b: %s) -> %s\n{\n\treturn: a %s b\n}\n" % (t, t, t, op)))
        for op in UNOPS:
            out.append(("U %s %s" % (op, t), "fn f(a: %s) -> %s\n{\n\treturn: %sa\n}\n" % (t, t, op)))
        for op in CMPOPS:
            out.append(("C %s %s" % (op, t), "fn f(a: %s, b: %s) -> bool\n{\n\tvar r: bool = false;\n\tif a %s b\n\t{\n\t\tr = true;\n\t}\n\treturn: r\n}\n" % (t, t, op)))
        for d in PRIMS:
            out.append(("K %s %s" % (t, d), "fn f(a: %s) -> %s\n{\n\treturn: a as %s\n}\n" % (t, d, d)))
    return out


def table(work, usize_bits=64):
    res = C.run_model([("tables", "t", str(usize_bits))], work, jobs=1)
    tab = {}
    types = {}
    for ent in res.get("t", "").split(";"):
        f = ent.split(" ")
        if len(f) == 5 and f[0] in "BUCK":
            tab["%s %s %s" % (f[0], f[1], f[2])] = (f[3] == "true", f[4])
        elif f and f[0] == "T":
            types[f[1]] = dict(min=int(f[2]), max=int(f[3]), bits=int(f[4]), signed=f[5] == "true", integral=f[6] == "true")
    return tab, types


def observed_opcode(kind, ir, key):
    """What the real IR of function f contains."""
    body = ir[ir.find("@f("):] if "@f(" in ir else ir
    lines = [l.strip() for l in body.split("\\n")]
    ops = []
    for l in lines:
        m = re.match(r"%\w+ = (add|sub|mul|sdiv|udiv|srem|urem|and|or|xor|shl|lshr|ashr|icmp|trunc|sext|zext|bitcast|getelementptr)\b(.*)", l)
        if m: ops.append((m.group(1), m.group(2)))
    if kind == "C":
        for o, rest in ops:
            if o == "icmp": return rest.split()[0]
        return "no-icmp"
    if kind == "K":
        for o, rest in ops:
            if o in ("trunc", "sext", "zext"): return o
        return "none"
    if kind == "U":
        for o, rest in ops:
            flags = " ".join(w for w in rest.split() if w in ("nsw", "nuw"))
            if o == "sub" and re.search(r"\b0, %", rest): return ("neg " + flags).strip()
            if o == "xor" and re.search(r", (-1|true)$", rest): return "not"
        return "none:" + ",".join(o for o, _ in ops)
    for o, rest in ops:
        if o in ("add", "sub", "mul", "sdiv", "udiv", "srem", "urem", "and", "or", "xor", "shl", "lshr", "ashr"):
            flags = " ".join(w for w in rest.split() if w in ("nsw", "nuw", "exact"))
            return (o + " " + flags).strip()
    return "none:" + ",".join(o for o, _ in ops)


def run(ck):
    """Returns (n_cases, mismatches list).  Reports violations on ck."""
    srcs = sources()
    impl = C.run_harness("ir", srcs, ck.work + "/opcodes")
    tab, types = table(ck.work)
    mism = []
    accepted = 0
    for key, src in srcs:
        f = impl.get(key, ["missing"])
        want_ok, want_op = tab.get(key, (None, None))
        kind = key[0]
        if kind == "K" and key.split()[1] == key.split()[2]:
            # `x as T` with x : T is a type hint (resolver: value_type == coerced_type => no code)
            want_ok, want_op = True, "none"
        if want_ok is None:
            mism.append((key, "no table entry")); continue
        got_ok = f[0].startswith("ok")
        if not got_ok and not f[0].startswith("err codes="):
            ck.violation("impl-failure:" + f[0].split(" ")[0], "compiler failed on %s: %s" % (key, f[0]), src); continue
        if got_ok != want_ok:
            mism.append((key, "accepted=%s but table says %s (%s)" % (got_ok, want_ok, f[0])))
            continue
        if got_ok:
            accepted += 1
            got = observed_opcode(kind, f[1], key)
            exp = want_op
            if kind == "K":
                s, d = key.split()[1:]
                if exp in ("sext", "zext") and WIDTH[s] == WIDTH[d]: exp = "none"
            if got != exp:
                mism.append((key, "IR uses '%s', table says '%s'" % (got, exp)))
    return len(srcs), accepted, mism, types
