"""Failing / near-valid inputs: mutated corpus files, generated programs with
injected faults, token soup, CRLF / multi-byte variants."""
import glob, os, random, re
from . import common as C
from . import gen_prog as GP

TOKEN_RE = re.compile(r'//[^\n]*|"(?:\\.|[^"\\\n])*"|\'(?:\\.|[^\'\\\n])*\'|[A-Za-z_][A-Za-z0-9_]*!?|0x[0-9a-fA-F_]+|0b[01_]+|[0-9][0-9_]*[a-z0-9]*|==|!=|<=|>=|<<|>>|->|\|:|\.\.|\s+|.', re.S)
VOCAB = ["fn", "var", "const", "if", "else", "goto", "loop", "pub", "extern", "import", "struct", "word8", "word64", "as", "cast",
         "i32", "u8", "bool", "usize", "char8", "[]", "&", "(", ")", "{", "}", "[", "]", ";", ":", ",", ".", "=", "==", "!=", "<", ">",
         "+", "-", "*", "/", "%", "|", "^", "!", "<<", ">>", "->", "|:", "..", "x", "y", "main", "foo", "return", "0", "1", "255u8",
         "0x1F", "0b101", "'a'", '"s"', "true", "false", "_", "print!", "17i64"]


def corpus(repo=None):
    repo = repo or C.REPO
    files = []
    for pat in ("tests/samples/valid/*.pn", "tests/samples/invalid/*.pn", "examples/*.pn", "core/**/*.pn", "vendor/**/*.pn"):
        files += sorted(glob.glob(os.path.join(repo, pat), recursive=True))
    out = []
    for f in files:
        try: out.append((os.path.relpath(f, repo), open(f, encoding="utf-8").read()))
        except UnicodeDecodeError: pass
    return out


def tokens(src):
    return TOKEN_RE.findall(src)


def mutate(rng, src, n=None):
    toks = tokens(src)
    sig = [i for i, t in enumerate(toks) if not t.isspace() and not t.startswith("//")]
    if not sig: return src
    for _ in range(n or rng.choice([1, 1, 1, 2, 3])):
        k = rng.random()
        i = rng.choice(sig)
        if k < 0.25: toks[i] = ""
        elif k < 0.45: toks[i] = toks[i] + " " + toks[i]
        elif k < 0.65:
            j = rng.choice(sig); toks[i], toks[j] = toks[j], toks[i]
        elif k < 0.9: toks[i] = rng.choice(VOCAB)
        else: toks[i] = rng.choice(["zz9", "€", "é", "\\", "#", "@", "'", '"', "\x7f", "0x", "99999999999999999999999999999999999999999"])
    return "".join(toks)


def soup(rng, n):
    return " ".join(rng.choice(VOCAB) for _ in range(n)) + rng.choice(["", "\n"])


def crlf(src): return src.replace("\r\n", "\n").replace("\n", "\r\n")


def relayout(rng, src, p=0.25):
    """the same tokens with line breaks (and some indentation) at random places between them:
    every construct may now span several lines"""
    toks = tokens(src)
    out = []
    for t in toks:
        if t.isspace() and "\n" not in t and rng.random() < p: out.append(rng.choice(["\n", "\n\t", "\n\n", "\n  "]))
        elif not t.isspace() and not t.startswith("//") and out and not out[-1].isspace() and rng.random() < p / 3: out.append("\n"); out.append(t)
        else: out.append(t)
    return "".join(out)


def generated(rng, faults=1):
    g = GP.Gen(random.Random(rng.getrandbits(64)))
    src = GP.source(g.program(), random.Random(rng.getrandbits(32)), plain=rng.random() < 0.5)
    return mutate(rng, src, faults) if faults else src


def stream(rng, n, repo=None):
    """Yields (kind, source) pairs: a mix of everything."""
    cor = corpus(repo)
    out = []
    for i in range(n):
        k = i % 10
        if k < 4:
            name, src = rng.choice(cor)
            s = mutate(rng, src)
            if rng.random() < 0.1: s = crlf(s)
            out.append(("mut:" + name, s))
        elif k < 7: out.append(("gen-fault", generated(rng, rng.choice([1, 1, 2, 3]))))
        elif k < 8:
            if i % 20 < 10: out.append(("soup", soup(rng, rng.randint(1, 30))))
            else: out.append(("gen-fault-relayout", relayout(rng, generated(rng, rng.choice([1, 1, 2])))))
        elif k < 9:
            s = generated(rng, 1)
            out.append(("gen-fault-crlf", crlf(s)))
        else:
            name, src = rng.choice(cor)
            out.append(("corpus:" + name, src))
    return out
