"""Shared machinery of the checks: builds (translator, Coq, extraction, harness),
running the implementation harness and the extracted model on the same cases,
evidence files, known findings, violation reports."""
import fcntl, hashlib, json, os, re, subprocess, sys, time, glob, shutil
from concurrent.futures import ThreadPoolExecutor

VERIF = os.path.dirname(os.path.dirname(os.path.abspath(__file__)))
REPO = os.environ.get("PV_REPO", "/repo")
CACHE = os.path.join(VERIF, ".cache")
COQ = os.path.join(VERIF, "coq")
THEORIES = os.path.join(COQ, "theories")
EXTRACT = os.path.join(VERIF, "extract")
HARNESS = os.path.join(VERIF, "harness")
TARGET = os.path.join(CACHE, "target")
PVH = os.path.join(TARGET, "debug", "pvh")
PVH_RELEASE = os.path.join(TARGET, "release", "pvh")
DRIVER = os.path.join(EXTRACT, "driver")
NPROC = int(os.environ.get("PV_JOBS", "16"))

FORBIDDEN = re.compile(
    r"\b(Admitted|admit|Axiom|Axioms|Parameter|Parameters|Conjecture|Conjectures|"
    r"Unset\s+Guard|bypass_check|Admit\s+Obligations|type-in-type|impredicative-set|"
    r"Unset\s+Positivity|Unset\s+Universe)\b")


def env():
    e = dict(os.environ)
    e["PATH"] = os.path.join(VERIF, "tools", "llvmwrap") + ":" + e.get("PATH", "")
    e["CARGO_NET_OFFLINE"] = "true"
    e["CARGO_TARGET_DIR"] = TARGET
    e.setdefault("RUSTFLAGS", "--cfg penne_verif")
    return e


def sh(cmd, timeout=600, cwd=None, input=None, check=False):
    p = subprocess.run(cmd, cwd=cwd, env=env(), input=input, capture_output=True,
                       timeout=timeout, shell=isinstance(cmd, str))
    if check and p.returncode != 0:
        raise RuntimeError("command failed: %s\n%s\n%s" % (cmd, p.stdout.decode(errors="replace")[-3000:],
                                                          p.stderr.decode(errors="replace")[-3000:]))
    return p


class Lock:
    def __init__(self, name):
        os.makedirs(CACHE, exist_ok=True)
        self.path = os.path.join(CACHE, name + ".lock")
    def __enter__(self):
        self.f = open(self.path, "w")
        fcntl.flock(self.f, fcntl.LOCK_EX)
    def __exit__(self, *a):
        fcntl.flock(self.f, fcntl.LOCK_UN)
        self.f.close()


# ---------------------------------------------------------------------------
# builds
# ---------------------------------------------------------------------------

def translate():
    """Regenerate coq/theories/Gen/*.v from REPO.  Returns dict fragment -> status."""
    sys.path.insert(0, os.path.join(VERIF, "translator"))
    import rust2coq
    return rust2coq.generate(REPO, os.path.join(THEORIES, "Gen"))


def coq_project():
    files = sorted(glob.glob(os.path.join(THEORIES, "**", "*.v"), recursive=True))
    rel = [os.path.relpath(f, COQ) for f in files]
    text = "-Q theories PV\n-arg -w -arg -notation-overridden,-deprecated-hint-without-locality,-deprecated-instance-without-locality\n" + "\n".join(rel) + "\n"
    p = os.path.join(COQ, "_CoqProject")
    old = open(p).read() if os.path.exists(p) else None
    if old != text or not os.path.exists(os.path.join(COQ, "Makefile")):
        open(p, "w").write(text)
        sh(["coq_makefile", "-f", "_CoqProject", "-o", "Makefile"], cwd=COQ, check=True)


def coq_make(targets, timeout=1500):
    """make the given .vo targets (paths relative to coq/).  Returns (ok, output)."""
    with Lock("coq"):
        coq_project()
        p = sh(["make", "-j%d" % NPROC] + targets, cwd=COQ, timeout=timeout)
        out = p.stdout.decode(errors="replace") + p.stderr.decode(errors="replace")
        return p.returncode == 0, out


def coq_prop(prop):
    """Re-check Props/<prop>.v (always recompiled so that Print Assumptions is
    produced by this run).  Returns dict(ok, output, assumptions, theorems...)."""
    rel = "theories/Props/%s.vo" % prop
    with Lock("coq"):
        coq_project()
        for ext in (".vo", ".vok", ".vos", ".glob"):
            try: os.remove(os.path.join(COQ, rel[:-3] + ext))
            except FileNotFoundError: pass
        t0 = time.time()
        p = sh(["make", "-j%d" % NPROC, rel], cwd=COQ, timeout=1500)
        out = p.stdout.decode(errors="replace") + p.stderr.decode(errors="replace")
    src = open(os.path.join(COQ, rel[:-1])).read()
    theorems = re.findall(r"^(?:Theorem|Lemma|Corollary|Example|Fact)\s+(\w+)", src, re.M)
    pins = re.findall(r"^Check\s+(\w+)\s*:", src, re.M)
    # assumptions: one block per Print Assumptions
    asked = re.findall(r"^Print Assumptions\s+(\w+)\.", src, re.M)
    blocks = []
    cur = None
    for line in out.splitlines():
        if line.startswith("Closed under the global context"):
            blocks.append([]); cur = None
        elif line.startswith("Axioms:"):
            cur = []; blocks.append(cur)
        elif cur is not None and (line.startswith(" ") or ":" in line) and not line.startswith("COQ"):
            cur.append(line.strip())
        else:
            cur = None
    assumptions = {}
    for i, name in enumerate(asked):
        assumptions[name] = blocks[i] if i < len(blocks) else ["<missing output>"]
    deps = prop_dependencies(prop)
    return dict(ok=(p.returncode == 0), output=out, theorems=theorems, pins=pins,
                assumptions=assumptions, deps=deps, wall=time.time() - t0)


def prop_dependencies(prop):
    """Proof and model files Props/<prop>.v (transitively) imports."""
    seen, todo = [], ["Props/%s.v" % prop]
    while todo:
        f = todo.pop()
        if f in seen: continue
        seen.append(f)
        try: src = open(os.path.join(THEORIES, f)).read()
        except FileNotFoundError: continue
        for m in re.finditer(r"From PV Require (?:Import|Export)([^.]*(?:\.[A-Za-z][^.]*)*)\.", src):
            for mod in m.group(1).split():
                todo.append(mod.replace(".", "/") + ".v")
    return sorted(seen)


def count_obligations(files):
    n = q = 0
    names = []
    for f in files:
        try: src = open(os.path.join(THEORIES, f)).read()
        except FileNotFoundError: continue
        src = strip_comments(src)
        found = re.findall(r"^\s*(?:Theorem|Lemma|Corollary|Example|Fact|Remark)\s+(\w+)", src, re.M)
        names += found
        n += len(found)
        q += len(re.findall(r"\b(?:Qed|Defined)\.", src))
    return n, q, names


def strip_comments(src):
    out, depth, i = [], 0, 0
    while i < len(src):
        if src.startswith("(*", i): depth += 1; i += 2
        elif src.startswith("*)", i) and depth > 0: depth -= 1; i += 2
        else:
            if depth == 0: out.append(src[i])
            i += 1
    return "".join(out)


def audit():
    """Forbidden vernacular anywhere in the development (comments stripped)."""
    bad = []
    for f in sorted(glob.glob(os.path.join(THEORIES, "**", "*.v"), recursive=True)) + [os.path.join(EXTRACT, "Extract.v")]:
        src = strip_comments(open(f).read())
        for m in FORBIDDEN.finditer(src):
            bad.append("%s: %s" % (os.path.relpath(f, VERIF), m.group(0)))
        for m in re.finditer(r"^\s*(Variable|Variables|Hypothesis|Hypotheses|Context)\b", src, re.M):
            # allowed only inside a Section
            before = src[:m.start()]
            if len(re.findall(r"^\s*Section\s+\w+", before, re.M)) <= len(re.findall(r"^\s*End\s+\w+", before, re.M)) - len(re.findall(r"^\s*Module\s+\w+", before, re.M)):
                bad.append("%s: %s outside section" % (os.path.relpath(f, VERIF), m.group(1)))
    return bad


def build_models():
    """Compile all Model/*.v, extract them, build the OCaml driver (cached by hash)."""
    models = sorted(glob.glob(os.path.join(THEORIES, "Model", "*.v")))
    translate()
    ok, out = coq_make(["theories/Gen/Linkage.vo"] + [os.path.relpath(m, COQ) + "o" for m in models] + ["theories/Proofs/VarScopeProofs.vo", "theories/Proofs/ResolveProofs.vo"])
    if not ok:
        return False, out
    with Lock("extract"):
        h = hashlib.sha256()
        for f in models + sorted(glob.glob(os.path.join(THEORIES, "Gen", "*.v"))) + sorted(glob.glob(os.path.join(THEORIES, "Base", "*.v"))) + [os.path.join(EXTRACT, "Extract.v"), os.path.join(EXTRACT, "driver.ml")]:
            h.update(open(f, "rb").read())
        stamp = os.path.join(EXTRACT, "gen", ".stamp")
        if os.path.exists(DRIVER) and os.path.exists(stamp) and open(stamp).read() == h.hexdigest():
            return True, "cached"
        gen = os.path.join(EXTRACT, "gen")
        shutil.rmtree(gen, ignore_errors=True)
        os.makedirs(gen)
        p = sh(["coqc", "-Q", THEORIES, "PV", os.path.join(EXTRACT, "Extract.v")], cwd=gen, timeout=600)
        if p.returncode != 0:
            return False, p.stdout.decode() + p.stderr.decode()
        for junk in glob.glob(os.path.join(EXTRACT, "Extract.vo*")) + glob.glob(os.path.join(EXTRACT, "Extract.glob")) + glob.glob(os.path.join(EXTRACT, ".Extract.aux")):
            os.remove(junk)
        shutil.copy(os.path.join(EXTRACT, "driver.ml"), gen)
        p = sh("ocamlfind ocamlopt -O2 -w -a $(ocamlfind ocamldep -sort *.mli *.ml) -o ../driver", cwd=gen, timeout=600)
        if p.returncode != 0:
            return False, p.stdout.decode() + p.stderr.decode()
        open(stamp, "w").write(h.hexdigest())
        return True, "built"


def build_harness(release=False):
    with Lock("cargo"):
        lock = os.path.join(HARNESS, "Cargo.lock")
        cmd = ["cargo", "build", "--offline", "--quiet"] + (["--release"] if release else [])
        if not os.path.exists(lock):
            shutil.copy(os.path.join(REPO, "Cargo.lock"), lock)
        p = sh(cmd, cwd=HARNESS, timeout=3000)
        if p.returncode != 0 and b"lock file" in p.stderr:
            shutil.copy(os.path.join(REPO, "Cargo.lock"), lock)
            p = sh(cmd, cwd=HARNESS, timeout=3000)
        return p.returncode == 0, p.stderr.decode(errors="replace")[-4000:]


# ---------------------------------------------------------------------------
# running cases
# ---------------------------------------------------------------------------

def split_modules(payload):
    """[(path, source)] of a multi-module payload ("//// module <path>" separators), as harness/src/ir.rs does"""
    if not payload.startswith("//// module "): return [("case.pn", payload)]
    out = []
    for line in payload.split("\n"):
        if line.startswith("//// module "): out.append([line[len("//// module "):].strip(), ""])
        elif out: out[-1][1] += line + "\n"
    return [(n, s) for n, s in out]


def esc(b):
    if isinstance(b, str): b = b.encode()
    out = []
    for c in b:
        if c == 10: out.append("\\n")
        elif c == 9: out.append("\\t")
        elif c == 13: out.append("\\r")
        elif c == 92: out.append("\\\\")
        elif 32 <= c <= 126: out.append(chr(c))
        else: out.append("\\x%02x" % c)
    return "".join(out)


def unesc(s):
    out = bytearray(); i = 0
    b = s.encode()
    while i < len(b):
        if b[i] == 92 and i + 1 < len(b):
            c = b[i + 1]
            if c == ord('n'): out.append(10); i += 2
            elif c == ord('t'): out.append(9); i += 2
            elif c == ord('r'): out.append(13); i += 2
            elif c == 92: out.append(92); i += 2
            elif c == ord('x'): out.append(int(b[i + 2:i + 4], 16)); i += 4
            else: out.append(b[i]); i += 1
        else: out.append(b[i]); i += 1
    return bytes(out)


def _chunks(items, k):
    k = max(1, min(k, len(items)))
    n = (len(items) + k - 1) // k
    return [items[i:i + n] for i in range(0, len(items), max(n, 1))]


def run_harness(stream, cases, workdir, jobs=NPROC, timeout=900, binary=None, extra=()):
    """cases: list of (id, payload bytes/str).  Returns dict id -> list of fields
    (tab separated output after the id).  A shard that dies marks the remaining
    cases of the shard as 'crash:<status>' after re-running them one by one."""
    os.makedirs(workdir, exist_ok=True)
    binary = binary or PVH
    res = {}
    shards = _chunks(cases, jobs)
    def run_shard(idx_shard):
        idx, shard = idx_shard
        path = os.path.join(workdir, "%s.%d.cases" % (stream, idx))
        with open(path, "w") as f:
            for cid, payload in shard:
                f.write("%s\t%s\n" % (cid, esc(payload)))
        p = sh([binary, stream, path] + list(extra), timeout=timeout)
        out = {}
        for line in p.stdout.decode(errors="replace").splitlines():
            parts = line.split("\t")
            if len(parts) >= 2: out[parts[0]] = parts[1:]
        if p.returncode != 0:
            # isolate the crashing case(s)
            for cid, payload in shard:
                if cid in out: continue
                single = os.path.join(workdir, "%s.%d.single" % (stream, idx))
                with open(single, "w") as f: f.write("%s\t%s\n" % (cid, esc(payload)))
                try:
                    q = sh([binary, stream, single] + list(extra), timeout=60)
                    got = None
                    for line in q.stdout.decode(errors="replace").splitlines():
                        parts = line.split("\t")
                        if len(parts) >= 2 and parts[0] == cid: got = parts[1:]
                    if got is not None: out[cid] = got
                    else:
                        err = q.stderr.decode(errors="replace").strip().splitlines()
                        out[cid] = ["crash:%d %s" % (q.returncode, (err[-1] if err else "")[:160])]
                except subprocess.TimeoutExpired:
                    out[cid] = ["timeout"]
        return out
    with ThreadPoolExecutor(max_workers=jobs) as ex:
        for out in ex.map(run_shard, enumerate(shards)):
            res.update(out)
    # a compilation that fails WITHOUT any diagnostic is neither "accepted" nor "rejected with codes": no check may
    # read it as either (property C02 names it; every other check reports it as an implementation failure)
    for cid, f in res.items():
        if f and (f[0] == "err codes=[]" or f[0].startswith("err codes=[] ")):
            f[0] = "silent-failure" + f[0][len("err codes=[]"):]
    return res


def run_model(items, workdir, jobs=NPROC, timeout=900):
    """items: list of (stream, id, sexp).  Returns dict id -> result string."""
    os.makedirs(workdir, exist_ok=True)
    res = {}
    def run_shard(shard):
        data = "".join("%s\t%s\t%s\n" % it for it in shard).encode()
        p = sh([DRIVER], input=data, timeout=timeout)
        out = {}
        for line in p.stdout.decode(errors="replace").splitlines():
            parts = line.split("\t", 1)
            if len(parts) == 2: out[parts[0]] = parts[1]
        if p.returncode != 0:
            for it in shard:
                out.setdefault(it[1], "MODEL-CRASH " + p.stderr.decode(errors="replace")[-200:].replace("\n", " "))
        return out
    with ThreadPoolExecutor(max_workers=jobs) as ex:
        for out in ex.map(run_shard, _chunks(items, jobs)):
            res.update(out)
    return res


# ---------------------------------------------------------------------------
# findings, evidence, verdicts
# ---------------------------------------------------------------------------

def known_findings(prop):
    out = []
    p = os.path.join(VERIF, "known_findings.txt")
    if not os.path.exists(p): return out
    for line in open(p):
        line = line.strip()
        m = re.match(r"finding:\s+property=(\w+)\s+key=(\S+)\s+(?:witness=(\S+)\s+)?(.*)", line)
        if m and m.group(1) == prop:
            out.append((m.group(2), m.group(4), m.group(3)))
    return out


_SITE_CACHE = {}


def panic_site(file, line):
    """A panic site that survives unrelated edits of the file: enclosing function
    and ordinal of the panicking macro in it ("typer.rs:analyze_assignment_steps#2")
    instead of the line number.  Falls back to the line when the source is not found."""
    key = (file, line)
    if key in _SITE_CACHE: return _SITE_CACHE[key]
    res = "%s:%d" % (file, line)
    try:
        path = os.path.join(REPO, "src", file)
        lines = open(path, errors="replace").read().split("\n")
        fn, start = None, 0
        for i in range(min(line, len(lines)) - 1, -1, -1):
            m = re.match(r"\s*(?:pub(?:\([a-z]+\))? )?(?:const )?(?:unsafe )?fn (\w+)", lines[i])
            if m:
                fn, start = m.group(1), i; break
        if fn:
            pat = re.compile(r"\b(?:unreachable|unimplemented|todo|panic|assert|assert_eq|assert_ne)!|\.unwrap\(\)|\.expect\(")
            n = sum(1 for l in lines[start:line] if pat.search(l))
            # several functions of one name (impl blocks): add the ordinal of the function among its namesakes
            same = [j for j, l in enumerate(lines[:start + 1]) if re.match(r"\s*(?:pub(?:\([a-z]+\))? )?(?:const )?(?:unsafe )?fn %s\b" % fn, l)]
            res = "%s:%s%s#%d" % (file, fn, "" if len(same) <= 1 else "~%d" % len(same), n)
    except OSError:
        pass
    _SITE_CACHE[key] = res
    return res


def failure_key(verdict):
    """Key of an implementation failure: panic site (file:function#ordinal), signal, timeout."""
    first = verdict.split(" ")[0]
    if first.startswith("crash:") and "stack overflow" in verdict: return "impl-failure:stack-overflow"
    if first.startswith("crash:") and "Linking globals named" in verdict and "symbol multiply defined" in verdict:
        return "impl-failure:llvm-link:symbol-multiply-defined"      # LLVM's linker prints this and ends the process
    if first == "silent-failure": return "impl-failure:silent-failure"
    if first.startswith("internal-error:"): return "impl-failure:" + first[:70]
    m = re.match(r"panic@(.*):(\d+)$", first)
    if m: return "impl-failure:panic@" + panic_site(m.group(1), int(m.group(2)))
    if first.startswith("panic@"): return "impl-failure:" + first
    if first.startswith("crash:"): return "impl-failure:" + first
    return "impl-failure:" + first.split(":")[0]


class Check:
    def __init__(self, prop, tier, level="proof"):
        self.prop, self.tier, self.level = prop, tier, level
        self.seed = int(os.environ.get("VERIF_SEED", "20260925"))
        self.t0 = time.time()
        self.coverage = {}
        self.assumptions = []
        self.violations = []     # (key, description, replay_text)
        self.known_hit = {}      # key -> description
        kf = known_findings(prop)
        self.known = {k: d for k, d, w in kf}
        self.known_witness = {k: w for k, d, w in kf if w}
        self.witness_runner = None   # callable(source text) -> violation key or None
        self.work = os.path.join(CACHE, "work", prop)
        shutil.rmtree(self.work, ignore_errors=True)
        os.makedirs(self.work, exist_ok=True)
        self.notes = []

    def log(self, *a):
        print("[%s %6.1fs]" % (self.prop, time.time() - self.t0), *a, flush=True)

    def violation(self, key, description, replay_text):
        """Report a failing case.  `key` classifies it for the known-findings file."""
        for k in self.known:
            if key == k or (k.endswith("*") and key.startswith(k[:-1])):
                self.known_hit.setdefault(k, self.known[k])
                return
        self.violations.append((key, description, replay_text))

    def finish(self):
        os.makedirs(os.path.join(VERIF, "evidence", "replay"), exist_ok=True)
        for old in glob.glob(os.path.join(VERIF, "evidence", "replay", "%s-*.txt" % self.prop)):
            os.remove(old)
        # listed findings: re-run the stored witness, so that the line is printed
        # exactly while the witness still fails
        if self.witness_runner is not None:
            for k, w in sorted(self.known_witness.items()):
                if k in self.known_hit: continue
                try:
                    src = open(os.path.join(VERIF, w), encoding="utf-8", newline="").read()
                    got = self.witness_runner(src)
                except Exception as e:
                    got = None; self.log("witness %s could not be run: %s" % (w, e))
                if got is not None and (got == k or (k.endswith("*") and got.startswith(k[:-1]))):
                    self.known_hit[k] = self.known[k]
                else:
                    self.log("listed finding %s: witness %s no longer fails (got %s)" % (k, w, got))
        for k, d in sorted(self.known_hit.items()):
            print("KNOWN-FINDING: property=%s %s (%s)" % (self.prop, d, k))
        seen = set(); n = 0
        for key, desc, replay in self.violations:
            if key in seen: continue
            seen.add(key); n += 1
            if n > 10: break
            path = os.path.join(VERIF, "evidence", "replay", "%s-%d.txt" % (self.prop, n))
            with open(path, "w") as f:
                f.write("property: %s\nkey: %s\nwhat: %s\n\n%s\n" % (self.prop, key, desc, replay))
            tail = " no-failing-input-found" if key.startswith("tie-broken") else ""
            print("VIOLATION property=%s replay=%s%s" % (self.prop, path, tail), flush=True)
        ev = dict(property_id=self.prop, tier=self.tier, seed=self.seed, level=self.level,
                  coverage=self.coverage, assumptions=self.assumptions,
                  wall_s=round(time.time() - self.t0, 2), violations=len(seen))
        if self.known_hit:
            ev["coverage"]["known_findings_reproduced"] = sorted(self.known_hit)
        with open(os.path.join(VERIF, "evidence", "%s.json" % self.prop), "w") as f:
            json.dump(ev, f, indent=1, sort_keys=True)
        self.log("done: %d violation(s), %d known finding(s)" % (len(seen), len(self.known_hit)))
        return 1 if seen else 0

    # -- the proof side, common to all properties --------------------------------
    def prove(self, extra_trusted=()):
        """Translate tables, re-check Props/<prop>.v, audit.  Fills coverage.
        Returns True when every obligation is discharged."""
        st = translate()
        bad_frag = {k: v for k, v in st.items() if v != "ok"}
        r = coq_prop(self.prop)
        files = r["deps"]
        n, q, names = count_obligations(files)
        bad = audit()
        # a fragment the translator could not read leaves a stale table behind: the theorems over it are then
        # not about the current source, so the obligation counts as broken
        import rust2coq
        stale = sorted(k for k, v in bad_frag.items() if any(f.endswith("/Gen/" + g) or f.endswith("Gen/" + g) for g in rust2coq.FRAGMENT_FILES.get(k, []) for f in files))
        if stale:
            r["ok"] = False
            r["output"] = "translator could not regenerate %s from /repo: %s\n%s" % (", ".join(stale), "; ".join(bad_frag[k] for k in stale), r.get("output", ""))
        ok = r["ok"] and not bad and q >= n
        axioms = sorted({a for v in r["assumptions"].values() for a in v})
        self.coverage.update(
            obligations=n, discharged=(n if ok else 0),
            checker_cmd="make -C coq theories/Props/%s.vo  (coqc 8.16.1, full .vo build; Props file recompiled on every run)" % self.prop,
            theorems=r["theorems"], proof_files=files,
            print_assumptions={k: (v or ["Closed under the global context"]) for k, v in r["assumptions"].items()},
            trusted_base=[
                "Coq 8.16.1 kernel (coqc; vm_compute used inside proofs; no native_compute)",
                "axioms reported by Print Assumptions: %s" % (", ".join(axioms) if axioms else "none (closed under the global context)"),
                "translator/rust2coq.py (regenerates coq/theories/Gen/*.v from /repo on every run)",
                "extraction with ExtrOcamlBasic only (no Extract Constant / Extract Inductive of our own), extract/driver.ml, OCaml 4.13.1",
                "harness crate pvh (serialisers), python generators and canonicalisation in pv/",
            ] + list(extra_trusted),
            translator_status=st, audit=bad)
        if ok and self.tier == "thorough":
            # the independent checker re-checks the compiled property file and everything it depends on
            t0 = time.time()
            p = sh(["coqchk", "-o", "-silent", "-Q", "theories", "PV", "PV.Props." + self.prop], cwd=COQ, timeout=3000)
            txt = (p.stdout + p.stderr).decode(errors="replace")
            m = re.search(r"\* Axioms:\s*(.*?)\n\s*\n", txt, re.S)
            ax = re.sub(r"\s+", " ", m.group(1)).strip() if m else "?"
            self.coverage["coqchk"] = dict(exit=p.returncode, axioms=ax, seconds=round(time.time() - t0, 1),
                                           type_in_type="<none>" in txt.split("type-in-type:")[-1][:40] if "type-in-type:" in txt else None)
            self.log("coqchk: exit %d, axioms: %s (%.0f s)" % (p.returncode, ax, time.time() - t0))
            if p.returncode != 0 or ax != "<none>":
                ok = False
                r["ok"] = False; r["output"] = "coqchk: exit %d, axioms %s\n%s" % (p.returncode, ax, txt[-2500:])
        if not r["ok"]:
            self.log("PROOF FAILED\n" + r["output"][-3000:])
            self.proof_output = r["output"]
        if bad:
            self.log("AUDIT FAILED", bad)
        self.proof_ok = ok
        return ok

    def builds(self, release=False):
        ok, out = build_models()
        if not ok:
            self.log("model build failed\n" + out[-3000:])
            return False
        ok, out = build_harness(release=False)
        if not ok:
            self.log("harness build failed\n" + out)
            return False
        if release:
            ok, out = build_harness(release=True)
            if not ok:
                self.log("release harness build failed\n" + out)
                return False
        return True
