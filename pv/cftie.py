"""The tie of Model/CallFrame.v (property C08): one call of a generated callee - parameters by value, views of an
array, of a structure, of a structure holding a pointer and of an array of pointers, pointers, a slice pointer, and
local variables; a body of assignments through those bindings - compiled and run by the real compiler (the caller
prints its variables afterwards) against the extracted `run_frame_case` on the same frame, memory and body:
the verdict (accepted, or rejected with the same mutability codes) and the set of caller variables that changed."""
import random, re, collections
from . import common as C

S_TY = "(struct (int 4) (int 8))"
H_TY = "(struct (ptr (int 4)) (int 4))"
DECLS = "struct S\n{\n\ta: i32,\n\tb: i64,\n}\nstruct Holder\n{\n\tp: &i32,\n\tk: i32,\n}\n"
# caller variables: name, address range in the model, initial value
CALLER = [("x", 1000, 1004, 11), ("y", 1008, 1012, 12), ("arr[0]", 1100, 1104, 21), ("arr[1]", 1104, 1108, 22), ("arr[2]", 1108, 1112, 23),
          ("s.a", 1200, 1204, 31), ("s.b", 1208, 1216, 32), ("h.k", 1308, 1312, 41)]
INITS = ("(1000 (int 4) 11) (1008 (int 4) 12) (1100 (arr 3 (int 4)) (21 22 23)) (1200 %s (31 32)) (1300 %s (1000 41)) (1400 (arr 2 (ptr (int 4))) (1000 1008)) (2000 (int 4) 0) (2100 (arr 2 (int 4)) (0 0))" % (S_TY, H_TY))
PROBE = "(1000 1004) (1008 1012) (1100 1112) (1200 1216) (1300 1316) (1400 1416)"
MAIN = ("fn main() -> u8\n{\n\tvar x: i32 = 11;\n\tvar y: i32 = 12;\n\tvar arr: [3]i32 = [21, 22, 23];\n\tvar s = S { a: 31, b: 32 };\n\tvar h = Holder { p: &x, k: 41 };\n\tvar ps: [2]&i32 = [&x, &y];\n"
        "\tcallee(%s);\n\tprint!(x, \" \", y, \" \", arr[0], \" \", arr[1], \" \", arr[2], \" \", s.a, \" \", s.b, \" \", h.k, \"\\n\");\n\treturn: 0\n}\n")
# parameter kinds: name, source type, argument, model binding, paths to scalars: (source suffix, model steps, is_i32)
PARAMS = [
    ("v", "i32", "x", "(value (int 4) 11)", [("", "", True)]),
    ("a", "[]i32", "arr", "(slice 1100 3 (int 4))", [("[%d]" % i, "(e %d)" % i, True) for i in range(3)]),
    ("sv", "S", "s", "(view 1200 %s)" % S_TY, [(".a", "(m 0)", True), (".b", "(m 1)", False)]),
    ("p", "&i32", "&x", "(pointer 1000 (int 4))", [("", "", True)]),
    ("q", "&i32", "&y", "(pointer 1008 (int 4))", [("", "", True)]),
    ("ap", "&[]i32", "&arr", "(slicepointer 1100 3 (int 4))", [("[%d]" % i, "(e %d)" % i, True) for i in range(3)]),
    ("sp", "&S", "&s", "(pointer 1200 %s)" % S_TY, [(".a", "(m 0)", True), (".b", "(m 1)", False)]),
    ("hv", "Holder", "h", "(view 1300 %s)" % H_TY, [(".p", "(m 0)", True), (".k", "(m 1)", True)]),
    ("pv", "[]&i32", "ps", "(slice 1400 2 (ptr (int 4)))", [("[0]", "(e 0)", True), ("[1]", "(e 1)", True)]),
    ("hp", "&Holder", "&h", "(pointer 1300 %s)" % H_TY, [(".p", "(m 0)", True), (".k", "(m 1)", True)]),
]
LOCALS = [("t", "i32", "(local 2000 (int 4))", [("", "", True)], "\tvar t: i32 = 0;\n"),
          ("la", "[2]i32", "(local 2100 (arr 2 (int 4)))", [("[0]", "(e 0)", True), ("[1]", "(e 1)", True)], "\tvar la: [2]i32 = [0, 0];\n")]


def cases(rng, n):
    out = []
    for i in range(n):
        ps = rng.sample(PARAMS, rng.randint(1, 3))
        binds = [(nm, b, paths) for nm, _, _, b, paths in ps] + [(nm, b, paths) for nm, _, b, paths, _ in LOCALS]
        stmts_src, stmts_m = [], []
        for k in range(rng.randint(1, 3)):
            bi = rng.randrange(len(binds))
            nm, _, paths = binds[bi]
            suf, steps, is32 = rng.choice(paths)
            if rng.random() < 0.7 or not is32:
                val = 71 + k
                stmts_src.append("\t%s%s = %d;\n" % (nm, suf, val)); stmts_m.append("(set (ref %d 0 %s) %d)" % (bi, steps, val))
            else:
                # copy from another i32 scalar
                bj = rng.randrange(len(binds))
                nm2, _, paths2 = binds[bj]
                c32 = [p for p in paths2 if p[2]]
                suf2, steps2, _ = rng.choice(c32)
                stmts_src.append("\t%s%s = %s%s;\n" % (nm, suf, nm2, suf2)); stmts_m.append("(copy (ref %d 0 %s) (ref %d 0 %s))" % (bi, steps, bj, steps2))
        src = DECLS + "fn callee(%s)\n{\n%s%s}\n" % (", ".join("%s: %s" % (nm, ty) for nm, ty, _, _, _ in ps), "".join(l[4] for l in LOCALS), "".join(stmts_src)) + MAIN % ", ".join(a for _, _, a, _, _ in ps)
        sx = "(frame (bindings %s) (inits %s) (body %s) (probe %s) 0)" % (" ".join(b for _, b, _ in binds), INITS, " ".join(stmts_m), PROBE)
        out.append(("cf%d" % i, src, sx))
    return out


def run(ck, n, seed):
    rng = random.Random(seed)
    cs = cases(rng, n)
    impl = C.run_harness("exec", [(c[0], c[1]) for c in cs], ck.work + "/cftie", timeout=1800)
    model = C.run_model([("callframe", c[0], c[2]) for c in cs], ck.work + "/cftie")
    stats = collections.Counter(); bad = 0
    MUT = {"530", "531", "532", "533"}
    for cid, src, sx in cs:
        f = impl.get(cid, ["missing"]); m = model.get(cid, "MODEL-MISSING")
        if not (f[0].startswith("ok") or f[0].startswith("err codes=")):
            ck.violation(C.failure_key(f[0]), "compiler failed on a generated callee: " + f[0][:160], src); continue
        if m == "undefined" or not (m.startswith("rejected") or m.startswith("ran")):
            stats["model:" + m.split(" ")[0][:20]] += 1
            if not m.startswith("undefined"):
                bad += 1; ck.violation("tie-broken:callframe-format", "the frame model gave: " + m[:200], src + "\n" + sx)
            continue
        if f[0].startswith("err"):
            real = sorted(x for x in f[0][len("err codes="):].split(" ")[0].strip("[]").split(",") if x)
            if not m.startswith("rejected"):
                bad += 1; ck.violation("tie-broken:callframe-verdict", "the compiler rejects the callee (%s), Model/CallFrame.v (the gate of Model/Mutability.v on the frame) accepts it" % real, "source:\n%s\nframe: %s\nmodel: %s" % (src, sx, m)); continue
            want = sorted(x for x in m[len("rejected ["):].rstrip("]").split(",") if x)
            if [x for x in real if x in MUT] != want or [x for x in real if x not in MUT]:
                bad += 1; ck.violation("tie-broken:callframe-codes", "the compiler reports %s, the frame model %s" % (real, want), "source:\n%s\nframe: %s" % (src, sx)); continue
            stats["rejected"] += 1; continue
        if m.startswith("rejected"):
            bad += 1; ck.violation("mutation-accepted:callframe", "the compiler accepts a callee that the frame model rejects (%s)" % m, "source:\n%s\nframe: %s" % (src, sx)); continue
        out = C.unesc(f[1].split(" out=", 1)[1].split(" stderr=")[0]).decode(errors="replace").strip().split(" ") if " out=" in f[1] else []
        if len(out) != len(CALLER):
            bad += 1; ck.violation("tie-broken:callframe-output", "unexpected output %r" % out, src); continue
        real_changed = sorted(nm for (nm, lo, hi, init), o in zip(CALLER, out) if o != str(init))
        ch = [int(x) for x in re.search(r"changed=\[([-0-9,]*)\]", m).group(1).split(",") if x]
        model_changed = sorted(nm for nm, lo, hi, _ in CALLER if any(lo <= a < hi for a in ch))
        strict = re.search(r"outside-strict=\[([-0-9,]*)\]", m).group(1)
        stats["ran:changed" if real_changed else "ran:unchanged"] += 1
        if strict: stats["ran:through-pointer-inside-view(D74)"] += 1
        if real_changed != model_changed:
            bad += 1
            ck.violation("tie-broken:callframe-effect", "after the call the caller's %s changed; Model/CallFrame.v (exec_body on MemLower's memory) says %s" % (real_changed or "nothing", model_changed or "nothing"),
                         "source:\n%s\noutput: %s\nframe: %s\nmodel: %s" % (src, " ".join(out), sx, m))
    ck.log("call frame tie: %d callees %s, %d differences" % (len(cs), dict(stats), bad))
    return len(cs), dict(stats), bad
