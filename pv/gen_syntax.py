"""Random syntactically valid (not necessarily well-typed) Penne modules derived
from the grammar of the first-generation parser, covering every production:
declaration kinds and flags, type forms, statements, expression layers with
their precedence/associativity restrictions, literals, references."""
import random

PRIMT = ["i8", "i16", "i32", "i64", "i128", "u8", "u16", "u32", "u64", "u128", "usize", "char8", "bool"]
IDS = ["x", "y", "foo", "bar_1", "a", "b", "data", "len", "_t", "word", "returns", "iff"]
TYPENAMES = ["Point", "S", "Buf"]


class Syn:
    def __init__(self, rng, trailing_commas=True, newline_layout=True):
        self.r = rng
        self.trailing = trailing_commas
        self.nl = newline_layout

    def ws(self):
        k = self.r.random()
        if not self.nl or k < 0.8: return " "
        if k < 0.9: return "\n\t"
        if k < 0.95: return "  "
        return " // c\n"

    def ident(self): return self.r.choice(IDS)

    def ty(self, d=2):
        r = self.r
        k = r.random()
        if d <= 0 or k < 0.4: return r.choice(PRIMT)
        if k < 0.5: return r.choice(TYPENAMES)
        if k < 0.62: return "&" + self.ty(d - 1)
        if k < 0.7: return "[]" + self.ty(d - 1)
        if k < 0.78: return "[%d]%s" % (r.randint(0, 9), self.ty(d - 1))
        if k < 0.84: return "[%s]%s" % (r.choice(["N", "LEN"]), self.ty(d - 1))
        if k < 0.9: return "[:]" + self.r.choice(PRIMT)
        if k < 0.95: return "&[..]" + self.r.choice(PRIMT)
        return "(" + self.ty(d - 1) + ")"

    def literal(self):
        r = self.r
        k = r.random()
        if k < 0.3: return str(r.choice([0, 1, 7, 42, 255, 1000, 2 ** 64, 2 ** 127]))
        if k < 0.4: return r.choice(["0x1F", "0xff", "0b101", "0x0"])
        if k < 0.55: return "%d%s" % (r.randint(0, 200), r.choice(["i8", "u8", "i32", "u64", "usize", "i128"]))
        if k < 0.65: return r.choice(["true", "false"])
        if k < 0.75: return r.choice(["'a'", "'\\n'", "'\\x41'", "'\\\\'"])
        if k < 0.9: return r.choice(['"s"', '"a\\n"', '"x" "y"', '""', '"q\\"q"'])
        # a string of several adjacent fragments, on one line or continued over lines
        frags = [r.choice(['"alpha"', '"b"', '""', '"c\\n"', '"\\x41"', '"d e"', '"q\\"q"']) for _ in range(r.randint(2, 5))]
        return r.choice([" ", "\n\t\t", "  "]).join(frags)

    def reference(self, d=2):
        r = self.r
        s = "&" * (r.choice([0, 0, 0, 1, 2])) + self.ident()
        for _ in range(r.choice([0, 0, 1, 2])):
            if r.random() < 0.5 and d > 0: s += "[" + self.expr(d - 1) + "]"
            else: s += "." + self.ident()
        return s

    def primary(self, d, nobrace=False):
        r = self.r
        k = r.random()
        if d <= 0 or k < 0.3: return self.literal() if r.random() < 0.5 else self.reference(d)
        if k < 0.4: return "%s(%s)" % (self.ident(), self.args(d - 1))
        if k < 0.45: return "%s!(%s)" % (r.choice(["print", "format", "file", "line"]), self.args(d - 1))
        if k < 0.55: return "(" + self.expr(d - 1) + ")"
        if k < 0.63: return "[" + self.args(d - 1) + "]"
        if k < 0.7 and not nobrace:
            fs = ["%s: %s" % (self.ident(), self.expr(d - 1)) if r.random() < 0.8 else self.ident() for _ in range(r.randint(0, 3))]
            return "%s { %s%s }" % (r.choice(TYPENAMES), ", ".join(fs), "," if fs and self.trailing and r.random() < 0.5 else "")
        return self.reference(d)

    def args(self, d):
        n = self.r.randint(0, 3)
        s = ", ".join(self.expr(d) for _ in range(n))
        if n and self.trailing and self.r.random() < 0.2: s += ","
        return s

    def unary(self, d, nobrace=False):
        r = self.r
        k = r.random()
        if k < 0.1: return "-" + self.primary(d, nobrace)
        if k < 0.18: return "!" + self.primary(d, nobrace)
        if k < 0.24: return "|" + self.reference(d - 1) + "|"
        if k < 0.3: return "|:" + self.ty(1) + "|"
        return self.primary(d, nobrace)

    def singular(self, d, nobrace=False):
        r = self.r
        s = self.unary(d, nobrace)
        k = r.random()
        if k < 0.1: return "cast " + s
        if k < 0.3: s += " as " + r.choice(PRIMT)
        return s

    def mul(self, d, nobrace=False):
        s = self.singular(d, nobrace)
        for _ in range(self.r.choice([0, 0, 0, 1, 2])):
            s += self.ws() + self.r.choice("*/%") + self.ws() + self.singular(d, nobrace)
        return s

    def expr(self, d=2, nobrace=False):
        r = self.r
        k = r.random()
        if k < 0.7:
            s = self.mul(d, nobrace)
            for _ in range(r.choice([0, 0, 1, 1, 2, 3])):
                s += self.ws() + r.choice("+-") + self.ws() + self.mul(d, nobrace)
            return s
        if k < 0.88:
            op = r.choice("&|^")
            s = self.singular(d, nobrace)
            for _ in range(r.randint(1, 3)): s += " " + op + " " + self.unary(d, nobrace)
            return s
        return self.singular(d, nobrace) + " " + r.choice(["<<", ">>"]) + " " + self.unary(d, nobrace)

    def stmt(self, d=2, ind=1):
        r = self.r
        t = "\t" * ind
        k = r.random()
        if k < 0.2:
            s = "var " + self.ident()
            if r.random() < 0.7: s += ": " + self.ty()
            if r.random() < 0.8: s += " = " + self.expr()
            return t + s + ";\n"
        if k < 0.38: return t + self.reference() + " = " + self.expr() + ";\n"
        if k < 0.46: return t + "%s(%s);\n" % (self.ident(), self.args(2))
        if k < 0.5: return t + "%s!(%s);\n" % (r.choice(["print", "abort", "dbg"]), self.args(2))
        if k < 0.56: return t + "goto " + self.ident() + ";\n"
        if k < 0.62: return t + self.ident() + ":\n"
        if k < 0.78 and d > 0:
            cond = "%s %s %s" % (self.expr(1, True), r.choice(["==", "!=", "<", "<=", ">", ">="]), self.expr(1, True))
            kb = r.random()
            if kb < 0.3: body = t + "\tgoto " + self.ident() + ";\n"
            else: body = self.block(d - 1, ind)
            s = t + "if " + cond + "\n" + body
            if r.random() < 0.4:
                ke = r.random()
                if ke < 0.3: s += t + "else\n" + t + "\tgoto " + self.ident() + ";\n"
                elif ke < 0.5: s += t + "else " + self.stmt_if(d - 1, ind)
                else: s += t + "else\n" + self.block(d - 1, ind)
            return s
        if k < 0.9 and d > 0: return self.block(d - 1, ind)
        return t + self.reference() + " = " + self.expr() + ";\n"

    def stmt_if(self, d, ind):
        t = "\t" * ind
        cond = "%s %s %s" % (self.expr(1, True), self.r.choice(["==", "<"]), self.expr(1, True))
        return "if " + cond + "\n" + self.block(max(d, 0), ind)

    def block(self, d, ind):
        t = "\t" * ind
        n = self.r.randint(0, 3)
        s = t + "{\n" + "".join(self.stmt(d, ind + 1) for _ in range(n))
        if self.r.random() < 0.25: s += t + "\tloop;\n"
        return s + t + "}\n"

    def decl(self):
        r = self.r
        flags = ("pub " if r.random() < 0.4 else "") + ("extern " if r.random() < 0.2 else "")
        k = r.random()
        if k < 0.1: return 'import "%s";\n' % r.choice(["lib.pn", "core:text", "a/b.pn"])
        if k < 0.25: return "%sconst %s: %s = %s;\n" % (flags, r.choice(["N", "LEN", "K"]), self.ty(1), self.expr())
        if k < 0.45:
            kind = r.choice(["struct", "struct", "word8", "word16", "word32", "word64", "word128"])
            ms = ["\t%s: %s" % (self.ident(), self.ty()) for _ in range(r.randint(0, 4))]
            sep = ",\n"
            body = sep.join(ms) + (",\n" if ms and (self.trailing or True) and r.random() < (1.0 if self.trailing else 0.5) else ("\n" if ms else ""))
            return "%s%s %s\n{\n%s}\n" % (flags, kind, r.choice(TYPENAMES), body)
        if k < 0.5: return "%sstruct %s;\n" % (flags, r.choice(TYPENAMES))
        params = ", ".join("%s: %s" % (self.ident(), self.ty()) for _ in range(r.randint(0, 3)))
        if params and self.trailing and r.random() < 0.15: params += ","
        ret = " -> " + self.ty(1) if r.random() < 0.6 else ""
        if k < 0.6: return "%sfn %s(%s)%s;\n" % (flags, self.ident(), params, ret)
        body = "".join(self.stmt(2, 1) for _ in range(r.randint(0, 6)))
        if ret and r.random() < 0.85: body += "\treturn: " + self.expr() + "\n"
        return "%sfn %s(%s)%s\n{\n%s}\n" % (flags, self.ident(), params, ret, body)

    def module(self):
        return "\n".join(self.decl() for _ in range(self.r.randint(1, 6)))
