#!/usr/bin/env python3
"""C08 correspondence tie: the real mutability.rs / function_calls.rs analyzers
against coq/theories/Model/Mutability.v.

    harness stream `typed`  (harness/src/mutser.rs)  real front end up to the typer,
                            typed declarations as an s-expression, real codes
    driver  stream `mut`    (extract/driver.ml, block C08)  the extracted model on
                            that s-expression -> predicted codes
    compare()               the two code lists

usage: c08tie.py [-v] [--pvh PATH] [--driver PATH] <dir of .pn | file.pn | file.cases>...
"""
import collections, glob, os, re, subprocess, sys, tempfile

HERE = os.path.dirname(os.path.abspath(__file__))
PVH = os.environ.get("PVH", os.path.join(HERE, "target", "debug", "pvh"))
DRIVER = os.environ.get("PV_DRIVER", os.path.join(HERE, "extract-c08", "driver"))

# Codes the model predicts (Mutability.v: E352 E510 E511 E512 E513 E530 E531 E532 E533);
# 0 is the model's E_SILENT (Poison::Poisoned: compilation fails, nothing is reported).
PASS_CODES = frozenset([352, 510, 511, 512, 513, 530, 531, 532, 533])
E_SILENT = 0
# Codes of analyzer passes that run before / inside function_calls.rs, are not in the
# model, and replace a node by Poison (so the two passes never see what is below it):
# syntax.rs (800 801 840), IndexTypeMismatch of function_calls.rs (503).
UNMODELLED_MASKING = frozenset([503, 800, 801, 840])
# resolver.rs runs AFTER the analyzer: its own codes do not hide anything from the
# analyzer, but the resolver does not look below a node it rejects.
LATER = frozenset([550, 551, 552, 553, 580, 581, 582, 583, 584])
# constness.rs only looks at the values of constants, which the two passes ignore.
CONSTNESS_ONLY = frozenset([360, 361])


def stage(code):
    """'pass' | 'earlier' | 'later' | 'ignored' for a real error code."""
    if code in PASS_CODES: return "pass"
    if code in LATER: return "later"
    if code in CONSTNESS_ONLY or code >= 1000: return "ignored"   # lints are >= 1000
    return "earlier"     # lexer 1xx, parser 3xx, scoper 4xx, typer 5xx, UNMODELLED_MASKING


def _multiset_diff(a, b):
    ca, cb = collections.Counter(a), collections.Counter(b)
    return sorted((ca - cb).elements()), sorted((cb - ca).elements())


def compare(real_codes, model_codes, nonfn_codes=(), pre_codes=None, real_failed=None):
    """'' when the model's prediction agrees with the real compiler.

    real_codes   all codes of Compiler::analyze_and_resolve (Errors::codes())
    model_codes  the driver's `codes [..]`
    nonfn_codes  (optional, aux field `nonfn=`) codes the real compiler reports for
                 declarations that are not functions: pass codes among them come from
                 constness.rs (E531-E533 in constant values) and are set aside
    pre_codes    (optional, aux field `pre=`) codes the resolver reports on the typed
                 tree BEFORE the analyzer; None = not available, 'panic' = resolver
                 panicked on it.  Needed to tell the typer's E510/E511 on builtins
                 from those of function_calls.rs.
    real_failed  (optional) whether the real compiler rejected the program; default:
                 bool(real_codes)

    Returns '' (agree), 'skip:...' (an earlier stage reported an error: the analyzer
    did not see the whole program, not comparable), 'lenient:...' is never returned:
    when only LATER codes accompany the pass codes the real list may lack codes the
    resolver did not reach, so the comparison is sub-multiset; anything else is a
    description of the disagreement.
    """
    real_codes = list(real_codes); model_codes = list(model_codes)
    if real_failed is None: real_failed = bool(real_codes)
    earlier = sorted(c for c in real_codes if stage(c) == "earlier")
    if earlier:
        return "skip: earlier-stage codes %s" % earlier
    if pre_codes == "panic":
        return "skip: resolver panics on the un-analyzed tree"
    if pre_codes is not None:
        pre_early = sorted(c for c in pre_codes if stage(c) in ("earlier", "pass"))
        if pre_early:
            return "skip: codes %s are in the tree before the analyzer runs" % pre_early
    real = [c for c in real_codes if c in PASS_CODES]
    aside = [c for c in nonfn_codes if c in PASS_CODES]
    real, _ = _multiset_diff(real, aside)
    silent = model_codes.count(E_SILENT)
    model = [c for c in model_codes if c != E_SILENT]
    unknown = [c for c in model if c not in PASS_CODES]
    if unknown:
        return "model predicts codes outside its own set: %s" % unknown
    only_real, only_model = _multiset_diff(real, model)
    later = sorted(c for c in real_codes if c in LATER)
    if later and not only_real:
        return ""            # the resolver may have hidden `only_model`
    if only_real or only_model:
        return "real %s model %s: only real %s, only model %s" % (sorted(real), sorted(model), only_real, only_model)
    if silent and not real_failed:
        return "model predicts a silent poison, the real compiler accepts"
    if (model or silent) and not real_failed:
        return "model predicts %s, the real compiler accepts" % model_codes
    return ""


# ---------------------------------------------------------------------------
# running both sides
# ---------------------------------------------------------------------------

def esc(b):
    if isinstance(b, str): b = b.encode()
    out = []
    for c in b:
        if c == 10: out.append("\\n")
        elif c == 9: out.append("\\t")
        elif c == 13: out.append("\\r")
        elif c == 92: out.append("\\\\")
        elif 32 <= c <= 126: out.append(chr(c))
        else: out.append("\\x%02x" % c)
    return "".join(out)


def llvm_env():
    e = dict(os.environ)
    for d in ("/verif/tools/llvmwrap", os.path.join(HERE, "tools", "llvmwrap")):
        if os.path.isdir(d): e["PATH"] = d + ":" + e.get("PATH", "")
    return e


def parse_codes(s):
    m = re.search(r"\[([0-9, ]*)\]", s)
    if not m: return []
    return [int(x) for x in m.group(1).replace(" ", "").split(",") if x]


def run_real(cases, workdir):
    """cases: list of (id, source).  Returns id -> dict(verdict, codes, sexp, pre, nonfn, drive)."""
    path = os.path.join(workdir, "typed.cases")
    with open(path, "w") as f:
        for cid, src in cases:
            f.write("%s\t%s\n" % (cid, esc(src)))
    p = subprocess.run([PVH, "typed", path], capture_output=True, env=llvm_env(), timeout=3600)
    out = {}
    for line in p.stdout.decode(errors="replace").splitlines():
        parts = line.split("\t")
        if len(parts) < 2: continue
        r = dict(verdict=parts[1], codes=parse_codes(parts[1]) if parts[1].startswith("err") else [],
                 sexp=parts[2] if len(parts) > 2 else "-", pre=None, nonfn=[], drive="?")
        if len(parts) > 3:
            m = re.match(r"pre=(\S+) nonfn=(\S+) drive=(.*)", parts[3])
            if m:
                r["pre"] = "panic" if m.group(1) == "panic" else parse_codes(m.group(1))
                r["nonfn"] = parse_codes(m.group(2)); r["drive"] = m.group(3)
        out[parts[0]] = r
    if p.returncode != 0:
        for cid, _ in cases:
            out.setdefault(cid, dict(verdict="crash:%d" % p.returncode, codes=[], sexp="-", pre=None, nonfn=[], drive="?"))
    return out


def run_model(items):
    """items: list of (id, sexp).  Returns id -> (codes, raw) or an error string."""
    data = "".join("mut\t%s\t%s\n" % it for it in items).encode()
    p = subprocess.run([DRIVER], input=data, capture_output=True, timeout=3600)
    out = {}
    for line in p.stdout.decode(errors="replace").splitlines():
        cid, _, res = line.partition("\t")
        m = re.match(r"codes (\[[0-9,]*\]) raw (\[[0-9,]*\])", res)
        out[cid] = (parse_codes(m.group(1)), parse_codes(m.group(2))) if m else res
    return out


def tie(cases, workdir=None, verbose=False, label=""):
    """Run both sides on (id, source) cases.  Returns (Counter, list of disagreement records)."""
    tmp = None
    if workdir is None:
        tmp = tempfile.TemporaryDirectory(); workdir = tmp.name
    os.makedirs(workdir, exist_ok=True)
    real = run_real(cases, workdir)
    items = [(cid, real[cid]["sexp"]) for cid, _ in cases if cid in real and real[cid]["sexp"].startswith("(")]
    model = run_model(items)
    stats = collections.Counter(); bad = []
    for cid, src in cases:
        r = real.get(cid)
        if r is None:
            stats["missing"] += 1; bad.append((cid, "no harness output", src, None, None)); continue
        v = r["verdict"]
        if not (v == "ok" or v.startswith("err codes=")):
            stats["skip:compiler-failure"] += 1
            if verbose: print("%s%s: skip: %s" % (label, cid, v[:100]))
            continue
        if not r["sexp"].startswith("("):
            stats["skip:no-typed-tree"] += 1
            continue
        if r["drive"] != "same":
            stats["DRIVE-DIFF"] += 1; bad.append((cid, "harness replica of analyze_and_resolve differs: real %s, replica %s" % (v, r["drive"]), src, r, None)); continue
        m = model.get(cid)
        if not isinstance(m, tuple):
            stats["MODEL-ERROR"] += 1; bad.append((cid, "driver: %s" % m, src, r, None)); continue
        res = compare(r["codes"], m[0], r["nonfn"], r["pre"], v.startswith("err"))
        if res == "":
            lenient = any(c in LATER for c in r["codes"])
            k = "agree" + (":lenient(resolver codes present)" if lenient else "")
            if m[0] != m[1]: stats["agree-only-after-masking"] += 1
            if any(c in PASS_CODES for c in r["codes"]) or m[0]: stats["agree-with-codes"] += 1
            stats[k] += 1
        elif res.startswith("skip:"):
            stats["skip"] += 1
            if verbose: print("%s%s: %s" % (label, cid, res))
        else:
            stats["DISAGREE"] += 1; bad.append((cid, res, src, r, m))
    if tmp: tmp.cleanup()
    return stats, bad


def load(path):
    """(id, source) cases of a directory of .pn files, one .pn file, or a case file."""
    if os.path.isdir(path):
        return [(os.path.basename(f), open(f, "rb").read().decode("utf-8", "replace")) for f in sorted(glob.glob(os.path.join(path, "*.pn")))]
    if path.endswith(".pn"):
        return [(os.path.basename(path), open(path, "rb").read().decode("utf-8", "replace"))]
    out = []
    for line in open(path, encoding="utf-8", errors="replace"):
        line = line.rstrip("\n")
        if not line: continue
        cid, _, payload = line.partition("\t")
        out.append((cid, unesc(payload).decode("utf-8", "replace")))
    return out


def unesc(s):
    out = bytearray(); i = 0
    b = s.encode()
    while i < len(b):
        if b[i] == 92 and i + 1 < len(b):
            c = b[i + 1]
            if c == ord('n'): out.append(10); i += 2
            elif c == ord('t'): out.append(9); i += 2
            elif c == ord('r'): out.append(13); i += 2
            elif c == 92: out.append(92); i += 2
            elif c == ord('x'): out.append(int(b[i + 2:i + 4], 16)); i += 4
            else: out.append(b[i]); i += 1
        else: out.append(b[i]); i += 1
    return bytes(out)


def report(label, stats, bad, out=sys.stdout):
    n = sum(v for k, v in stats.items() if not k.startswith("agree-"))
    agreed = sum(v for k, v in stats.items() if k.startswith("agree") and not k.startswith("agree-"))
    skipped = sum(v for k, v in stats.items() if k.startswith("skip"))
    print("%s: %d programs, %d agree, %d skipped, %d disagree  %s" % (label, n, agreed, skipped, n - agreed - skipped, dict(sorted(stats.items()))), file=out)
    for cid, why, src, r, m in bad:
        print("  DISAGREE %s: %s" % (cid, why), file=out)
        print("    source: %s" % esc(src), file=out)
        if r: print("    real:   %s  pre=%s nonfn=%s" % (r["verdict"], r["pre"], r["nonfn"]), file=out)
        if m: print("    model:  codes %s raw %s" % m, file=out)
        if r: print("    term:   %s" % r["sexp"], file=out)


def main(argv):
    global PVH, DRIVER
    verbose = False; paths = []
    i = 0
    while i < len(argv):
        a = argv[i]
        if a == "-v": verbose = True
        elif a == "--pvh": i += 1; PVH = argv[i]
        elif a == "--driver": i += 1; DRIVER = argv[i]
        else: paths.append(a)
        i += 1
    if not paths:
        print(__doc__); return 2
    rc = 0
    for p in paths:
        cases = load(p)
        stats, bad = tie(cases, verbose=verbose, label=os.path.basename(p.rstrip("/")) + "/")
        report(p, stats, bad)
        if bad: rc = 1
    return rc


if __name__ == "__main__":
    sys.exit(main(sys.argv[1:]))
