#!/usr/bin/env python3
"""The tie of "type legality per position" (property C11).

Generates every written type up to a nesting depth x every position (gen_legal.py),
runs the programs through the real front end (`pvh front`) and the s-expressions
through the extracted Coq model (`driver`, stream `legal`), and compares the code
lists as multisets.

Comparison rule
  * model `codes [..]`  vs real `err codes=[..]` / `ok`: equal multisets (ok = []);
  * model `panic typer.rs:L` vs real `panic@alpha/typer.rs:L ...`: same line;
  * FILTER (only cases the generator marks `noinit`: constants whose type has no
    closed initialiser in the language - pointers, views, unsized forms, void): when the
    model accepts, E500 (ConflictingTypes: the placeholder initialiser `0` against the
    declared type) is removed from the real list first; nothing else is removed.  The number of
    filtered cases is printed.

usage: compare_legal.py [--depth D] [--pvh PATH] [--driver PATH] [--work DIR] [--build]
  --build rebuilds the reduced driver with extract-legal/build.sh first."""
import argparse, collections, os, re, subprocess, sys

HERE = os.path.dirname(os.path.abspath(__file__))
ROOT = os.path.dirname(HERE)
sys.path.insert(0, HERE)
try:
    from . import gen_legal
except ImportError:
    import gen_legal



def parse_real(field):
    """-> ('codes', sorted list) | ('panic', line) | ('other', text)"""
    if field.startswith("ok"):
        return ("codes", [])
    m = re.match(r"err codes=\[([0-9,]*)\]", field)
    if m:
        return ("codes", sorted(int(x) for x in m.group(1).split(",") if x))
    m = re.match(r"panic@alpha/typer\.rs:(\d+)", field)
    if m:
        return ("panic", int(m.group(1)))
    return ("other", field)


def parse_model(field):
    m = re.match(r"codes \[([0-9,]*)\]", field)
    if m:
        return ("codes", sorted(int(x) for x in m.group(1).split(",") if x))
    m = re.match(r"panic typer\.rs:(\d+)", field)
    if m:
        return ("panic", int(m.group(1)))
    return ("other", field)


def main():
    ap = argparse.ArgumentParser()
    ap.add_argument("--depth", type=int, default=3)
    ap.add_argument("--pvh", default=os.path.join(ROOT, "target", "debug", "pvh"))
    ap.add_argument("--driver", default=os.path.join(ROOT, "work", "drv", "driver"))
    ap.add_argument("--work", default=os.path.join(ROOT, "work"))
    ap.add_argument("--build", action="store_true")
    ap.add_argument("--show", type=int, default=200, help="max disagreements printed")
    a = ap.parse_args()
    os.makedirs(a.work, exist_ok=True)
    if a.build or not os.path.exists(a.driver):
        subprocess.run([os.path.join(ROOT, "extract-legal", "build.sh"),
                        os.path.join(ROOT, "theories"), os.path.dirname(a.driver)], check=True)
    prefix = os.path.join(a.work, "legal_d%d" % a.depth)
    n = gen_legal.generate(prefix, a.depth)
    real = subprocess.run([a.pvh, "front", prefix + ".src"], capture_output=True, check=True).stdout.decode()
    with open(prefix + ".model", "rb") as f:
        model = subprocess.run([a.driver], stdin=f, capture_output=True, check=True).stdout.decode()
    R = {}
    for line in real.splitlines():
        parts = line.split("\t")
        R[parts[0]] = parts[1] if len(parts) > 1 else ""
    M = {}
    for line in model.splitlines():
        parts = line.split("\t")
        M[parts[0]] = parts[1] if len(parts) > 1 else ""
    per = collections.OrderedDict()
    disagreements = []
    filtered = 0
    panics = collections.Counter()
    for line in open(prefix + ".meta"):
        cid, pos, ty, noinit, text = line.rstrip("\n").split("\t")
        st = per.setdefault(pos, dict(programs=0, agree=0, disagree=0, accepted=0, panic=0))
        st["programs"] += 1
        r = parse_real(R.get(cid, "<missing>"))
        m = parse_model(M.get(cid, "<missing>"))
        if noinit == "1" and m == ("codes", []) and r[0] == "codes":
            proj = [c for c in r[1] if c != 500]
            if proj != r[1]:
                filtered += 1
            r = ("codes", proj)
        if r == m:
            st["agree"] += 1
            if m == ("codes", []):
                st["accepted"] += 1
            if m[0] == "panic":
                st["panic"] += 1
                panics[(pos, m[1])] += 1
        else:
            st["disagree"] += 1
            disagreements.append((cid, pos, ty, M.get(cid), R.get(cid), text))
    tot = dict(programs=0, agree=0, disagree=0, accepted=0, panic=0)
    print("%-14s %9s %9s %9s %9s %7s" % ("position", "programs", "agree", "disagree", "accepted", "panic"))
    for pos, st in per.items():
        print("%-14s %9d %9d %9d %9d %7d" % (pos, st["programs"], st["agree"], st["disagree"],
                                             st["accepted"], st["panic"]))
        for k in tot:
            tot[k] += st[k]
    print("%-14s %9d %9d %9d %9d %7d" % ("TOTAL", tot["programs"], tot["agree"], tot["disagree"],
                                         tot["accepted"], tot["panic"]))
    print("depth=%d programs=%d agree=%d disagree=%d filtered(noinit constants)=%d"
          % (a.depth, n, tot["agree"], tot["disagree"], filtered))
    if panics:
        print("assertion failures reproduced by the model (position, typer.rs line: programs):")
        for (pos, line), c in sorted(panics.items()):
            print("  %-14s typer.rs:%d: %d" % (pos, line, c))
    for d in disagreements[:a.show]:
        print("DISAGREE %s pos=%s type=%s model=%r real=%r\n    %s" % d)
    if len(disagreements) > a.show:
        print("... %d more" % (len(disagreements) - a.show))
    return 0 if not disagreements else 1


if __name__ == "__main__":
    sys.exit(main())
