#!/usr/bin/env python3
"""Generator of the "type legality per position" tie (property C11).

Enumerates ALL written types up to a nesting depth (number of type constructors
around a leaf) over a small set of leaves, times all declaration positions, each as
a minimal penne program plus the s-expression `(position type)` of the model.

  ty  ::= void | i8 | ... | bool            (primitive keyword)
        | (struct NAME) | (word NAME BYTES)  (identifier naming a declared struct/word)
        | (ptr ty)       &T        | (view ty)      (T)
        | (slice ty)     [:]T      | (endless ty)   [..]T
        | (arraylike ty) []T       | (array LEN ty) [LEN]T
        | (named NAME LEN ty) [NAME]T   (NAME declared `const NAME: usize = LEN;`)
  pos ::= var | sizeof
        | (const FL) | (param FL) | (ret FL) | (smember FL) | (wmember BYTES FL)
  FL  ::= - | p | e | pe         (p = pub, e = extern)

usage: gen_legal.py OUTPREFIX [DEPTH]   writes OUTPREFIX.src (harness `front` cases),
       OUTPREFIX.model (driver lines, stream `legal`) and OUTPREFIX.meta (id, pos, type,
       noinit flag)."""
import sys

PRIMS = ["void", "i32", "u8", "bool", "usize", "i128", "char8"]
LEAVES = PRIMS + [("struct", "S"), ("word", "W", 4)]
UNARY = ["ptr", "view", "slice", "endless", "arraylike", ("array", 2), ("named", "N", 2)]

PRELUDE = "struct S { a: i32 }\nword32 W { b: i32 }\nconst N: usize = 2;\n"


OTHER_PRIMS = ["i8", "i16", "i64", "u16", "u32", "u64", "u128"]


def enum(depth, leaves, unary):
    """All types with at most `depth` constructors (from `unary`) around a leaf."""
    level = list(leaves)
    out = list(level)
    for _ in range(depth):
        nxt = []
        for t in level:
            for u in unary:
                nxt.append((u, t) if isinstance(u, str) else u + (t,))
        out += nxt
        level = nxt
    return out


def mentions_zero(t):
    return isinstance(t, tuple) and ((t[0] == "array" and t[1] == 0) or mentions_zero(t[-1]))


def types(depth):
    """Main enumeration: LEAVES x UNARY up to `depth`; extras up to depth 2: the seven
    other primitives, and the zero-length array `[0]T`."""
    out = enum(depth, LEAVES, UNARY)
    d2 = min(depth, 2)
    out += enum(d2, OTHER_PRIMS, UNARY)
    out += [t for t in enum(d2, LEAVES, UNARY + [("array", 0)]) if mentions_zero(t)]
    return out


def is_leaf(t):
    return isinstance(t, str) or t[0] in ("struct", "word")


def src(t):
    if isinstance(t, str):
        return t
    k = t[0]
    if k in ("struct", "word"):
        return t[1]
    if k == "ptr":
        return "&" + src(t[1])
    if k == "view":
        return "(" + src(t[1]) + ")"
    if k == "slice":
        return "[:]" + src(t[1])
    if k == "endless":
        return "[..]" + src(t[1])
    if k == "arraylike":
        return "[]" + src(t[1])
    if k == "array":
        return "[%d]" % t[1] + src(t[2])
    if k == "named":
        return "[%s]" % t[1] + src(t[3])
    raise ValueError(t)


def sexp(t):
    if isinstance(t, str):
        return t
    return "(" + " ".join(sexp(x) if isinstance(x, tuple) else str(x) for x in t) + ")"


def initialiser(t):
    """A constant expression of the written type, or None when the language has none
    (pointers, views, slices, unsized arrays, void)."""
    if isinstance(t, str):
        return {"void": None, "bool": "true", "char8": "'a'"}.get(t, "0")
    k = t[0]
    if k == "struct":
        return "S { a: 0 }"
    if k == "word":
        return "W { b: 0 }"
    if k in ("array", "named"):
        v = initialiser(t[-1])
        n = t[1] if k == "array" else t[2]
        return None if v is None else "[" + ", ".join([v] * n) + "]"
    return None


FLAGS = {"-": "", "p": "pub ", "e": "extern ", "pe": "pub extern "}
WORDKW = {1: "word8", 2: "word16", 4: "word32", 8: "word64", 16: "word128"}


def positions():
    ps = ["var", "sizeof"]
    for fl in FLAGS:
        ps += [("const", fl), ("param", fl), ("ret", fl), ("smember", fl)]
    for size in (1, 2, 4, 8, 16):
        ps.append(("wmember", size, "-"))
    for size in (1, 8):
        ps.append(("wmember", size, "e"))
    # function WITH body (the heads above have none)
    ps += [("parambody", "-"), ("parambody", "p")]
    return ps


def program(pos, t):
    """(source text, model position s-expression, noinit)"""
    ty = src(t)
    if pos == "var":
        return PRELUDE + "fn main() { var x: %s; }\n" % ty, "var", False
    if pos == "sizeof":
        return PRELUDE + "fn main() { var x: usize = |:%s|; }\n" % ty, "sizeof", False
    k = pos[0]
    fl = pos[-1]
    pre = FLAGS[fl]
    if k == "const":
        v = initialiser(t)
        return (PRELUDE + "%sconst X: %s = %s;\n" % (pre, ty, v if v is not None else "0"),
                "(const %s)" % fl, v is None)
    if k == "param":
        return PRELUDE + "%sfn foo(x: %s);\n" % (pre, ty), "(param %s)" % fl, False
    if k == "parambody":
        return PRELUDE + "%sfn foo(x: %s) {}\n" % (pre, ty), "(param %s)" % fl, False
    if k == "ret":
        return PRELUDE + "%sfn foo() -> %s;\n" % (pre, ty), "(ret %s)" % fl, False
    if k == "smember":
        return PRELUDE + "%sstruct T { m: %s }\n" % (pre, ty), "(smember %s)" % fl, False
    if k == "wmember":
        return (PRELUDE + "%s%s T { m: %s }\n" % (pre, WORDKW[pos[1]], ty),
                "(wmember %d %s)" % (pos[1], fl), False)
    raise ValueError(pos)


def esc(s):
    return s.replace("\\", "\\\\").replace("\n", "\\n").replace("\t", "\\t")


def posname(pos):
    return pos if isinstance(pos, str) else "-".join(str(x) for x in pos)


def generate(prefix, depth):
    n = 0
    with open(prefix + ".src", "w") as fs, open(prefix + ".model", "w") as fm, \
            open(prefix + ".meta", "w") as fmeta:
        for pos in positions():
            for t in types(depth):
                text, mpos, noinit = program(pos, t)
                cid = "L%06d" % n
                n += 1
                fs.write("%s\t%s\n" % (cid, esc(text)))
                fm.write("legal\t%s\t(%s %s)\n" % (cid, mpos, sexp(t)))
                fmeta.write("%s\t%s\t%s\t%d\t%s\n" % (cid, posname(pos), src(t), int(noinit), esc(text)))
    return n


if __name__ == "__main__":
    prefix = sys.argv[1]
    depth = int(sys.argv[2]) if len(sys.argv) > 2 else 3
    print(generate(prefix, depth))
