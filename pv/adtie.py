"""The tie of Model/Autoderef.v to the typer (properties C07 / C01 / C02): for generated references - a base of
structure, array, slice, pointer or view type, a path of member and element steps, zero to two `&`, used as the
argument of a function whose parameter has a chosen type - the steps the REAL typer inserts, whether it takes the
address, the type it gives the reference and whether a coercion is wrapped around it (read off the typed tree,
harness stream `typed`) are those of the extracted `analyze_deref`."""
import random, re, collections
from . import common as C
from .sexp import parse, show

# struct S: member types in source and in model syntax (@S = the structure itself)
MEMBERS = [("a", "[4]i32", "(arr (prim 3) 4)"), ("n", "&S", "(ptr @S)"), ("v", "i32", "(prim 3)"), ("r", "[2][3]u8", "(arr (arr (prim 6) 3) 2)"),
           ("q", "&[..]i32", "(ptr (endless (prim 3)))"), ("w", "&&i32", "(ptr (ptr (prim 3)))"), ("t", "T", "@T"), ("c", "char8", "(prim 12)")]
TMEMBERS = [("x", "i64", "(prim 4)"), ("ys", "[2]i64", "(arr (prim 4) 2)")]
DECLS = "struct S\n{\n%s}\nstruct T\n{\n%s}\n" % ("".join("\t%s: %s,\n" % (n, t) for n, t, _ in MEMBERS), "".join("\t%s: %s,\n" % (n, t) for n, t, _ in TMEMBERS))
# bases: (declaration as parameter or local, source type)
BASES = [("param", "S"), ("param", "&S"), ("param", "&&S"), ("param", "[]S"), ("param", "&[]S"), ("param", "[][2]i32"), ("param", "&[3][2]i32"), ("param", "&&i32"), ("param", "[]&i32"),
         ("local", "[3][2]i32"), ("local", "S"), ("local", "[2]S"), ("param", "&[]i32"), ("param", "[]i32"), ("param", "&[4]u8"), ("param", "[]char8"), ("param", "T"), ("param", "&T")]


def ty_after(src_ty, rng, path):
    """walk a source type: returns (suffix, final source type) following auto-dereferences"""
    t = src_ty
    suffix = ""
    for _ in range(rng.randint(0, 4)):
        while t.startswith("&") and not t.startswith("&[]"): t = t[1:]
        if t.startswith("&[]"): t = t[1:]
        if t.startswith("[]"):
            suffix += "[%d]" % rng.randrange(2); t = t[2:]; continue
        m = re.match(r"\[(\d+)\](.*)", t)
        if m:
            suffix += "[%d]" % rng.randrange(int(m.group(1))); t = m.group(2); continue
        if t in ("S", "T"):
            mem = rng.choice(MEMBERS if t == "S" else TMEMBERS)
            suffix += "." + mem[0]; t = mem[1]; continue
        break
    return suffix, t


def targets(final, rng):
    """(number of & written, parameter type) candidates for a reference of source type `final`"""
    out = [(0, final)] if not (final.startswith("[") and not final.startswith("[]")) and final not in ("S", "T") else []
    core = final
    while core.startswith("&") and not core.startswith("&[]"): core = core[1:]
    if final.startswith("&") and not final.startswith("&[]"): out.append((0, core))          # dereferenced implicitly
    m = re.match(r"\[(\d+)\](.*)", core)
    if m:
        out += [(0, "[]" + m.group(2)), (1, "&[]" + m.group(2)), (1, "&[%s]%s" % (m.group(1), m.group(2)))]
    elif core in ("S", "T"):
        out += [(0, core), (1, "&" + core)]
    elif core.startswith("[]"):
        out += [(0, core)]
    elif core.startswith("&[]"):
        out += [(1, core)]
    else:
        out += [(0, core), (1, "&" + core), (2, "&&" + core)]
    return out


def cases(rng, n):
    out = []
    for i in range(n):
        kind, bt = BASES[i % len(BASES)]
        suffix, final = ty_after(bt, rng, None)
        tg = targets(final, rng)
        if not tg: continue
        ad, pt = rng.choice(tg)
        if pt.startswith("[") and not pt.startswith("[]"): continue        # arrays are not parameter types
        params = (["b: %s" % bt] if kind == "param" else [])
        body = ("\tvar b: %s;\n" % bt if kind == "local" else "") + "\ttarget(%sb%s);\n" % ("&" * ad, suffix)
        src = DECLS + "fn target(x: %s)\n{\n}\nfn f(%s)\n{\n%s}\nfn main()\n{\n}\n" % (pt, ", ".join(params), body)
        steps = re.findall(r"\[\d+\]|\.\w+", suffix)
        out.append(("ad%d" % i, src, dict(kind=kind, base=bt, steps=steps, ad=ad, target=pt, ref="%sb%s" % ("&" * ad, suffix))))
    return out


def find_all(tree, head):
    if isinstance(tree, list):
        if tree and tree[0] == head: yield tree
        for x in tree:
            yield from find_all(x, head)


def run(ck, n, seed):
    rng = random.Random(seed)
    cs = cases(rng, n)
    impl = C.run_harness("typed", [(c[0], c[1]) for c in cs], ck.work + "/adtie", timeout=1800)
    items, meta = [], {}
    stats = collections.Counter(); bad = 0
    for cid, src, info in cs:
        f = impl.get(cid, ["missing"])
        if not f[0].startswith("ok"):
            if f[0].startswith("err codes="): stats["rejected"] += 1
            else:
                stats["failed"] += 1
                key = C.failure_key(f[0])
                if key == "impl-failure:panic@alpha/typer.rs:autoderef#5":
                    stats["D11"] += 1; continue          # (the listed finding of C02; Props/C02.v C02_autoderef_panics_only_as_D11)
                ck.violation(key, "the typer failed on the reference `%s` (base %s) passed for a parameter of type %s: %s" % (info["ref"], info["base"], info["target"], f[0][:160]), src)
            continue
        tree = parse(f[1])
        structs = [d for d in tree[1:] if isinstance(d, list) and d[0] == "struct"]
        fns = [d for d in tree[1:] if isinstance(d, list) and d[0] == "fn"]
        if len(structs) != 2 or len(fns) < 2:
            stats["unexpected-tree"] += 1; continue
        if len(structs[0][2]) - 1 != len(MEMBERS): structs = [structs[1], structs[0]]        # (listed in the order of analysis)
        sid, tid = structs[0][1], structs[1][1]
        mids = structs[0][2][1:] + structs[1][2][1:]
        mtys = [m[2] for m in MEMBERS] + [m[2] for m in TMEMBERS]
        members = " ".join("(%s %s)" % (mid, mt.replace("@S", "(struct %s)" % sid).replace("@T", "(struct %s)" % tid)) for mid, mt in zip(mids, mtys))
        name_to_id = dict(zip([m[0] for m in MEMBERS], structs[0][2][1:])); name_to_id.update(dict(zip([m[0] for m in TMEMBERS], structs[1][2][1:])))
        target_fn, f_fn = fns[0], fns[1]
        ctx = show(target_fn[2][1][2])
        calls = list(find_all(f_fn, "mcall"))
        if not calls: stats["no-call"] += 1; continue
        arg = calls[0][4]
        coerced = False
        if isinstance(arg, list) and arg[0] == "coerce": coerced = True; arg = arg[1]
        if not (isinstance(arg, list) and arg[0] == "deref"): stats["not-a-deref"] += 1; continue
        ref = arg[1]
        # the base type: the parameter of f or its local
        if info["kind"] == "param": base = show(f_fn[2][1][2])
        else:
            vars_ = list(find_all(f_fn, "var"))
            base = show(vars_[0][3]) if vars_ else "?"
        if "!" in base or "?" in base or "!" in ctx: stats["untyped"] += 1; continue
        real_steps = " ".join("elem" if s[0] == "elem" else "(mem %s)" % s[1] if s[0] == "mem" else s[0] for s in ref[3:])
        real = "ok steps=[%s] addr=%s type=%s" % (real_steps, ref[2], show(arg[2]))
        msteps = " ".join("e" if s.startswith("[") else "(m %s)" % name_to_id[s[1:]] for s in info["steps"])
        items.append(("autoderef", cid, "(ad %s (steps %s) %d %s (members %s))" % (base, msteps, info["ad"], ctx, members)))
        meta[cid] = (real, coerced, src, info)
    model = C.run_model(items, ck.work + "/adtie")
    for cid, (real, coerced, src, info) in meta.items():
        m = model.get(cid, "MODEL-MISSING")
        mm = re.match(r"(ok steps=\[.*?\] addr=\d type=.*?) coerce=(.*?) argcoerce=(.*)$", m)
        stats["compared"] += 1
        if not mm or mm.group(1) != real or ((mm.group(2) != "none" or mm.group(3) != "none") != coerced):
            bad += 1
            ck.violation("tie-broken:autoderef", "the typer elaborates `%s` (base %s, parameter %s) as [%s%s]; Model/Autoderef.v (analyze_deref) says [%s]" % (info["ref"], info["base"], info["target"], real, " coerced" if coerced else "", m),
                         "source:\n%s" % src)
        else:
            stats["coerced" if coerced else "plain"] += 1
    ck.log("autoderef tie: %d references %s, %d differences" % (len(cs), dict(stats), bad))
    return len(cs), dict(stats), bad


def run_assign(ck, n, seed):
    """the same for the TARGET of an assignment (typer.rs analyze_assignment_steps = Model/AssignSteps.v): `b<path> = value;`
    for paths that end at an i32 / i64 / u8 scalar"""
    rng = random.Random(seed)
    cs = []
    for i in range(n):
        kind, bt = BASES[i % len(BASES)]
        suffix, final = ty_after(bt, rng, None)
        core = final
        while core.startswith("&") and not core.startswith("&[]"): core = core[1:]
        if core not in ("i32", "i64", "u8", "char8"): continue
        if not suffix and kind == "param" and not bt.startswith("&"): continue          # a by-value parameter is not assignable
        params = (["b: %s" % bt] if kind == "param" else [])
        val = "'c'" if core == "char8" else "1"
        body = ("\tvar b: %s;\n" % bt if kind == "local" else "") + "\tb%s = %s;\n" % (suffix, val)
        src = DECLS + "fn f(%s)\n{\n%s}\nfn main()\n{\n}\n" % (", ".join(params), body)
        cs.append(("as%d" % i, src, dict(kind=kind, base=bt, steps=re.findall(r"\[\d+\]|\.\w+", suffix), ref="b%s" % suffix)))
    impl = C.run_harness("typed", [(c[0], c[1]) for c in cs], ck.work + "/astie", timeout=1800)
    items, meta = [], {}
    stats = collections.Counter(); bad = 0
    for cid, src, info in cs:
        f = impl.get(cid, ["missing"])
        if not f[0].startswith("ok"):
            if f[0].startswith("err codes="): stats["rejected"] += 1
            else:
                stats["failed"] += 1
                ck.violation(C.failure_key(f[0]), "the typer failed on the assignment `%s = ..` (base %s): %s" % (info["ref"], info["base"], f[0][:160]), src)
            continue
        tree = parse(f[1])
        structs = [d for d in tree[1:] if isinstance(d, list) and d[0] == "struct"]
        fns = [d for d in tree[1:] if isinstance(d, list) and d[0] == "fn"]
        if len(structs) != 2 or not fns: stats["unexpected-tree"] += 1; continue
        if len(structs[0][2]) - 1 != len(MEMBERS): structs = [structs[1], structs[0]]
        sid, tid = structs[0][1], structs[1][1]
        mids = structs[0][2][1:] + structs[1][2][1:]
        mtys = [m[2] for m in MEMBERS] + [m[2] for m in TMEMBERS]
        members = " ".join("(%s %s)" % (mid, mt.replace("@S", "(struct %s)" % sid).replace("@T", "(struct %s)" % tid)) for mid, mt in zip(mids, mtys))
        name_to_id = dict(zip([m[0] for m in MEMBERS], structs[0][2][1:])); name_to_id.update(dict(zip([m[0] for m in TMEMBERS], structs[1][2][1:])))
        f_fn = fns[0]
        asg = list(find_all(f_fn, "assign"))
        if not asg: stats["no-assignment"] += 1; continue
        ref = asg[0][1]
        if info["kind"] == "param": base = show(f_fn[2][1][2])
        else:
            vars_ = list(find_all(f_fn, "var"))
            base = show(vars_[0][3]) if vars_ else "?"
        if "!" in base or "?" in base: stats["untyped"] += 1; continue
        real_steps = " ".join("elem" if s[0] == "elem" else "(mem %s)" % s[1] if s[0] == "mem" else s[0] for s in ref[3:])
        real = "ok steps=[%s] addr=%s" % (real_steps, ref[2])
        msteps = " ".join("e" if s.startswith("[") else "(m %s)" % name_to_id[s[1:]] for s in info["steps"])
        items.append(("assignsteps", cid, "(as %s (steps %s) 0 (members %s))" % (base, msteps, members)))
        meta[cid] = (real, src, info)
    model = C.run_model(items, ck.work + "/astie")
    for cid, (real, src, info) in meta.items():
        m = model.get(cid, "MODEL-MISSING")
        stats["compared"] += 1
        if m != real:
            bad += 1
            ck.violation("tie-broken:assignment-steps", "the typer elaborates the assignment target `%s` (base %s) as [%s]; Model/AssignSteps.v (assignment_steps) says [%s]" % (info["ref"], info["base"], real, m), "source:\n%s" % src)
    ck.log("assignment-steps tie: %d targets %s, %d differences" % (len(cs), dict(stats), bad))
    return len(cs), dict(stats), bad
