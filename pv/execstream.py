"""The `exec` correspondence: generated programs are compiled by the real
compiler and run with lli; the extracted interpreter runs the generator's tree."""
import random, collections
from . import common as C
from . import gen_prog as GP


def run(ck, n, seed, level=1, label="exec", plain_ratio=0.3, metamorphic=True):
    rng = random.Random(seed)
    progs = []
    for i in range(n):
        g = GP.Gen(random.Random(rng.getrandbits(64)), level=level)
        progs.append(g.program())
    srcs, items = [], []
    for i, p in enumerate(progs):
        srcs.append(("p%d" % i, GP.source(p, random.Random(seed * 7919 + i), plain=(rng.random() < plain_ratio))))
        items.append(("exec", "p%d" % i, GP.sexp(p)))
        if metamorphic and i % 4 == 0:
            srcs.append(("p%d.m" % i, GP.source(p, random.Random(seed * 104729 + i), plain=False)))
    impl = C.run_harness("exec-tools", srcs, ck.work + "/" + label, timeout=1800)
    model = C.run_model(items, ck.work + "/" + label)
    stats = collections.Counter()
    outputs = set()
    for cid, src in srcs:
        base = cid.split(".")[0]
        f = impl.get(cid, ["missing"])
        m = model.get(base, "MODEL-MISSING")
        if not f[0].startswith("ok"):
            stats["rejected"] += 1
            if f[0].startswith("err codes="):
                ck.violation("rejected-valid:" + f[0], "a generated well-formed program is rejected: " + f[0], "source:\n%s\nmodel says: %s" % (src, m))
            else:
                ck.violation("impl-failure:" + f[0].split(" ")[0], "compiler failed: " + f[0], src)
            continue
        if len(f) >= 3 and f[2] != "tools=ok":
            ck.violation("invalid-ir:" + f[2].split(":")[0], "LLVM tools reject the emitted IR: " + f[2], src)
        if m in ("UB", "FUEL"):
            stats["skipped-" + m] += 1; continue
        if not m.startswith("exit="):
            stats["model-error"] += 1
            ck.violation("tie-broken:interpreter", "interpreter could not run a generated program: " + m, "source:\n%s\nsexp: %s" % (src, dict((i[1], i[2]) for i in items).get(base)))
            continue
        real = f[1].split(" stderr=")[0]
        stats["compared"] += 1
        outputs.add(m)
        if real != m:
            ck.violation("wrong-output", "program output differs from the source semantics", "source:\n%s\nreal (lli): %s\nsemantics : %s" % (src, f[1], m))
    return len(srcs), stats, len(outputs), srcs
