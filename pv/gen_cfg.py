"""Random ACCEPTED control-flow skeletons for the lowering correspondence
(Model/Cfg.v): every action is `r = K;` with a distinct constant K, every
condition `r == C` with a distinct C, so that the blocks of the emitted IR can
be read back exactly (which action landed in which block, which comparison
feeds which conditional branch)."""
import random


class G:
    def __init__(self, rng):
        self.rng = rng; self.na = 0; self.nc = 0; self.nl = 0

    def act(self):
        self.na += 1; return ('a', 1000 + self.na)

    def cond(self):
        self.nc += 1; return 5000 + self.nc

    def label(self):
        self.nl += 1; return self.nl

    def body(self, depth, n, in_block):
        """list of statements; gotos target labels placed later in this list or
        labels handed down by the caller (enclosing lists, later)"""
        rng = self.rng
        out = []
        pending = []  # labels that must still be placed in this list
        for i in range(n):
            x = rng.random()
            if x < 0.30:
                out.append(self.act())
            elif x < 0.50:
                # goto (plain or conditional) to a label placed later here
                if pending and rng.random() < 0.4: l = rng.choice(pending)
                else:
                    l = self.label(); pending.append(l)
                if rng.random() < 0.5: out.append(('g', l))
                else: out.append(('if', self.cond(), ('g', l), None))
            elif x < 0.58 and pending:
                l = pending.pop(rng.randrange(len(pending))); out.append(('l', l))
            elif x < 0.75 and depth > 0:
                inner, need = self.nested(depth - 1, rng.randint(0, 4), True)
                out.append(('b', inner)); pending += need
            elif x < 0.92 and depth > 0:
                t, need = self.branch(depth - 1)
                pending += need
                e = None
                if rng.random() < 0.5:
                    e, need2 = self.branch(depth - 1, else_=True)
                    pending += need2
                out.append(('if', self.cond(), t, e))
            else:
                out.append(self.act())
        for l in pending:
            # place each pending label at the end, possibly followed by an action
            out.append(('l', l))
            if rng.random() < 0.5: out.append(self.act())
        return out

    def nested(self, depth, n, may_loop):
        """a braced block: its own gotos may also leave to labels the parent places later"""
        rng = self.rng
        before = self.nl
        inner = self.body(depth, n, True)
        need = []
        # some extra gotos out of the block, to labels of the parent
        if rng.random() < 0.35:
            l = self.label(); need.append(l)
            pos = rng.randint(0, len(inner))
            st = ('g', l) if rng.random() < 0.5 else ('if', self.cond(), ('g', l), None)
            inner.insert(pos, st)
        if may_loop and rng.random() < 0.3:
            inner.append(('loop',))
            if not need and rng.random() < 0.8:
                # give the loop an exit
                l = self.label(); need.append(l)
                inner.insert(rng.randint(0, len(inner) - 1), ('if', self.cond(), ('g', l), None))
        return inner, need

    def branch(self, depth, else_=False):
        rng = self.rng
        x = rng.random()
        if x < 0.25:
            l = self.label(); return ('g', l), [l]
        if else_ and x < 0.4 and depth > 0:
            t, need = self.branch(depth - 1)
            e = None
            if rng.random() < 0.5:
                e, n2 = self.branch(depth - 1, else_=True); need = need + n2
            return ('if', self.cond(), t, e), need
        inner, need = self.nested(depth, rng.randint(0, 3), True)
        return ('b', inner), need


def gen(rng, depth=3, n=None):
    g = G(rng)
    body = g.body(depth, n if n is not None else rng.randint(1, 7), False)
    return body


def render(body, ind=1):
    t = "\t" * ind; s = ""
    for st in body: s += render_stmt(st, ind)
    return s


def render_stmt(st, ind):
    t = "\t" * ind; k = st[0]
    if k == 'a': return "%sr = %d;\n" % (t, st[1])
    if k == 'g': return "%sgoto l%d;\n" % (t, st[1])
    if k == 'l': return "%sl%d:\n" % (t, st[1])
    if k == 'loop': return "%sloop;\n" % t
    if k == 'b': return "%s{\n%s%s}\n" % (t, render(st[1], ind + 1), t)
    if k == 'if':
        def br(b):
            return render_stmt(b, ind + 1) if b[0] == 'g' else render_stmt(b, ind)
        s = "%sif r == %d\n%s" % (t, st[1], br(st[2]))
        if st[3] is not None:
            if st[3][0] == 'if': s += "%selse %s" % (t, render_stmt(st[3], ind).lstrip("\t"))
            else: s += "%selse\n%s" % (t, br(st[3]))
        return s
    raise ValueError(k)


def source(body):
    return "fn main() -> i32\n{\n\tvar r: i32 = 0;\n" + render(body) + "\treturn: r\n}\n"


def sexp(body):
    def s(st):
        k = st[0]
        if k in ('a', 'g', 'l'): return "(%s %d)" % (k, st[1])
        if k == 'loop': return "(loop)"
        if k == 'b': return "(b %s)" % " ".join(s(x) for x in st[1])
        if k == 'if':
            return "(if %d %s%s)" % (st[1], s(st[2]), "" if st[3] is None else " " + s(st[3]))
    return "(body %s)" % " ".join(s(x) for x in body)
