(* Shared conventions: names and diagnostic codes are binary naturals. *)
From Coq Require Export List Bool NArith ZArith Lia.
Export ListNotations.

Definition name := N.
Definition code := N.

Definition mem_name (l : name) (ls : list name) : bool := existsb (N.eqb l) ls.

Lemma mem_name_app l a b : mem_name l (a ++ b) = mem_name l a || mem_name l b.
Proof. unfold mem_name. apply existsb_app. Qed.

Lemma mem_name_In l ls : mem_name l ls = true <-> In l ls.
Proof.
  unfold mem_name. rewrite existsb_exists. split.
  - intros [x [Hin Heq]]. apply N.eqb_eq in Heq. now subst.
  - intros Hin. exists l. split; [assumption|apply N.eqb_refl].
Qed.

Lemma mem_name_false l ls : mem_name l ls = false <-> ~ In l ls.
Proof.
  rewrite <- mem_name_In. destruct (mem_name l ls); split; intros; congruence.
Qed.

Lemma mem_name_rev l ls : mem_name l (rev ls) = mem_name l ls.
Proof.
  induction ls as [|x xs IH]; [reflexivity|].
  cbn [rev]. rewrite mem_name_app, IH. unfold mem_name. cbn [existsb].
  destruct (N.eqb l x), (existsb (N.eqb l) xs); reflexivity.
Qed.
