(* Vocabulary shared by the generated tables (Gen/*.v) and the models:
   primitive types, source operators, the LLVM instructions / predicates / casts
   the generator can select. *)
From PV Require Import Base.Common.

Inductive prim :=
| Int8 | Int16 | Int32 | Int64 | Int128
| Uint8 | Uint16 | Uint32 | Uint64 | Uint128
| Usize | Char8 | Bool.

Definition all_prims : list prim :=
  [Int8; Int16; Int32; Int64; Int128; Uint8; Uint16; Uint32; Uint64; Uint128; Usize; Char8; Bool].

Definition prim_eqb (a b : prim) : bool :=
  match a, b with
  | Int8, Int8 | Int16, Int16 | Int32, Int32 | Int64, Int64 | Int128, Int128
  | Uint8, Uint8 | Uint16, Uint16 | Uint32, Uint32 | Uint64, Uint64 | Uint128, Uint128
  | Usize, Usize | Char8, Char8 | Bool, Bool => true
  | _, _ => false
  end.

Lemma prim_eqb_eq a b : prim_eqb a b = true <-> a = b.
Proof. destruct a, b; cbn; split; intros H; try reflexivity; discriminate. Qed.

Lemma all_prims_complete t : In t all_prims.
Proof. destruct t; cbn; tauto. Qed.

Inductive binop :=
| Add | Subtract | Multiply | Divide | Modulo
| BitwiseAnd | BitwiseOr | BitwiseXor | ShiftLeft | ShiftRight | AdvancePointer.
Definition all_binops := [Add; Subtract; Multiply; Divide; Modulo; BitwiseAnd; BitwiseOr; BitwiseXor; ShiftLeft; ShiftRight; AdvancePointer].

Inductive unop := Negative | BitwiseComplement.
Inductive cmpop := Equals | DoesNotEqual | IsGreater | IsGE | IsLess | IsLE.
Definition all_cmpops := [Equals; DoesNotEqual; IsGreater; IsGE; IsLess; IsLE].

(* LLVM instructions the translator knows by name.  Variants with nsw/nuw/exact
   flags are listed so that a change to one of them is translated faithfully
   (their semantics below is "may be poison"). *)
Inductive instr :=
| IAdd | ISub | IMul | ISDiv | IUDiv | ISRem | IURem
| IAnd | IOr | IXor | IShl | ILShr | IAShr | IGEP | INeg | INot
| IAddNSW | IAddNUW | ISubNSW | ISubNUW | IMulNSW | IMulNUW | ISDivExact | INegNSW | IOther.

Inductive pred := PEq | PNe | PSgt | PUgt | PSlt | PUlt | PSge | PUge | PSle | PUle.

Inductive cast := CTrunc | CSExt | CZExt | CNone.

Inductive operand_type := OPrim (t : prim) | OPointer.

Definition operand_eqb (a b : operand_type) : bool :=
  match a, b with
  | OPrim x, OPrim y => prim_eqb x y
  | OPointer, OPointer => true
  | _, _ => false
  end.

Definition mem_operand (a : operand_type) (l : list operand_type) : bool := existsb (operand_eqb a) l.
Definition mem_prim (a : prim) (l : list prim) : bool := existsb (prim_eqb a) l.
