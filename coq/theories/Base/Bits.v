(* Two's-complement bit patterns as integers modulo 2^w, and the LangRef
   semantics of the integer instructions the generator selects.
   [repr w v]: bit pattern of the mathematical integer v;  [sgn w b]: signed
   reading of a pattern. *)
From Coq Require Import ZArith Lia Bool.
From PV Require Import Base.Common Base.IR.
Open Scope Z_scope.

Definition modulus (w : Z) := 2 ^ w.
Definition repr (w v : Z) : Z := v mod modulus w.
Definition sgn (w b : Z) : Z := if b <? 2 ^ (w - 1) then b else b - modulus w.
Definition in_s (w v : Z) := - 2 ^ (w - 1) <= v < 2 ^ (w - 1).
Definition in_u (w v : Z) := 0 <= v < 2 ^ w.
Definition in_range (signed : bool) (w v : Z) := if signed then in_s w v else in_u w v.

(* the value a bit pattern denotes for a type of the given signedness *)
Definition value_of (signed : bool) (w b : Z) : Z := if signed then sgn w b else b.
(* wrapping a mathematical result into the type *)
Definition wrap (signed : bool) (w v : Z) : Z := value_of signed w (repr w v).

Lemma modulus_pos w : 0 <= w -> 0 < modulus w.
Proof. intros; unfold modulus; apply Z.pow_pos_nonneg; lia. Qed.

Lemma modulus_half w : 0 < w -> modulus w = 2 * 2 ^ (w - 1).
Proof. intros. unfold modulus. replace w with (1 + (w - 1)) at 1 by lia.
  rewrite Z.pow_add_r by lia. reflexivity. Qed.

Lemma repr_range w v : 0 <= w -> in_u w (repr w v).
Proof. intros. unfold in_u, repr. fold (modulus w). apply Z.mod_pos_bound. now apply modulus_pos. Qed.

Lemma repr_small w v : in_u w v -> repr w v = v.
Proof. intros [A B]. unfold repr, modulus. apply Z.mod_small. lia. Qed.

Lemma repr_repr w v : 0 <= w -> repr w (repr w v) = repr w v.
Proof. intros. apply repr_small. now apply repr_range. Qed.

Lemma sgn_repr w v : 0 < w -> in_s w v -> sgn w (repr w v) = v.
Proof.
  intros Hw [Hlo Hhi]. unfold sgn, repr.
  pose proof (modulus_pos w ltac:(lia)) as Hm. pose proof (modulus_half w Hw) as Hh.
  assert (0 < 2 ^ (w-1)) by (apply Z.pow_pos_nonneg; lia).
  destruct (Z.ltb_spec (v mod modulus w) (2 ^ (w - 1))).
  - destruct (Z_lt_le_dec v 0).
    + exfalso. assert (v mod modulus w = v + modulus w).
      { symmetry. apply Z.mod_unique with (q := -1); lia. } lia.
    + apply Z.mod_small; lia.
  - destruct (Z_lt_le_dec v 0).
    + assert (v mod modulus w = v + modulus w).
      { symmetry. apply Z.mod_unique with (q := -1); lia. } lia.
    + rewrite Z.mod_small in * by lia. lia.
Qed.

Lemma repr_sgn w b : 0 < w -> in_u w b -> repr w (sgn w b) = b.
Proof.
  intros Hw [Hlo Hhi]. unfold sgn, repr. pose proof (modulus_pos w ltac:(lia)).
  fold (modulus w) in Hhi.
  destruct (Z.ltb_spec b (2 ^ (w - 1))).
  - apply Z.mod_small; lia.
  - replace (b - modulus w) with (b + (-1) * modulus w) by lia.
    rewrite Z.mod_add by lia. apply Z.mod_small; lia.
Qed.

Lemma sgn_in_s w b : 0 < w -> in_u w b -> in_s w (sgn w b).
Proof.
  intros Hw [Hlo Hhi]. unfold sgn, in_s. pose proof (modulus_half w Hw). fold (modulus w) in Hhi.
  destruct (Z.ltb_spec b (2 ^ (w - 1))); lia.
Qed.

Lemma value_of_repr s w v : 0 < w -> in_range s w v -> value_of s w (repr w v) = v.
Proof. destruct s; cbn; intros. now apply sgn_repr. now apply repr_small. Qed.

Lemma repr_value_of s w b : 0 < w -> in_u w b -> repr w (value_of s w b) = b.
Proof. destruct s; cbn; intros. now apply repr_sgn. now apply repr_small. Qed.

Lemma repr_wrap s w v : 0 < w -> repr w (wrap s w v) = repr w v.
Proof. intros. unfold wrap. apply repr_value_of; [assumption|apply repr_range; lia]. Qed.

Lemma wrap_in_range s w v : 0 < w -> in_range s w (wrap s w v).
Proof.
  intros. unfold wrap. destruct s; cbn.
  - apply sgn_in_s; [assumption|apply repr_range; lia].
  - apply repr_range; lia.
Qed.

Lemma repr_add w x y : 0 <= w -> repr w (repr w x + repr w y) = repr w (x + y).
Proof. intros. unfold repr. symmetry. apply Z.add_mod. pose proof (modulus_pos w H). lia. Qed.
Lemma repr_sub w x y : 0 <= w -> repr w (repr w x - repr w y) = repr w (x - y).
Proof. intros. unfold repr. symmetry. apply Zminus_mod. Qed.
Lemma repr_mul w x y : 0 <= w -> repr w (repr w x * repr w y) = repr w (x * y).
Proof. intros. unfold repr. symmetry. apply Z.mul_mod. pose proof (modulus_pos w H). lia. Qed.
Lemma repr_opp w x : 0 <= w -> repr w (- repr w x) = repr w (- x).
Proof.
  intros. replace (- repr w x) with (repr w 0 - repr w x).
  - rewrite repr_sub by assumption. reflexivity.
  - unfold repr at 1. rewrite Z.mod_0_l; [lia|]. pose proof (modulus_pos w H). lia.
Qed.

(* ---- instruction semantics (None = poison / undefined / not an integer op) --- *)
Definition ir_binop (i : instr) (w a b : Z) : option Z :=
  match i with
  | IAdd => Some (repr w (a + b))
  | ISub => Some (repr w (a - b))
  | IMul => Some (repr w (a * b))
  | ISDiv => if (b =? 0) || ((sgn w a =? - 2 ^ (w - 1)) && (sgn w b =? -1)) then None
             else Some (repr w (Z.quot (sgn w a) (sgn w b)))
  | IUDiv => if b =? 0 then None else Some (a / b)
  | ISRem => if (b =? 0) || ((sgn w a =? - 2 ^ (w - 1)) && (sgn w b =? -1)) then None
             else Some (repr w (Z.rem (sgn w a) (sgn w b)))
  | IURem => if b =? 0 then None else Some (a mod b)
  | IAnd => Some (repr w (Z.land a b))
  | IOr => Some (repr w (Z.lor a b))
  | IXor => Some (repr w (Z.lxor a b))
  | IShl => if b <? w then Some (repr w (a * 2 ^ b)) else None
  | ILShr => if b <? w then Some (a / 2 ^ b) else None
  | IAShr => if b <? w then Some (repr w (sgn w a / 2 ^ b)) else None
  | _ => None
  end.

Definition ir_unop (i : instr) (w a : Z) : option Z :=
  match i with
  | INeg => Some (repr w (- a))
  | INot => Some (repr w (modulus w - 1 - a))   (* xor with all ones *)
  | _ => None
  end.

Definition ir_icmp (p : pred) (w a b : Z) : bool :=
  match p with
  | PEq => a =? b
  | PNe => negb (a =? b)
  | PSgt => sgn w a >? sgn w b
  | PUgt => a >? b
  | PSlt => sgn w a <? sgn w b
  | PUlt => a <? b
  | PSge => sgn w a >=? sgn w b
  | PUge => a >=? b
  | PSle => sgn w a <=? sgn w b
  | PUle => a <=? b
  end.

Definition ir_cast (c : cast) (ws wd a : Z) : Z :=
  match c with
  | CTrunc => a mod modulus wd
  | CSExt => repr wd (sgn ws a)
  | CZExt => a
  | CNone => a
  end.

Lemma cast_trunc ws wd v : 0 <= wd <= ws -> ir_cast CTrunc ws wd (repr ws v) = repr wd v.
Proof.
  intros Hw. cbn. unfold repr, modulus.
  replace ws with (wd + (ws - wd)) by lia. rewrite Z.pow_add_r by lia.
  rewrite Z.rem_mul_r; try (apply Z.pow_nonzero; lia); try (apply Z.pow_pos_nonneg; lia).
  rewrite Z.mul_comm, Z.mod_add by (apply Z.pow_nonzero; lia).
  apply Z.mod_mod. apply Z.pow_nonzero; lia.
Qed.

Lemma cast_sext ws wd v : 0 < ws -> in_s ws v -> ir_cast CSExt ws wd (repr ws v) = repr wd v.
Proof. intros Hw Hv. cbn. now rewrite sgn_repr. Qed.

Lemma pow2_le a b : 0 <= a <= b -> 2 ^ a <= 2 ^ b.
Proof. intros. apply Z.pow_le_mono_r; lia. Qed.

Lemma cast_zext ws wd v : 0 <= ws <= wd -> in_u ws v -> ir_cast CZExt ws wd (repr ws v) = repr wd v.
Proof.
  intros Hw Hv. cbn. rewrite (repr_small ws v Hv). symmetry. apply repr_small.
  destruct Hv. split; [lia|]. pose proof (pow2_le ws wd Hw). lia.
Qed.
