(* Token vocabulary shared by the two lexer models (src/alpha/lexer.rs Token,
   src/delta/lexer.rs BaseToken).  One constructor per token kind of the lexical
   grammar; payloads are carried separately in [tok]. *)
From PV Require Import Base.Common Base.IR.

Inductive tkind :=
(* single-character *)
| KParenLeft | KParenRight | KBraceLeft | KBraceRight | KBracketLeft | KBracketRight
| KAngleLeft | KAngleRight | KPipe | KAmpersand | KCaret | KExclamation | KPlaceholder
| KPlus | KMinus | KTimes | KDivide | KModulo | KColon | KSemicolon | KDot | KComma | KAssignment
(* double-character *)
| KEquals | KDoesNotEqual | KIsGE | KIsLE | KShiftLeft | KShiftRight | KArrow | KPipeForType | KDots
(* keywords *)
| KFn | KVar | KConst | KIf | KGoto | KLoop | KReturn | KElse | KCast | KAs | KImport | KPub | KExtern
| KStruct | KWord8 | KWord16 | KWord32 | KWord64 | KWord128
(* type keyword: the type is in [vtype]; Void is [None] with [is_void] *)
| KType
(* tokens whose text is their span *)
| KIdentifier | KBuiltin
(* tokens with an integer payload in [value] *)
| KNakedDecimal | KBitInteger | KSuffixedInteger | KCharLiteral | KBool
(* string literal: decoded bytes in [bytes] (first-generation lexer only) *)
| KStringLiteral
(* lexical error: the documented code in [value] *)
| KError.

(* Type keywords: the 13 primitive types plus void. *)
Inductive tykw := TyVoid | TyPrim (p : prim).

Record tok := {
  kind : tkind;
  value : Z;                 (* integer payload / bool as 0,1 / char value / error code; 0 otherwise *)
  vtype : option tykw;       (* KType: the type; KSuffixedInteger: the suffix type; None otherwise *)
  bytes : list N;            (* KStringLiteral: decoded bytes; [] otherwise *)
  tstart : N;                (* span start offset (chars for the first generation, bytes for the second) *)
  tend : N;                  (* span end offset (exclusive) *)
  line : N;                  (* line number as the lexer reports it *)
  lstart : N                 (* offset of the token within its line (line_offset) *)
}.

(* Codes of lexical errors (src/alpha/error.rs Error::code, lexer::Error arms). *)
Definition E102 := 102%Z. Definition E103 := 103%Z. Definition E101 := 101%Z.
Definition E110 := 110%Z. Definition E140 := 140%Z. Definition E141 := 141%Z.
Definition E160 := 160%Z. Definition E161 := 161%Z. Definition E162 := 162%Z. Definition E163 := 163%Z.
