(* C14 — both lexers implement the same lexical grammar, with exact spans.
   Models: Model/LexAlpha.v (src/alpha/lexer.rs), Model/LexDelta.v
   (src/delta/lexer.rs, src/delta/lexer/tokens.rs); both were validated against
   the real lexers on millions of inputs and are re-validated on every run. *)
From PV Require Import Base.Common Base.IR Base.Tok Model.LexAlpha Model.LexDelta.
From PV Require Proofs.LexAlphaProofs Proofs.LexDeltaProofs Proofs.LexAgreeProofs.
Module A := LexAlphaProofs.
Module D := LexDeltaProofs.
Module G := LexAgreeProofs.

(* ---- first generation ------------------------------------------------------------ *)
(* Spans: for EVERY source (LF, CRLF, bare CR, non-ASCII) every token's span is the
   exact character range of its text, on the right line, at the right column. *)
Theorem C14_alpha_span_exact : forall src t,
  src <> [] -> In t (lex_alpha_fixed src) -> A.tok_in_source_fixed src t.
Proof. exact A.span_exact_fixed. Qed.

(* Integer payloads: a decimal digit string denotes its mathematical value, or
   E140 from 2^128 on; with a valid suffix it is a suffixed integer of that type. *)
Theorem C14_alpha_decimal_value : forall x ds rest,
  LexAlpha.is_nonzero_dec x = true -> A.digits_us LexAlpha.is_dec ds = true -> A.stops rest ->
  let v := A.value_of_digits 10 (x :: A.strip_us ds) in
  LexAlpha.lex_step x (ds ++ rest) =
  (if (v <? 2 ^ 128)%Z then StTok KNakedDecimal v None [] (1 + len ds) rest
   else StTok KError E140 None [] (1 + len ds) rest).
Proof. exact A.decimal_value. Qed.

Theorem C14_alpha_suffix_value : forall x ds suf p rest,
  LexAlpha.is_nonzero_dec x = true -> A.digits_us LexAlpha.is_dec ds = true ->
  In (suf, p) LexAlpha.suffix_table -> A.stops rest ->
  let v := A.value_of_digits 10 (x :: A.strip_us ds) in
  let n := 1 + len ds + len suf in
  LexAlpha.lex_step x (ds ++ suf ++ rest) =
  (if (v <? 2 ^ 128)%Z then StTok KSuffixedInteger v (Some (TyPrim p)) [] n rest
   else StTok KError E140 None [] n rest).
Proof. exact A.suffix_value. Qed.

(* String literals: every valid item (plain character, simple escape, \xHH,
   \u{...}) contributes exactly its byte(s). *)
Theorem C14_alpha_escape_decode : forall items rest,
  forallb (A.item_ok 34) items = true ->
  LexAlpha.lex_step 34 (A.renders items ++ 34 :: rest) =
  StTok KStringLiteral 0 None (A.decodes items) (2 + len (A.renders items)) rest.
Proof. exact A.escape_decode. Qed.

(* Layout: inserting a blank, or a blank + comment + newline, between two tokens
   does not change the tokens. *)
Theorem C14_alpha_whitespace_invariance : forall a b w,
  A.boundary a b -> b <> [] -> A.blank w ->
  forallb (fun c => negb (c =? 10) && negb (c =? 13))%N (a ++ b) = true ->
  map A.pay (lex_alpha_fixed (a ++ w :: b)) = map A.pay (lex_alpha_fixed (a ++ b)).
Proof. exact A.whitespace_invariance_source_fixed. Qed.

Theorem C14_alpha_comment_invariance : forall a b w c,
  A.boundary a b -> b <> [] -> A.blank w ->
  forallb (fun c0 => negb (c0 =? 10) && negb (c0 =? 13))%N (a ++ b) = true ->
  forallb (fun c0 => negb (c0 =? 10) && negb (c0 =? 13))%N c = true ->
  map A.pay (lex_alpha_fixed ((a ++ w :: 47 :: 47 :: c) ++ 10 :: b)) = map A.pay (lex_alpha_fixed (a ++ b)).
Proof. exact A.comment_invariance_source_fixed. Qed.

(* ---- second generation ------------------------------------------------------------ *)
Theorem C14_delta_total : forall src, lex_delta src <> [out_of_fuel_tok].
Proof. exact D.total. Qed.

Theorem C14_delta_span_exact : forall src toks eln esol p,
  lex_result src = LexRun (Done toks eln esol p) ->
  D.spans_sorted 0 toks /\
  Forall (fun t => (tend t <= lenN src)%N /\ bytes t = [] /\ D.tok_origin dec_push src t) toks /\
  (D.has_bsnl src = false ->
     Forall (D.tok_line src) toks /\ eln = D.line_of src (lenN src) /\ esol = D.sol_of src (lenN src)).
Proof. exact D.span_exact_delta. Qed.

(* Decimal literals of the second generation: the mathematical value, or E140
   from 2^128 on - unconditionally (the pinned commit wrapped or panicked: D4). *)
Theorem C14_delta_decimal_value : forall x body,
  in_range 49 57 x = true -> D.is_dec_body body = true -> (lenN (x :: body) <= MAX_SOURCE_LEN)%N ->
  let M := D.dec_value (x - 48) body in
  let n := lenN (x :: body) in
  lex_delta (x :: body) =
    [if (M <? two128)%N then mk_tok KNakedDecimal (Z.of_N M) None 0 n 1 0 else mk_tok KError E140 None 0 n 1 0].
Proof. exact D.decimal_value_delta. Qed.

Theorem C14_delta_no_overflow_panic : forall src, would_overflow_panic src = false.
Proof. exact D.would_overflow_panic_never. Qed.

Theorem C14_delta_pinned_refuted :
  exists src, would_overflow_panic_pinned src = true.
Proof. destruct D.decimal_value_delta_refuted as (x & body & H). exists (x :: body). tauto. Qed.

(* The token buffer (shared with C15) is never overrun. *)
Theorem C14_delta_token_push_in_bounds : forall src,
  lex_delta src = [err_tok0 E103] \/
  (D.lenT (lex_delta src) + num_end_tokens src <= token_capacity (lenN src))%N.
Proof. exact D.token_push_in_bounds. Qed.

(* ---- the two generations agree -------------------------------------------------------- *)
(* keyword, boolean, type, suffix and escape tables are the same tables *)
Theorem C14_classify_agree : forall w, LexDelta.lookup_keyword w = G.classify_spec w.
Proof. exact G.classify_agree. Qed.

Theorem C14_suffix_agree : forall s, LexAlpha.parse_integer_suffix s = LexDelta.parse_integer_suffix s.
Proof. exact G.suffix_agree. Qed.

(* every numeric lexeme (decimal, 0x, 0b, any suffix, valid or not) gets the same
   kind, value, type and extent, outside the listed class K6 (more than 128
   binary digits whose value still fits) *)
Theorem C14_numeric_agree : forall f d w tail tailD i,
  LexAlpha.is_dec d = true -> forallb LexAlpha.is_ident_cont w = true ->
  D.ends_token tail = true -> D.ends_token tailD = true ->
  G.known_bin_leading_zeros (d :: w) = false ->
  exists k v ty,
    LexAlpha.lex_step d (w ++ tail) = LexAlpha.StTok k v ty [] (1 + LexAlpha.len w) tail /\
    srest (LexDelta.lex_step f d (w ++ tailD) i) = tailD /\
    send (LexDelta.lex_step f d (w ++ tailD) i) = (i + 1 + lenN w)%N /\
    act (LexDelta.lex_step f d (w ++ tailD) i) = G.payload_act (k, v, ty) i (i + 1 + lenN w)%N /\
    (k = KError -> ty = None).
Proof. exact G.numeric_agree. Qed.

(* whole multi-line sources without quotes and carriage returns: identical token
   lists (kind, value, type, span, line, column), `return` apart *)
Theorem C14_ascii_agree_partial : forall src,
  src <> [] -> forallb G.okS src = true -> G.bin_free src -> G.return_bang_free src ->
  (lenN src + 2 <= 65536)%N ->
  (D.count_err (lex_alpha src) <= error_capacity (lenN src))%N ->
  map G.erase_return (lex_delta src) = map G.erase_return (lex_alpha src).
Proof. exact G.ascii_agree_partial. Qed.

Print Assumptions C14_alpha_span_exact.
Print Assumptions C14_alpha_decimal_value.
Print Assumptions C14_alpha_suffix_value.
Print Assumptions C14_alpha_escape_decode.
Print Assumptions C14_alpha_whitespace_invariance.
Print Assumptions C14_alpha_comment_invariance.
Print Assumptions C14_delta_total.
Print Assumptions C14_delta_span_exact.
Print Assumptions C14_delta_decimal_value.
Print Assumptions C14_delta_no_overflow_panic.
Print Assumptions C14_delta_token_push_in_bounds.
Print Assumptions C14_classify_agree.
Print Assumptions C14_numeric_agree.
Print Assumptions C14_ascii_agree_partial.
