(* C10 — compile-time evaluation agrees with run time (proved part: size-of and
   structure / word layout).  Model: Model/Layout.v (src/alpha/typer.rs
   align_struct, align; src/alpha/generator.rs SizeOf arms, size_in_bits; LLVM's
   StructLayout under the module data layout). *)
From Coq Require Import ZArith.
From PV Require Import Base.Common Base.IR Model.Layout Proofs.LayoutProofs Gen.TypeTables.
Open Scope Z_scope.

(* `|:T|` is the storage LLVM allocates for T, and the generator's
   assert_eq!(size_in_bits % 8, 0) cannot fire. *)
Theorem C10_sizeof_is_alloc_size : forall t, wf_ty t = true ->
  penne_sizeof t = llvm_alloc_size t /\ sizeof_assert_ok t = true.
Proof. exact penne_sizeof_is_alloc_size. Qed.

(* `|:[N]T|` = N * `|:T|`. *)
Theorem C10_sizeof_array : forall n t,
  llvm_size_bytes (TArr n t) = n * llvm_alloc_size t /\ llvm_alloc_size (TArr n t) = n * llvm_alloc_size t.
Proof. exact sizeof_array. Qed.

(* The type checker's word size (the E380 test) is exactly LLVM's allocation
   size for words of primitive members ... *)
Theorem C10_word_size_agrees : forall sizes,
  Forall (fun s => valid_size s = true) sizes ->
  typer_aligned_size sizes = llvm_alloc_size (TStruct (map TInt sizes)).
Proof. exact word_size_agrees. Qed.

(* ... and never under-estimates it when words are nested in words. *)
Theorem C10_nested_word_conservative : forall ms, wmembers_accepted ms = true ->
  llvm_alloc_size (TStruct (wmember_tys ms)) <= typer_aligned_size (typer_sizes ms).
Proof. exact nested_word_conservative. Qed.

Theorem C10_accepted_word_fits : forall declared ms,
  wmember_accepted (Nested declared ms) = true ->
  0 <= llvm_alloc_size (wmember_ty (Nested declared ms)) <= declared /\
  penne_sizeof (wmember_ty (Nested declared ms)) <= declared.
Proof. exact accepted_word_fits. Qed.

Theorem C10_E380_iff : forall declared members,
  word_accepted declared members = true <-> typer_aligned_size members <= declared.
Proof. exact E380_iff. Qed.

(* Structure sizes follow member sizes and alignment. *)
Theorem C10_struct_layout_facts : forall ms, wf_ty_list ms = true ->
  sum_alloc ms <= llvm_alloc_size (TStruct ms) /\
  (llvm_align (TStruct ms) | llvm_alloc_size (TStruct ms)) /\
  length (struct_offsets ms) = length ms /\
  (forall i m o, nth_error ms i = Some m -> nth_error (struct_offsets ms) i = Some o ->
     0 <= o /\ (llvm_align m | o) /\ o + llvm_alloc_size m <= llvm_alloc_size (TStruct ms)) /\
  (forall i j mi oi mj oj, (i < j)%nat -> nth_error ms i = Some mi -> nth_error (struct_offsets ms) i = Some oi ->
     nth_error ms j = Some mj -> nth_error (struct_offsets ms) j = Some oj -> oi + llvm_alloc_size mi <= oj).
Proof. exact struct_layout_facts. Qed.

Theorem C10_struct_size_monotone : forall ms m, wf_ty_list ms = true -> wf_ty m = true ->
  llvm_alloc_size (TStruct ms) <= llvm_alloc_size (TStruct (ms ++ [m])).
Proof. exact struct_size_monotone. Qed.

(* Tie to the code: the constants of the hand model are those the translator
   reads from value_type.rs on this run. *)
Definition pvt_of_prim (p : prim) : pvt :=
  match p with
  | Int8 => PInt8 | Int16 => PInt16 | Int32 => PInt32 | Int64 => PInt64 | Int128 => PInt128
  | Uint8 => PUint8 | Uint16 => PUint16 | Uint32 => PUint32 | Uint64 => PUint64 | Uint128 => PUint128
  | Usize => POther | Char8 => PChar8 | Bool => PBool
  end.
Theorem C10_model_constants_are_the_codes :
  MAXIMUM_ALIGNMENT = maximum_alignment /\
  forallb (fun p => match known_size_in_bytes_as_word_member (pvt_of_prim p), vt_word_member_size p with
                    | Some a, Some b => a =? b | None, None => true | _, _ => false end) all_prims = true.
Proof. vm_compute. split; reflexivity. Qed.

Example C10_example_i128 : llvm_alloc_size (TStruct [TInt 1; TInt 16; TInt 1]) = 32 /\
  struct_offsets [TInt 1; TInt 16; TInt 1] = [0; 8; 24].
Proof. vm_compute. split; reflexivity. Qed.

Print Assumptions C10_sizeof_is_alloc_size.
Print Assumptions C10_sizeof_array.
Print Assumptions C10_word_size_agrees.
Print Assumptions C10_nested_word_conservative.
Print Assumptions C10_struct_layout_facts.
Print Assumptions C10_model_constants_are_the_codes.
