(* C15 — the second-generation front end is total and memory-safe on any bytes.
   Proved part: the buffer arithmetic.  Lexer (Model/LexDelta.v): totality, the
   token buffer is never overrun, no arithmetic overflow; parser (Model/DeltaNodes.v,
   the node accounting of every production of src/delta/parser.rs): on every
   token array the lexer can produce the parser returns normally, never reaches
   one of its panic sites, keeps its cursor inside the array, and pushes at most
   max_parse_node_context + node_capacity_factor * tokens nodes - the capacity
   ParseTree::empty reserves, regenerated from /repo on every run (Gen/Limits.v). *)
From Coq Require Import List NArith ZArith Lia.
From PV Require Import Base.Common Base.Tok Gen.Limits.
From PV Require Model.LexDelta Proofs.LexDeltaProofs Model.DeltaNodes Proofs.DeltaNodesProofs.
Module L := LexDelta.
Module D := LexDeltaProofs.
Module P := DeltaNodes.
Module Q := DeltaNodesProofs.

(* ---- lexer ---- *)
Theorem C15_lexer_total : forall src, L.lex_delta src <> [L.out_of_fuel_tok].
Proof. exact D.total. Qed.

Theorem C15_token_push_in_bounds : forall src,
  L.lex_delta src = [L.err_tok0 E103] \/
  (D.lenT (L.lex_delta src) + L.num_end_tokens src <= L.token_capacity (L.lenN src))%N.
Proof. exact D.token_push_in_bounds. Qed.

Theorem C15_no_overflow_panic : forall src, L.would_overflow_panic src = false.
Proof. exact D.would_overflow_panic_never. Qed.

(* ---- parser ---- *)
(* The node buffer reserved by the CURRENT source is never overrun. *)
Theorem C15_nodes_within_capacity : forall ts,
  Q.lexer_shaped ts ->
  (P.o_nodes (P.parse_full ts)
   <= P.node_capacity (Z.to_N node_capacity_factor) (Z.to_N max_parse_node_context) (N.of_nat (length ts)))%N.
Proof.
  intros ts H. pose proof (Q.nodes_within_capacity ts H) as B. unfold P.node_capacity in *.
  assert (F : (4 <= Z.to_N node_capacity_factor)%N) by (apply N.leb_le; vm_compute; reflexivity).
  assert (K : (5 <= Z.to_N max_parse_node_context)%N) by (apply N.leb_le; vm_compute; reflexivity).
  nia.
Qed.

(* The parser returns normally: no panic site, no fuel exhaustion (every loop
   consumes a token), the declaration loop ends on EndOfSource. *)
Theorem C15_parse_never_panics : forall ts, Q.lexer_shaped ts -> P.o_status (P.parse_full ts) = P.Ok.
Proof. exact Q.parse_never_panics. Qed.

Theorem C15_cursor_in_bounds : forall ts,
  Q.lexer_shaped ts ->
  (P.o_final (P.parse_full ts) < length ts)%nat
  /\ Forall (fun d => (P.d_start d < P.d_end d)%nat /\ (P.d_end d < length ts)%nat) (P.o_log (P.parse_full ts)).
Proof. exact Q.cursor_in_bounds. Qed.

Theorem C15_declarations_fit : forall ts,
  Q.lexer_shaped ts ->
  (P.o_decls (P.parse_full ts) <= N.of_nat (P.num_possible_declarations ts))%N.
Proof. exact Q.declarations_fit. Qed.

(* The pinned commit reserved 2 nodes per token: refuted (defect D7, repaired);
   3 nodes per token do not suffice either, whatever the constant. *)
Theorem C15_pinned_capacity_refuted :
  exists ts, Q.lexer_shaped ts /\
    (P.o_nodes (P.parse_full ts) > P.node_capacity 2 5 (N.of_nat (length ts)))%N.
Proof. exact Q.node_bound_pinned_refuted. Qed.

Theorem C15_factor_3_refuted :
  exists ts, Q.lexer_shaped ts /\
    (P.o_nodes (P.parse_full ts) > P.node_capacity 3 5 (N.of_nat (length ts)))%N.
Proof. exact Q.node_bound_3_refuted. Qed.

Print Assumptions C15_lexer_total.
Print Assumptions C15_token_push_in_bounds.
Print Assumptions C15_no_overflow_panic.
Print Assumptions C15_nodes_within_capacity.
Print Assumptions C15_parse_never_panics.
Print Assumptions C15_cursor_in_bounds.
Print Assumptions C15_declarations_fit.
Print Assumptions C15_pinned_capacity_refuted.
Print Assumptions C15_factor_3_refuted.
