(* C15 — the second-generation front end is total and memory-safe on any bytes
   (placeholder until Model/DeltaNodes.v is installed; the lexer part is below). *)
From PV Require Import Base.Common Base.Tok Model.LexDelta.
From PV Require Proofs.LexDeltaProofs.
Module D := LexDeltaProofs.

Theorem C15_lexer_total : forall src, lex_delta src <> [out_of_fuel_tok].
Proof. exact D.total. Qed.

Theorem C15_token_push_in_bounds : forall src,
  lex_delta src = [err_tok0 E103] \/
  (D.lenT (lex_delta src) + num_end_tokens src <= token_capacity (lenN src))%N.
Proof. exact D.token_push_in_bounds. Qed.

Theorem C15_no_overflow_panic : forall src, would_overflow_panic src = false.
Proof. exact D.would_overflow_panic_never. Qed.

Print Assumptions C15_lexer_total.
Print Assumptions C15_token_push_in_bounds.
Print Assumptions C15_no_overflow_panic.
