(* C13 — diagnostics are well-located, documented and deterministic (proved
   part: the code table).  Gen/Codes.v is regenerated from src/alpha/error.rs
   (Error::code) and docs/errors.md on every run. *)
From Coq Require Import String.
From PV Require Import Base.Common Gen.Codes.
From Coq Require Import Permutation Sorted.
From PV Require Base.IR Base.Tok Model.LexAlpha Model.Loc Proofs.LocProofs.

Definition mem_code (c : N) (l : list N) : bool := existsb (N.eqb c) l.

Fixpoint distinct_codes (l : list (string * N)) : bool :=
  match l with
  | [] => true
  | (_, c) :: r => negb (mem_code c (map snd r)) && distinct_codes r
  end.

(* Every code the compiler can attach to a diagnostic has a section in the
   published catalogue docs/errors.md. *)
Theorem C13_codes_documented :
  forall name c, In (name, c) codes -> In c documented.
Proof.
  intros name c H.
  assert (A : forallb (fun e => mem_code (snd e) documented) codes = true) by (vm_compute; reflexivity).
  rewrite forallb_forall in A. specialize (A _ H). change (mem_code c documented = true) in A.
  unfold mem_code in A. apply existsb_exists in A. destruct A as [x [Hx E]].
  apply N.eqb_eq in E. now subst.
Qed.

(* No two kinds of diagnostic share a code; error codes are 100..999, lint
   codes 1000..1999 (the ranges build_report uses to pick the letter). *)
Theorem C13_codes_injective : distinct_codes codes = true.
Proof. vm_compute. reflexivity. Qed.

Theorem C13_code_ranges :
  forallb (fun e => (N.leb 100 (snd e) && N.leb (snd e) 1999)%bool) codes = true.
Proof. vm_compute. reflexivity. Qed.

Example C13_table_nonempty : Nat.leb 50 (List.length codes) = true.
Proof. vm_compute. reflexivity. Qed.

(* ---- locations ---------------------------------------------------------------------------
   Every location of the first generation is a token location of the lexer, possibly combined by
   Location::combined_with (Model/Loc.v follows lexer.rs arm by arm).  [anchored src l]: the span
   lies in the source (it may end one past it: the listed finding D64), its line number is the
   line on which the span starts and its line_offset is the column of the span start. *)

(* every token that is not a lexical error is anchored (for EVERY source: LF, CRLF, bare CR,
   non-ASCII); errors inside quoted literals report a displaced column, never a wrong line *)
Theorem C13_token_locations_anchored : forall src t,
  src <> [] -> In t (LexAlpha.lex_alpha_fixed src) -> Tok.kind t <> Tok.KError ->
  LocProofs.anchored src (Loc.loc_of_tok t).
Proof. exact LocProofs.lexer_locations_anchored_ok. Qed.

Theorem C13_every_token_starts_on_its_line : forall src t,
  src <> [] -> In t (LexAlpha.lex_alpha_fixed src) -> LocProofs.anchored_lex src (Loc.loc_of_tok t).
Proof. exact LocProofs.lexer_locations_anchored_lex. Qed.

(* combining keeps locations anchored and yields exactly the hull of the parts - for any tree of
   combinations; receiver and argument may be swapped *)
Theorem C13_combined_location_anchored : forall src t,
  Forall (LocProofs.anchored src) (LocProofs.leaves t) -> LocProofs.anchored src (LocProofs.eval t).
Proof. exact LocProofs.tree_anchored. Qed.

Theorem C13_combined_location_is_the_hull : forall a b,
  Loc.l_start (Loc.combined_with a b) = N.min (Loc.l_start a) (Loc.l_start b) /\
  Loc.l_end (Loc.combined_with a b) = N.max (Loc.l_end a) (Loc.l_end b).
Proof. exact LocProofs.combined_with_covers. Qed.

Theorem C13_combined_with_commutes : forall src a b,
  LocProofs.anchored src a -> LocProofs.anchored src b -> Loc.combined_with a b = Loc.combined_with b a.
Proof. exact LocProofs.combined_with_comm. Qed.

(* the pinned commit kept the receiver's line although the span could start earlier (D44) *)
Theorem C13_pinned_combined_with_refuted :
  exists src a b, LocProofs.anchored src a /\ LocProofs.anchored src b /\
                  ~ LocProofs.anchored src (Loc.combined_with_pinned a b).
Proof. exact LocProofs.combined_with_pinned_refuted. Qed.

(* ---- order of the diagnostics -------------------------------------------------------------
   Errors::sorted is a stable sort by (line, line_offset): for anchored locations that is the
   order of positions in the source; the result is a permutation, sorted, and depends only on the
   relative order of diagnostics AT THE SAME POSITION (which the traversal fixes) - and it does
   depend on that, by a witness. *)
Theorem C13_sorted_diagnostics_in_source_order : forall src (l : list (code * Loc.loc)),
  Forall (fun d => LocProofs.anchored src (snd d)) l ->
  StronglySorted (fun a b => (Loc.l_start (snd a) <= Loc.l_start (snd b))%N) (Loc.sort_diags l).
Proof. exact LocProofs.sort_diags_by_position. Qed.

Theorem C13_sorting_is_canonical : forall (l1 l2 : list (code * Loc.loc)),
  (forall k, filter (LocProofs.has Loc.diag_key k) l1 = filter (LocProofs.has Loc.diag_key k) l2) ->
  Loc.sort_diags l1 = Loc.sort_diags l2.
Proof. exact LocProofs.sort_diags_canonical. Qed.

Theorem C13_sorting_depends_on_order_at_equal_positions :
  exists src a b, LocProofs.anchored src a /\ LocProofs.anchored src b /\ a <> b /\
    Permutation [a; b] [b; a] /\ Loc.sort_locs [a; b] <> Loc.sort_locs [b; a].
Proof. exact LocProofs.sort_depends_on_input_order. Qed.

Print Assumptions C13_codes_documented.
Print Assumptions C13_codes_injective.
Print Assumptions C13_code_ranges.
Print Assumptions C13_token_locations_anchored.
Print Assumptions C13_every_token_starts_on_its_line.
Print Assumptions C13_combined_location_anchored.
Print Assumptions C13_combined_location_is_the_hull.
Print Assumptions C13_combined_with_commutes.
Print Assumptions C13_pinned_combined_with_refuted.
Print Assumptions C13_sorted_diagnostics_in_source_order.
Print Assumptions C13_sorting_is_canonical.
Print Assumptions C13_sorting_depends_on_order_at_equal_positions.
