(* C13 — diagnostics are well-located, documented and deterministic (proved
   part: the code table).  Gen/Codes.v is regenerated from src/alpha/error.rs
   (Error::code) and docs/errors.md on every run. *)
From Coq Require Import String.
From PV Require Import Base.Common Gen.Codes.

Definition mem_code (c : N) (l : list N) : bool := existsb (N.eqb c) l.

Fixpoint distinct_codes (l : list (string * N)) : bool :=
  match l with
  | [] => true
  | (_, c) :: r => negb (mem_code c (map snd r)) && distinct_codes r
  end.

(* Every code the compiler can attach to a diagnostic has a section in the
   published catalogue docs/errors.md. *)
Theorem C13_codes_documented :
  forall name c, In (name, c) codes -> In c documented.
Proof.
  intros name c H.
  assert (A : forallb (fun e => mem_code (snd e) documented) codes = true) by (vm_compute; reflexivity).
  rewrite forallb_forall in A. specialize (A _ H). change (mem_code c documented = true) in A.
  unfold mem_code in A. apply existsb_exists in A. destruct A as [x [Hx E]].
  apply N.eqb_eq in E. now subst.
Qed.

(* No two kinds of diagnostic share a code; error codes are 100..999, lint
   codes 1000..1999 (the ranges build_report uses to pick the letter). *)
Theorem C13_codes_injective : distinct_codes codes = true.
Proof. vm_compute. reflexivity. Qed.

Theorem C13_code_ranges :
  forallb (fun e => (N.leb 100 (snd e) && N.leb (snd e) 1999)%bool) codes = true.
Proof. vm_compute. reflexivity. Qed.

Example C13_table_nonempty : Nat.leb 50 (List.length codes) = true.
Proof. vm_compute. reflexivity. Qed.

Print Assumptions C13_codes_documented.
Print Assumptions C13_codes_injective.
Print Assumptions C13_code_ranges.
