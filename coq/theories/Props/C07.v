(* C07 — no implicit conversions: the resolver's typing gate
   (src/alpha/resolver.rs: resolve_binary_op_type, resolve_unary_op_type,
   resolve_compared_type, analyze_primitive_cast, analyze_bit_cast, use_function;
   tables VALID_TYPES_FOR_* regenerated into Gen/ResolverTables.v on every run).
   Model: Model/Resolve.v; proofs: Proofs/ResolveProofs.v. *)
From Coq Require Import List.
From PV Require Import Base.Common Base.IR Gen.TypeTables Gen.ResolverTables Model.Resolve Proofs.ResolveProofs.
Import ListNotations.
From PV Require Model.TypeLegal Model.Autoderef Proofs.AutoderefProofs.

(* Whatever the gate accepts is well typed: at every binary node both operands
   have the node's type (the offset of a pointer advance is a usize), of the
   operator's class; every cast node converts between two different primitive
   types of the conversion table. *)
Theorem C07_resolve_sound : forall e r, resolve_expr e = Ok r -> well_typed r = true.
Proof. exact resolve_sound. Qed.

Theorem C07_resolve_cmp_sound : forall c r, resolve_cmp c = Ok r -> well_typed_cmp r = true.
Proof. exact resolve_cmp_sound. Qed.

(* Stated on the input: in an accepted expression EVERY binary node, at any
   depth, has two operands of one and the same type. *)
Theorem C07_accepted_binary_nodes : forall e r0 op l r,
  resolve_expr e = Ok r0 -> subexpr (TBinary op l r) e -> is_advance op = false ->
  exists t, value_type l = Some (ROk t) /\ value_type r = Some (ROk t)
            /\ in_class t (binop_valid_types op) = true.
Proof. exact accepted_binary_nodes. Qed.

Theorem C07_accepted_advance_nodes : forall e r0 l r,
  resolve_expr e = Ok r0 -> subexpr (TBinary AdvancePointer l r) e ->
  value_type r = Some (ROk (VPrim Usize))
  /\ exists t, value_type l = Some (ROk t) /\ is_pointer t = true.
Proof. exact accepted_advance_nodes. Qed.

Theorem C07_accepted_unary_nodes : forall e r0 op x,
  resolve_expr e = Ok r0 -> subexpr (TUnary op x) e ->
  exists t, value_type x = Some (ROk t) /\ in_class t (unop_valid_types op) = true.
Proof. exact accepted_unary_nodes. Qed.

Theorem C07_accepted_cast_nodes : forall e r0 x t,
  resolve_expr e = Ok r0 -> subexpr (TTypeCast x t) e ->
  exists s, value_type x = Some (ROk s) /\ (s = t \/ prim_conversion s t = true).
Proof. exact accepted_cast_nodes. Qed.

(* Rejections carry the documented code. *)
Theorem C07_mismatch_rejected : forall op l r a b,
  is_advance op = false ->
  value_type l = Some (ROk a) -> value_type r = Some (ROk b) -> a <> b ->
  exists es, resolve_expr (TBinary op l r) = Err es /\ node_errors2 l r [E551] es.
Proof. exact mismatch_rejected. Qed.

Theorem C07_mismatch_rejected_cmp : forall op l r a b,
  value_type l = Some (ROk a) -> value_type r = Some (ROk b) -> a <> b ->
  exists es, resolve_cmp (TCmp op l r) = Err es /\ node_errors2 l r [E551] es.
Proof. exact mismatch_rejected_cmp. Qed.

Theorem C07_class_violation_rejected : forall op l r a,
  is_advance op = false ->
  value_type l = Some (ROk a) -> value_type r = Some (ROk a) ->
  in_class a (binop_valid_types op) = false ->
  exists es, resolve_expr (TBinary op l r) = Err es /\ node_errors2 l r [E550] es.
Proof. exact class_violation_rejected. Qed.

Theorem C07_advance_offset_rejected : forall l r b,
  value_type r = Some (ROk b) -> b <> VPrim Usize ->
  exists es, resolve_expr (TBinary AdvancePointer l r) = Err es /\ node_errors2 l r [E550] es.
Proof. exact advance_offset_rejected. Qed.

Theorem C07_bad_cast_rejected : forall e s t,
  value_type e = Some (ROk s) -> s <> t -> prim_conversion s t = false ->
  exists es, resolve_expr (TTypeCast e t) = Err es /\ node_errors1 e [E552] es.
Proof. exact bad_cast_rejected. Qed.

Theorem C07_bad_bitcast_rejected : forall e s d,
  value_type e = Some (ROk s) -> is_valid_bit_cast s d = false ->
  exists es, resolve_expr (TBitCast e (Some (ROk d))) = Err es /\ node_errors1 e [E553] es.
Proof. exact bad_bitcast_rejected. Qed.

Theorem C07_ambiguous_rejected : forall e,
  value_type e = None -> exists es, resolve_expr e = Err es.
Proof. exact ambiguous_rejected. Qed.

(* Errors of a subexpression are never dropped on the way up. *)
Theorem C07_errors_propagate : forall s e es,
  subexpr s e -> resolve_expr s = Err es ->
  exists es', resolve_expr e = Err es' /\ incl es es'.
Proof. exact errors_propagate. Qed.

(* The regenerated tables are the documented operator classes and conversions. *)
Theorem C07_class_tables_ok :
  (forall op o, mem_operand o (binop_valid_types op) = binop_class op o)
  /\ (forall op o, mem_operand o (unop_valid_types op) = unop_class op o)
  /\ (forall op o, mem_operand o (cmpop_valid_types op) = cmpop_class op o)
  /\ (forall s d, conv s d = conversion_spec s d)
  /\ (forall s d, conv s d = true ->
        mem_prim s valid_primitive_types = true /\ mem_prim d valid_primitive_types = true)
  /\ (forall s, conv s s = false).
Proof. exact class_tables_ok. Qed.

Theorem C07_offset_table_ok : forall o,
  mem_operand o valid_types_for_offset = operand_eqb o (OPrim Usize).
Proof. exact offset_table_ok. Qed.

(* Calls: argument types identical to the parameter types, same count. *)
Theorem C07_check_call_sound : forall params args,
  check_call params args = [] <-> args = params.
Proof. exact check_call_sound. Qed.

Theorem C07_check_call_arity : forall params args,
  ((length args < length params)%nat <-> check_call params args = [E510])
  /\ ((length params < length args)%nat <-> check_call params args = [E511]).
Proof. exact check_call_arity. Qed.

Theorem C07_check_call_type_mismatch : forall params args,
  length args = length params -> args <> params -> check_call params args = [E512].
Proof. exact check_call_type_mismatch. Qed.

(* The pinned commit did not meet the property: the offset of a pointer advance
   was never checked (defect D30, repaired by a fix: commit). *)
Theorem C07_pinned_refuted :
  exists op l r res, resolve_binary_pinned op l r = Ok res /\ well_typed res = false.
Proof. exact strict_soundness_refuted. Qed.

Print Assumptions C07_resolve_sound.
Print Assumptions C07_resolve_cmp_sound.
Print Assumptions C07_accepted_binary_nodes.
Print Assumptions C07_accepted_advance_nodes.
Print Assumptions C07_accepted_unary_nodes.
Print Assumptions C07_accepted_cast_nodes.
Print Assumptions C07_mismatch_rejected.
Print Assumptions C07_mismatch_rejected_cmp.
Print Assumptions C07_class_violation_rejected.
Print Assumptions C07_advance_offset_rejected.
Print Assumptions C07_bad_cast_rejected.
Print Assumptions C07_bad_bitcast_rejected.
Print Assumptions C07_ambiguous_rejected.
Print Assumptions C07_errors_propagate.
Print Assumptions C07_class_tables_ok.
Print Assumptions C07_offset_table_ok.
Print Assumptions C07_check_call_sound.
Print Assumptions C07_check_call_arity.
Print Assumptions C07_check_call_type_mismatch.
Print Assumptions C07_pinned_refuted.

(* ---- the coercion lattice of value_type.rs (Model/Autoderef.v, one arm per Rust arm) -------------------
   `equals` - the "same type" of coercions - is an equivalence whose only non-trivial class is
   {char8, u8}; a coercion is never between equal types, is never reflexive, and is always something
   the autoderef predicate promises too; concretization and `is_like` are reflexive. *)
Theorem C07_equals_is_an_equivalence :
  (forall a, Autoderef.equals a a = true) /\
  (forall a b, Autoderef.equals a b = Autoderef.equals b a) /\
  (forall a b c, Autoderef.equals a b = true -> Autoderef.equals b c = true -> Autoderef.equals a c = true).
Proof. exact (conj AutoderefProofs.equals_refl (conj AutoderefProofs.equals_sym AutoderefProofs.equals_trans)). Qed.

Theorem C07_coercion_is_not_identity : forall a b,
  Autoderef.can_coerce_into a b = true -> Autoderef.equals a b = false.
Proof. exact AutoderefProofs.coerce_not_equals. Qed.

Theorem C07_coercion_is_promised_by_autoderef : forall a b,
  Autoderef.can_coerce_into a b = true -> Autoderef.can_autoderef_into a b = true.
Proof. exact AutoderefProofs.coerce_autoderef. Qed.

Theorem C07_address_coercion_is_promised_by_autoderef : forall a b,
  Autoderef.can_coerce_address_into a b = true -> Autoderef.can_autoderef_into (TypeLegal.VPointer a) b = true.
Proof. exact AutoderefProofs.coerce_address_autoderef. Qed.

Theorem C07_concretization_reflexive : forall a, Autoderef.can_be_concretization_of a a = true.
Proof. exact AutoderefProofs.can_be_concretization_of_refl. Qed.

(* a reference of exactly the expected type, written without `&`, keeps that type: no step and no
   coercion changes it (or it is the listed D11 panic) *)
Theorem C07_reference_of_expected_type_keeps_it : forall mt known steps y,
  Autoderef.fits mt known steps = true -> AutoderefProofs.steps_within steps -> AutoderefProofs.types_within mt known ->
  Autoderef.type_of_reference mt known steps 0 = Some y ->
  (forall e, y <> TypeLegal.VView (TypeLegal.VEndless e)) ->
  match Autoderef.autoderef mt known y steps 0 with
  | Autoderef.ADOk _ ta dt c => ta = false /\ c = None /\ dt = y
  | Autoderef.ADError _ => False
  | Autoderef.ADPanic s => s = 3%N
  end.
Proof. exact AutoderefProofs.promise_eq_ad0. Qed.

(* an address is taken only at the right depth (D80, repaired): whenever the typer takes an address without a
   coercion, the number of `&` written is one more than the pointer depth of the type the steps end at; the
   excess `&` of `&&&a` where `&i32` is expected are E538, where the pinned commit dropped them *)
Theorem C07_address_taken_at_the_right_depth : forall mt known target steps ad tk dt,
  Autoderef.autoderef mt known target steps ad = Autoderef.ADOk tk true dt None ->
  exists ct dropped,
    Autoderef.autoderef_loop mt Autoderef.max_num_autoderef_steps known steps = Autoderef.LoopDone tk ct dropped /\
    dt = TypeLegal.VPointer ct /\ ad = (1 + Autoderef.pointer_depth ct)%N.
Proof. exact AutoderefProofs.autoderef_take_address. Qed.

Theorem C07_excess_addresses_rejected :
  Autoderef.autoderef AutoderefProofs.no_members (TypeLegal.VPrim TypeLegal.KInt32) (TypeLegal.VPointer (TypeLegal.VPrim TypeLegal.KInt32)) [] 3
  = Autoderef.ADError 538%N.
Proof. vm_compute. reflexivity. Qed.

Theorem C07_pinned_excess_addresses_refuted :
  Autoderef.autoderef_pinned AutoderefProofs.no_members (TypeLegal.VPrim TypeLegal.KInt32) (TypeLegal.VPointer (TypeLegal.VPrim TypeLegal.KInt32)) [] 3
  = Autoderef.ADOk [] true (TypeLegal.VPointer (TypeLegal.VPrim TypeLegal.KInt32)) None.
Proof. exact AutoderefProofs.excess_addresses_accepted_pinned. Qed.

Print Assumptions C07_equals_is_an_equivalence.
Print Assumptions C07_coercion_is_not_identity.
Print Assumptions C07_coercion_is_promised_by_autoderef.
Print Assumptions C07_reference_of_expected_type_keeps_it.
Print Assumptions C07_address_taken_at_the_right_depth.
Print Assumptions C07_excess_addresses_rejected.
Print Assumptions C07_pinned_excess_addresses_refuted.
