(* C17 — the extracted header is exactly the public interface.
   Model: Model/Header.v (src/delta/parser/parse_tree.rs build_header,
   build_header_nodes; parse_node.rs convert_for_head). *)
From PV Require Import Base.Common Model.Header Proofs.HeaderProofs.

(* For every node array whose private zones are properly bracketed the header
   is exactly the nodes outside the zones, in order, each converted with
   [skipped] = number of nodes in the zones that precede it; in particular the
   loop terminates and never wraps (outcome Done). *)
Theorem C17_header_is_filter : forall ns, zones_wf ns -> build_header ns = Done (header_spec ns).
Proof. exact header_is_filter. Qed.

(* Every node reference of a public node points, after adjustment, to the image
   of its original target. *)
Theorem C17_refs_preserved : forall ns h i k t,
  zones_wf ns -> refs_local ns -> build_header ns = Done h ->
  get ns i = Some (NRef k t) -> privateb ns i = false ->
  exists nt, get ns t = Some nt /\ privateb ns t = false /\ (skipped_before ns i <= t)%N
    /\ get h (image ns i) = Some (NRef k (image ns t))
    /\ get h (image ns t) = Some (convert (skipped_before ns t) nt).
Proof. exact refs_preserved. Qed.

Theorem C17_bodies_removed : forall ns h, zones_wf ns -> build_header ns = Done h ->
  (forall i b, get ns i = Some (NImpl b) -> privateb ns i = false -> get h (image ns i) = Some NoMoreItems)
  /\ (forall m, In m h -> is_marker m = false /\ forall b, m <> NImpl b)
  /\ (forall m, In m h -> exists i n, get ns i = Some n /\ privateb ns i = false /\ m = convert (skipped_before ns i) n)
  /\ len h = (len ns - skipped_before ns (len ns))%N.
Proof. exact bodies_removed. Qed.

Theorem C17_pub_flag_cleared : forall ns h, zones_wf ns -> build_header ns = Done h ->
  (forall i p r, get ns i = Some (NFlags p r) -> privateb ns i = false -> get h (image ns i) = Some (NFlags false r))
  /\ (forall p r, In (NFlags p r) h -> p = false).
Proof. exact pub_flag_cleared. Qed.

Theorem C17_declarations_in_order : forall ns h, zones_wf ns -> build_header ns = Done h ->
  decl_indices h = map (image ns) (filter (fun i => negb (privateb ns i)) (decl_indices ns)).
Proof. exact declarations_in_order. Qed.

(* The parser's own bookkeeping (set_private / set_public / patching) always
   produces properly bracketed zones. *)
Theorem C17_parse_buffer_zones_wf : forall ops b,
  ops_ok empty_buffer ops = true -> run_ops empty_buffer ops = Some b -> zones_wf (b_nodes b).
Proof. intros ops b H1 H2. exact (proj1 (parse_buffer_zones_wf ops b H1 H2)). Qed.

(* The executable checks the harness runs on every real node array are sound. *)
Theorem C17_zones_wfb_sound : forall ns, zones_wfb ns = true -> zones_wf ns.
Proof. exact zones_wfb_sound. Qed.
Theorem C17_refs_localb_sound : forall ns, refs_localb ns = true -> refs_local ns.
Proof. exact refs_localb_sound. Qed.

Example C17_example : zones_wfb ex_nodes = true /\ refs_localb ex_nodes = true /\
  build_header ex_nodes = Done (header_spec ex_nodes) /\ length (header_spec ex_nodes) = 22.
Proof. vm_compute. repeat split. Qed.

Print Assumptions C17_header_is_filter.
Print Assumptions C17_refs_preserved.
Print Assumptions C17_bodies_removed.
Print Assumptions C17_pub_flag_cleared.
Print Assumptions C17_declarations_in_order.
Print Assumptions C17_parse_buffer_zones_wf.
