(* C20 — rebuilt source parses back to the same tree (reference printer/parser;
   the real rebuilder is compared differentially). *)
From PV Require Import Base.Common Base.Tok Model.RefParser Proofs.RefParserProofs Proofs.RefParserRange.
From PV Require Base.IR Model.LexAlpha Model.Escape Proofs.LexAlphaProofs Proofs.EscapeProofs.

(* parse . print = id on every tree the parser can return ... *)
Theorem C20_parse_print_parse : forall fuel ts ds,
  toks_ok ts = true -> parse_module fuel ts = Some ds ->
  exists n, forall fuel', n <= fuel' -> parse_module fuel' (print_module ds) = Some ds.
Proof. exact parse_print_parse. Qed.

(* ... hence a second print is identical to the first. *)
Theorem C20_print_parse_idempotent : forall ds,
  wf_module ds = true ->
  exists n, forall fuel, n <= fuel ->
    option_map print_module (parse_module fuel (print_module ds)) = Some (print_module ds).
Proof. exact print_parse_idempotent. Qed.

(* The part of the REAL rebuilder that prints string literals and import paths
   (rebuilder.rs: `"` + every byte through std::ascii::escape_default + `"`), against the
   model of the real first-generation lexer (Model/LexAlpha.v): for EVERY byte string, of any
   length, the printed literal is printable ASCII (so `from_utf8_lossy` changes nothing) and
   lexes back to exactly one string token carrying the same bytes - alone, after any prefix
   that is not inside an open quote and before ANY suffix, and in the two lines the rebuilder
   prints them in. *)
Theorem C20_rebuilt_string_is_ascii : forall b, (b < 256)%N ->
  Forall (fun c => (32 <= c <= 126)%N) (Escape.escape_default b).
Proof. exact EscapeProofs.escape_default_ascii. Qed.

Theorem C20_rebuilt_string_lexes_back : forall bs, Forall (fun b => (b < 256)%N) bs ->
  LexAlpha.lex_alpha (Escape.rebuild_string bs) =
  [LexAlpha.mk KStringLiteral 0%Z None bs 0 (LexAlpha.len (Escape.rebuild_string bs)) 1 0].
Proof. exact EscapeProofs.rebuilt_string_lexes_back. Qed.

Theorem C20_rebuilt_string_lexes_back_in_context : forall pre off ln,
  LexAlphaProofs.boundary pre [34%N] ->
  forall bs post, Forall (fun b => (b < 256)%N) bs ->
  LexAlpha.lex_line (pre ++ Escape.rebuild_string bs ++ post) off ln =
  removelast (LexAlpha.lex_line (pre ++ [34%N; 34%N]) off ln)
  ++ LexAlpha.mk KStringLiteral 0%Z None bs (off + LexAlpha.len pre)
       (off + LexAlpha.len pre + LexAlpha.len (Escape.rebuild_string bs)) ln (LexAlpha.len pre)
  :: LexAlpha.lex_line_fuel (length post) ln (off + LexAlpha.len pre + LexAlpha.len (Escape.rebuild_string bs))
       (LexAlpha.len pre + LexAlpha.len (Escape.rebuild_string bs)) post.
Proof. exact EscapeProofs.rebuilt_string_in_context. Qed.

Theorem C20_rebuilt_import_lexes_back : forall path, Forall (fun b => (b < 256)%N) path ->
  let n := LexAlpha.len (Escape.rebuild_string path) in
  LexAlpha.lex_alpha (Escape.rebuild_import [] path) =
  [LexAlpha.mk KImport 0%Z None [] 0 6 1 0;
   LexAlpha.mk KStringLiteral 0%Z None path 7 (7 + n) 1 7;
   LexAlpha.mk KSemicolon 0%Z None [] (7 + n) (7 + n + 1) 1 (7 + n)].
Proof. exact EscapeProofs.rebuilt_import_lexes_back. Qed.

(* Integer and character literals are printed as `0x` + lowercase hexadecimal digits: the value
   comes back, the kind of a character literal does not (the property allows the spelling of a
   literal to change; the check merges the literal kinds accordingly). *)
Theorem C20_rebuilt_bit_integer_lexes_back : forall v, (v < 2 ^ 128)%N ->
  LexAlpha.lex_alpha (Escape.rebuild_bit_integer v) =
  [LexAlpha.mk KBitInteger (Z.of_N v) None [] 0 (LexAlpha.len (Escape.rebuild_bit_integer v)) 1 0].
Proof. exact EscapeProofs.rebuilt_bit_integer_lexes_back. Qed.

Theorem C20_character_literal_kind_not_preserved :
  exists b, (b < 256)%N /\
    LexAlpha.lex_alpha [39%N; b; 39%N] = [LexAlpha.mk KCharLiteral (Z.of_N b) None [] 0 3 1 0] /\
    map kind (LexAlpha.lex_alpha (Escape.rebuild_char b)) <> [KCharLiteral].
Proof. exact EscapeProofs.rebuilt_char_lexes_back_refuted. Qed.

(* A lexer that accepts an escaped quote only of the kind that opened the literal (a seeded
   change) loses the round trip on an apostrophe. *)
Theorem C20_quote_specific_escape_refuted :
  exists bs, Forall (fun b => (b < 256)%N) bs /\
    Escape.lex_alpha_mutant (Escape.rebuild_string bs) <>
    [LexAlpha.mk KStringLiteral 0%Z None bs 0 (LexAlpha.len (Escape.rebuild_string bs)) 1 0].
Proof. exact EscapeProofs.mutant_round_trip_refuted. Qed.

Print Assumptions C20_parse_print_parse.
Print Assumptions C20_print_parse_idempotent.
Print Assumptions C20_rebuilt_string_is_ascii.
Print Assumptions C20_rebuilt_string_lexes_back.
Print Assumptions C20_rebuilt_string_lexes_back_in_context.
Print Assumptions C20_rebuilt_import_lexes_back.
Print Assumptions C20_rebuilt_bit_integer_lexes_back.
Print Assumptions C20_character_literal_kind_not_preserved.
Print Assumptions C20_quote_specific_escape_refuted.
