(* C20 — rebuilt source parses back to the same tree (reference printer/parser;
   the real rebuilder is compared differentially). *)
From PV Require Import Base.Common Base.Tok Model.RefParser Proofs.RefParserProofs Proofs.RefParserRange.

(* parse . print = id on every tree the parser can return ... *)
Theorem C20_parse_print_parse : forall fuel ts ds,
  toks_ok ts = true -> parse_module fuel ts = Some ds ->
  exists n, forall fuel', n <= fuel' -> parse_module fuel' (print_module ds) = Some ds.
Proof. exact parse_print_parse. Qed.

(* ... hence a second print is identical to the first. *)
Theorem C20_print_parse_idempotent : forall ds,
  wf_module ds = true ->
  exists n, forall fuel, n <= fuel ->
    option_map print_module (parse_module fuel (print_module ds)) = Some (print_module ds).
Proof. exact print_parse_idempotent. Qed.

Print Assumptions C20_parse_print_parse.
Print Assumptions C20_print_parse_idempotent.
