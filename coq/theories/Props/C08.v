(* C08 — only vars and explicitly passed pointers can be mutated.
   (Model/Mutability.v and its theorems are delivered separately; until they are
   installed this file only records the property.) *)
From PV Require Import Base.Common.
