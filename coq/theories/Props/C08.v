(* C08 — only vars and explicitly passed pointers can be mutated.
   Model: Model/Mutability.v (src/alpha/analyzer/mutability.rs,
   src/alpha/analyzer/function_calls.rs, analyze_assignment_steps of
   src/alpha/typer.rs); proofs: Proofs/MutabilityProofs.v.  The model is tied to
   the real analyzers on the typed tree of thousands of programs on every run. *)
From Coq Require Import List NArith.
From PV Require Import Base.Common Model.Mutability Proofs.MutabilityProofs.
From PV Require Model.CallFrame Proofs.CallFrameProofs.
Import ListNotations.

(* An assignment is accepted iff its target is writable: the base is a mutable
   variable, or the reference chain crosses a pointer. *)
Theorem C08_assignment_iff : forall v r x,
  r_base r = Some x -> check_assignment v r = [] <-> writable v r = true.
Proof. exact assignment_iff. Qed.

Theorem C08_assignment_complete : forall v r x,
  r_base r = Some x -> lookup v x <> None ->
  writable v r = false -> check_assignment v r = [E530].
Proof. exact assignment_complete. Qed.

(* Parameters and constants are immutable. *)
Theorem C08_params_are_immutable : forall ps v x,
  Forall (fun p => p_type p <> None) ps ->
  In (Some x) (map p_name ps) ->
  lookup (declare_params v ps) x = Some false.
Proof. exact params_are_immutable. Qed.

Theorem C08_constant_is_immutable : forall v x t,
  lookup (fst (mut_decl v (DConstant x (Some t)))) x = Some false.
Proof. exact constant_is_immutable. Qed.

(* Writing through an immutable base is accepted only across a value of pointer
   type: by-value parameters, constants and views (of arrays, of structures)
   cannot be written through (E530). *)
Theorem C08_param_write_needs_pointer : forall v mt x t t' ss ad,
  lookup v x = Some false ->
  chain_type mt t ss = Some t' ->
  check_assignment v (Ref (Some x) ss ad) = [] ->
  exists pre s post tp,
    ss = pre ++ s :: post /\ crosses_pointer pre = false /\
    is_pointer_step s = true /\ chain_type mt t pre = Some tp /\
    is_pointer_type tp = true.
Proof. exact param_write_needs_pointer. Qed.

Theorem C08_view_is_readonly_typed : forall v mt x t t' ss ad,
  lookup v x = Some false ->
  pointer_free t = true -> chain_type mt t ss = Some t' ->
  check_assignment v (Ref (Some x) ss ad) = [E530].
Proof. exact view_is_readonly_typed. Qed.

(* Taking the address of something immutable is rejected too. *)
Theorem C08_address_of_immutable_rejected : forall v x ss ad,
  lookup v x = Some false -> (0 < ad)%N -> crosses_pointer ss = false ->
  check_address_taken v (Ref (Some x) ss ad) = [E530].
Proof. exact address_of_immutable_rejected. Qed.

(* Whole arrays, views and structures cannot be copied (E531, E532, E533),
   except as the immediate argument of a call. *)
Theorem C08_no_aggregate_copy : forall imm t,
  check_value_use imm (POk t) =
  match aggregate_code t with
  | Some c => if imm then [] else [c]
  | None => []
  end.
Proof. exact no_aggregate_copy. Qed.

Theorem C08_declaration_copy_rejected : forall x r t c ty,
  aggregate_code t = Some c ->
  In c (snd (fc_stmt (SDeclaration x (Some (EDeref r (POk t))) ty))).
Proof. exact declaration_copy_rejected. Qed.

Theorem C08_assignment_copy_rejected : forall r0 r t c,
  aggregate_code t = Some c ->
  In c (snd (fc_stmt (SAssignment r0 (EDeref r (POk t))))).
Proof. exact assignment_copy_rejected. Qed.

Theorem C08_return_copy_rejected : forall ss r t c,
  aggregate_code t = Some c ->
  In c (fc_body {| fb_statements := ss; fb_return := Some (EDeref r (POk t)) |}).
Proof. exact return_copy_rejected. Qed.

(* An accepted call has arguments of exactly the parameter types: a pointer
   parameter never receives the pointee itself - the caller must write `&`. *)
Theorem C08_accepted_call_types_match : forall ps args,
  use_function ps args = None ->
  length ps = length args /\
  forall i p d a pt, nth_error ps i = Some p -> nth_error args i = Some (d, POk a) ->
    p_type p = Some pt -> p_name p <> None -> mty_eqb pt a = true.
Proof. exact accepted_call_types_match. Qed.

Theorem C08_pointer_parameter_needs_address : forall ps args i p d t,
  use_function ps args = None ->
  nth_error ps i = Some p -> p_type p = Some (MPointer t) -> p_name p <> None ->
  nth_error args i <> Some (d, POk t).
Proof. exact pointer_parameter_needs_address. Qed.

(* Whole functions: if the mutability pass accepts a function, EVERY assignment
   target and every address-of in its body (at any depth, including inside index
   expressions) is writable. *)
Theorem C08_function_sound : forall v ps b v',
  mut_decl v (DFunction ps (Some b)) = (v', []) ->
  Forall (fun st => site_ok st = true) (body_sites (declare_params v ps) b).
Proof. exact function_sound. Qed.

(* The first-pointer shortcut of needs_outer_mutability agrees with the strict
   reading (the LAST indirection decides) on well-typed chains. *)
Theorem C08_strict_agrees : forall v mt x t t' ss ad,
  mtab_ok mt = true ->
  is_wellformed t = true ->
  chain_type mt t ss = Some t' ->
  (lookup v x = Some true -> is_view_type t = false) ->
  writable v (Ref (Some x) ss ad) = writable_strict v (Ref (Some x) ss ad).
Proof. exact strict_agrees. Qed.

(* The consequence the property draws: in an accepted function, every write and
   every address-of goes through a pointer, or targets a variable the function
   declared itself (or a mutable variable that is not one of its parameters:
   the analyzer's table is never cleared; resolution ids are unique). *)
Theorem C08_callee_can_only_write_through_pointers : forall v ps b v',
  Forall (fun p => p_type p <> None) ps ->
  mut_decl v (DFunction ps (Some b)) = (v', []) ->
  Forall (fun st =>
            let '(vs, is_assignment, r) := st in
            forall x, r_base r = Some x ->
              (is_assignment || N.ltb 0 (r_ad r)) = true ->
              crosses_pointer (r_steps r) = true
              \/ In (x, true) (declared_vars_list (fb_statements b))
              \/ (~ In (Some x) (map p_name ps) /\ lookup v x = Some true))
         (body_sites (declare_params v ps) b).
Proof. exact callee_can_only_write_through_pointers. Qed.

(* ---- the run-time consequence, on memory (Model/CallFrame.v, Proofs/CallFrameProofs.v) -----------------
   One activation of a function as the generator lowers it: parameters by value (SSA values), views
   ({ptr,len} or a pointer INTO THE CALLER'S storage), pointers, slice pointers, local variables and
   constants; a body of assignments whose verdict is literally Model/Mutability.v's
   (C08_frame_verdict_is_the_gates) and whose execution is MemLower's (the location a reference denotes,
   a store into flat memory with LLVM's layout).  [frame_safe m A K f]: the callee's variables lie in A,
   the targets of its POINTER parameters lie in A, the viewed objects and constants need not, and every
   pointer stored in anything the callee can see points into A (K: which cells hold pointers).
   Then an accepted body changes nothing outside A, whatever the aliasing. *)
Theorem C08_callee_writes_confined : forall body m A K f m',
  CallFrameProofs.frame_safe m A K f ->
  CallFrame.accepted_body f body = true ->
  CallFrame.exec_body m f body = Some m' ->
  (forall x, ~ A x -> m' x = m x) /\ CallFrameProofs.frame_safe m' A K f.
Proof. exact CallFrameProofs.callee_writes_confined. Qed.

(* an object passed as a view (or any object outside A: a by-value argument has no storage at all) is
   bit for bit what it was *)
Theorem C08_view_object_unchanged : forall body m A K f m' (Obj : BinNums.Z -> Prop),
  CallFrameProofs.frame_safe m A K f -> CallFrame.accepted_body f body = true ->
  CallFrame.exec_body m f body = Some m' ->
  (forall x, Obj x -> ~ A x) ->
  forall x, Obj x -> m' x = m x.
Proof. exact CallFrameProofs.view_object_unchanged. Qed.

(* With nothing but pointer-free objects in sight no hypothesis about memory is needed: only the callee's
   variables and the targets of its pointer parameters (&T, &[]T) can change ... *)
Theorem C08_first_order_callee_confined : forall f body m m',
  (forall k b, nth_error f k = Some b -> CallFrameProofs.flat_binding b) ->
  CallFrame.accepted_body f body = true ->
  CallFrame.exec_body m f body = Some m' ->
  forall x, CallFrame.in_ranges x (CallFrameProofs.flat_allowed f) = false -> m' x = m x.
Proof. exact CallFrameProofs.flat_frame_confined. Qed.

(* ... and without a pointer parameter a call changes nothing of its caller: "a call can change a variable
   of its caller only if the caller wrote `&`" for first-order data *)
Theorem C08_no_pointer_parameter_no_effect : forall f body m m',
  (forall k b, nth_error f k = Some b -> CallFrameProofs.flat_binding b) ->
  Forall (fun b => CallFrame.b_kind b = CallFrame.KParam -> CallFrame.param_class (CallFrame.b_ty b) <> CallFrame.CPointer) f ->
  CallFrame.accepted_body f body = true ->
  CallFrame.exec_body m f body = Some m' ->
  forall x, CallFrame.in_ranges x (CallFrame.own_ranges f) = false -> m' x = m x.
Proof. exact CallFrameProofs.no_pointer_parameter_no_effect. Qed.

Theorem C08_frame_verdict_is_the_gates : forall f body mb,
  CallFrameProofs.to_mut_body f body = Some mb ->
  Mutability.mut_stmts (CallFrame.frame_menv f) mb = (CallFrame.frame_menv f, CallFrame.body_codes f body).
Proof. exact CallFrameProofs.body_codes_literal. Qed.

(* The sentence as worded is FALSE of the code beyond first-order data (listed finding D74): a pointer
   stored inside a structure or an array that is passed as a VIEW can be written through - the gate stops
   asking at the first Autoderef - so `poke(h)` changes the caller's x although no `&` stands on that
   argument and no parameter has pointer type. *)
Theorem C08_pointer_inside_view_refuted :
  exists f inits body probe ch out_strict,
    Forall (fun b => CallFrame.param_class (CallFrame.b_ty b) <> CallFrame.CPointer) f /\
    CallFrame.accepted_body f body = true /\
    CallFrame.run_frame_case f inits body probe false = CallFrame.CaseRan ch [] out_strict /\
    out_strict <> [].
Proof. exact CallFrameProofs.pointer_params_only_refuted. Qed.

(* and the typing of memory (K) is needed: an integer and a pointer at one address - which only casts in
   the caller can build - escape even the wider region *)
Theorem C08_untyped_memory_refuted :
  exists f inits body probe ch out_allowed,
    CallFrame.accepted_body f body = true /\
    CallFrame.run_frame_case f inits body probe false = CallFrame.CaseRan ch out_allowed out_allowed /\
    out_allowed <> [].
Proof. exact CallFrameProofs.untyped_memory_refuted. Qed.

Print Assumptions C08_assignment_iff.
Print Assumptions C08_assignment_complete.
Print Assumptions C08_params_are_immutable.
Print Assumptions C08_constant_is_immutable.
Print Assumptions C08_param_write_needs_pointer.
Print Assumptions C08_view_is_readonly_typed.
Print Assumptions C08_address_of_immutable_rejected.
Print Assumptions C08_no_aggregate_copy.
Print Assumptions C08_declaration_copy_rejected.
Print Assumptions C08_assignment_copy_rejected.
Print Assumptions C08_return_copy_rejected.
Print Assumptions C08_accepted_call_types_match.
Print Assumptions C08_pointer_parameter_needs_address.
Print Assumptions C08_function_sound.
Print Assumptions C08_strict_agrees.
Print Assumptions C08_callee_can_only_write_through_pointers.
Print Assumptions C08_callee_writes_confined.
Print Assumptions C08_view_object_unchanged.
Print Assumptions C08_first_order_callee_confined.
Print Assumptions C08_no_pointer_parameter_no_effect.
Print Assumptions C08_frame_verdict_is_the_gates.
Print Assumptions C08_pointer_inside_view_refuted.
Print Assumptions C08_untyped_memory_refuted.
