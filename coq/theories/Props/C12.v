(* C12 — imports expose exactly the public interface and modules compose.
   Model: Model/Expand.v (src/alpha/expander.rs); the current tree iterates the
   import set in sorted order ([expand_sorted]); the pinned commit iterated a
   HashSet ([expand_order] with an unspecified [order]). *)
From Coq Require Import Permutation Sorted.
From PV Require Import Base.Common Model.Expand Proofs.ExpandProofs Model.GenState.

(* For EVERY iteration order of the import set: module i after expansion is
   [signatures of the public declarations of each distinct directly imported
   module j <> i] ++ [i's own declarations, imports removed, unresolved imports
   replaced by E470/E477]; bodies dropped, Public cleared, everything else kept
   ([strip]). *)
Theorem C12_imported_exactly_public :
  forall resolve hint order mods i, order_ok order -> i < length mods ->
  nth i (expand_order resolve hint order mods) dmod =
    (key_of mods i, flat_map (group mods) (groups_of resolve order mods i) ++ own_part resolve hint mods i) /\
  NoDup (groups_of resolve order mods i) /\
  (forall j, In j (groups_of resolve order mods i) <-> j <> i /\ resolved_import resolve mods i j).
Proof. exact imported_exactly_public. Qed.

Theorem C12_provenance :
  forall resolve hint order mods i d, order_ok order -> i < length mods ->
  In d (decls_of (expand_order resolve hint order mods) i) ->
  In d (own_part resolve hint mods i) \/
  (exists j d0, j <> i /\ resolved_import resolve mods i j /\ In d0 (decls_of mods j) /\
                is_import d0 = false /\ is_public d0 = true /\ d = strip d0).
Proof. exact expand_provenance. Qed.

Theorem C12_private_never_visible :
  forall resolve hint order mods i j d d0,
  payloads_unique mods -> order_ok order -> i < length mods -> j < length mods -> j <> i ->
  In d0 (decls_of mods j) -> is_public d0 = false ->
  In d (decls_of (expand_order resolve hint order mods) i) -> d_payload d <> d_payload d0.
Proof. exact private_never_visible. Qed.

Theorem C12_no_transitive_import :
  forall resolve hint order mods k j d d0,
  payloads_unique mods -> order_ok order -> k < length mods -> j < length mods -> j <> k ->
  ~ resolved_import resolve mods k j -> In d0 (decls_of mods j) ->
  In d (decls_of (expand_order resolve hint order mods) k) -> d_payload d <> d_payload d0.
Proof. exact no_transitive_import. Qed.

(* Two iteration orders give the same modules up to the order of the spliced
   groups ... *)
Theorem C12_set_order_invariant :
  forall resolve hint o1 o2 mods, order_ok o1 -> order_ok o2 ->
  length (expand_order resolve hint o1 mods) = length mods /\
  length (expand_order resolve hint o2 mods) = length mods /\
  (forall i, i < length mods -> exists js1 js2, Permutation js1 js2 /\
     nth i (expand_order resolve hint o1 mods) dmod = (key_of mods i, flat_map (group mods) js1 ++ own_part resolve hint mods i) /\
     nth i (expand_order resolve hint o2 mods) dmod = (key_of mods i, flat_map (group mods) js2 ++ own_part resolve hint mods i)).
Proof. exact expand_set_order_invariant. Qed.

(* ... but not the same lists: the pinned commit was nondeterministic (D3). *)
Theorem C12_hash_order_refuted :
  exists resolve hint mods o1 o2, order_ok o1 /\ order_ok o2 /\
    expand_order resolve hint o1 mods <> expand_order resolve hint o2 mods.
Proof. exact expand_order_refuted. Qed.

(* The current tree (sorted iteration) is a function of the set of pairs only,
   and its result is: groups in strictly descending includee offset. *)
Theorem C12_sorted_canonical :
  forall resolve hint order mods, order_ok order ->
  expand_order resolve hint (fun s => sort_pairs (order s)) mods = expand_sorted resolve hint mods.
Proof. exact expand_sorted_canonical. Qed.

Theorem C12_sorted_spec :
  forall resolve hint mods i, i < length mods ->
  let js := groups_of resolve sort_pairs mods i in
  nth i (expand_sorted resolve hint mods) dmod = (key_of mods i, flat_map (group mods) js ++ own_part resolve hint mods i) /\
  StronglySorted (fun a b => b < a) js /\
  (forall j, In j js <-> j <> i /\ resolved_import resolve mods i j).
Proof. exact expand_sorted_spec. Qed.

(* An import names a module by its exact path, or by its path relative to the
   directory of the importing file; the exact path wins; nothing else matches. *)
Theorem C12_import_resolution : forall file keys includer i,
  get_key_offset file keys includer = Some i ->
  nth_error keys i = Some file
  \/ (~ In file keys /\ exists dir, parent_of includer = Some dir /\ nth_error keys i = Some (dir ++ file)).
Proof. exact get_key_offset_sound. Qed.

Theorem C12_import_unresolved : forall file keys includer,
  get_key_offset file keys includer = None ->
  ~ In file keys /\ forall dir, parent_of includer = Some dir -> ~ In (dir ++ file) keys.
Proof. exact get_key_offset_complete. Qed.

(* "Compiling one module never changes the result for another except through its
   imports", for the generator's own state: whatever the tables hold when a new module
   starts (entries of earlier modules under resolution ids that the new module will use
   again), `add_module` leaves nothing of it observable - for EVERY table of the struct
   (the list of tables and of `clear()` calls is regenerated from generator.rs on every
   run: a table that is added, or a clear that is dropped, breaks this proof). *)
Theorem C12_add_module_forgets : forall (s1 s2 : tstate) t k,
  observe (add_module s1) t k = observe (add_module s2) t k.
Proof. intros s1 s2 t k; unfold observe, add_module; destruct t; reflexivity. Qed.

Theorem C12_add_module_clears_every_table :
  forallb (fun t => mem_table t cleared_by_add_module) all_tables = true
  /\ forall t : table, In t all_tables.
Proof. split; [vm_compute; reflexivity | intro t; destruct t; vm_compute; tauto]. Qed.

(* the tables of one function body (parameters, variables, labelled blocks) are empty again
   when the body is finished: a function never sees the locals of an earlier one *)
Theorem C12_function_locals_forgotten : forall (s : tstate) t k,
  is_function_local t = true -> observe (finish_function s) t k = None.
Proof. intros s t k H; unfold observe, finish_function; destruct t; try discriminate H; reflexivity. Qed.

(* the same one level up (src/alpha.rs, Compiler::add_module): every stage object - typer, analyzer,
   linter - is replaced by a fresh one for every module; only the generator is kept, and it is told
   (the theorems above are about what it then forgets) *)
Theorem C12_every_stage_is_fresh_per_module : forall st : stage,
  replaced_by_default st = true \/ (st = S_generator /\ told_about_the_module st = true).
Proof. intro st; destruct st; vm_compute; tauto. Qed.

Example C12_tables_nontrivial :
  observe (insert empty_state T_constants 3 7) T_constants 3 = Some 7%N /\
  observe (add_module (insert empty_state T_constants 3 7)) T_constants 3 = None.
Proof. split; reflexivity. Qed.

Print Assumptions C12_imported_exactly_public.
Print Assumptions C12_import_resolution.
Print Assumptions C12_import_unresolved.
Print Assumptions C12_provenance.
Print Assumptions C12_private_never_visible.
Print Assumptions C12_no_transitive_import.
Print Assumptions C12_set_order_invariant.
Print Assumptions C12_hash_order_refuted.
Print Assumptions C12_sorted_canonical.
Print Assumptions C12_sorted_spec.
Print Assumptions C12_add_module_forgets.
Print Assumptions C12_add_module_clears_every_table.
Print Assumptions C12_function_locals_forgotten.
Print Assumptions C12_every_stage_is_fresh_per_module.
