(* C11 — top-level declarations are order-independent and must be well-formed
   (proved part: the containment closure, cycle detection, depth assignment and
   the dependency-respecting sort of src/alpha/scoper/variable_references.rs and
   src/alpha.rs).  Model: Model/Containers.v. *)
From Coq Require Import Permutation.
From PV Require Import Base.Common Model.Containers Proofs.ContainersProofs.
From PV Require Model.TypeLegal Proofs.TypeLegalProofs.
Module TL := TypeLegal.
Module TLP := TypeLegalProofs.

(* A cycle code (E413/E415/E416) is raised iff the containment graph has a
   cycle — whatever the order and multiplicity in which edges are processed. *)
Theorem C11_cycle_detected_iff : forall cs edges,
  declared (map fst cs) edges ->
  has_cycle_code (snd (process edges (init cs))) <-> cyclic edges.
Proof. exact cycle_detected_iff. Qed.

(* While no error has been raised, every contained set is exactly the set of
   containers reachable in one or more steps. *)
Theorem C11_closure_invariant : forall cs edges st rs,
  process edges (init cs) = (st, rs) -> all_ok rs -> closed_for edges st.
Proof. exact closure_invariant. Qed.

(* Acyclic: every container gets a depth, larger than that of all it contains. *)
Theorem C11_depths_topological : forall cs edges st rs,
  NoDup (map fst cs) -> declared (map fst cs) edges -> acyclic edges ->
  process edges (init cs) = (st, rs) ->
  (forall id, In id (map fst cs) -> exists d, depth_of id (depths st) = Some d) /\
  (forall c e m, In (c, e, m) edges -> exists dc de,
     depth_of c (depths st) = Some dc /\ depth_of e (depths st) = Some de /\ (de < dc)%N).
Proof. exact depths_topological. Qed.

(* The depth of a declaration does not depend on where it was written: any
   permutation of the declarations and of the edges gives the same depths. *)
Theorem C11_depths_perm_invariant : forall cs cs' edges edges',
  NoDup (map fst cs) -> Permutation cs cs' -> Permutation edges edges' ->
  declared (map fst cs) edges -> acyclic edges ->
  forall x, depth_of x (depths (fst (process edges (init cs))))
          = depth_of x (depths (fst (process edges' (init cs')))).
Proof. exact depths_perm_invariant. Qed.

(* The sort used by analyze_and_resolve puts every container after all it
   contains, and functions after containers. *)
Theorem C11_sorted_respects_dependencies : forall cs edges st rs ds conts funs,
  NoDup (map fst cs) -> declared (map fst cs) edges -> acyclic edges ->
  (N.of_nat (length cs) < U32MAX)%N ->
  process edges (init cs) = (st, rs) -> sorted (depths st) ds = (conts, funs) ->
  forall c e m, In (c, e, m) edges -> In (c, KContainer) ds -> In (e, KContainer) ds ->
  before (e, KContainer) (c, KContainer) conts /\ ~ In (c, KContainer) funs /\ ~ In (e, KContainer) funs.
Proof. exact sorted_respects_dependencies. Qed.

(* Everything on or depending on a cycle is poisoned (no depth), whatever
   happened after the first error. *)
Theorem C11_cyclic_rejected : forall cs edges st rs,
  NoDup (map fst cs) -> declared (map fst cs) edges -> process edges (init cs) = (st, rs) ->
  forall x, tainted edges x ->
  depth_of x (depths st) = None /\ sort_key (depths st) (x, KContainer) = U32MAX /\
  is_container (depths st) (x, KContainer) = false.
Proof. exact cyclic_rejected. Qed.

(* Which of the three cycle codes is reported DOES depend on the order. *)
Theorem C11_codes_depend_on_order : exists cs es es',
  Permutation es es' /\ snd (run cs es) <> snd (run cs es').
Proof. exact codes_perm_invariant_refuted. Qed.

(* ---- invalid or misplaced types (E350-E358): Model/TypeLegal.v follows value_type.rs
   (is_wellformed and the can_be predicates) and the per-position checks of typer.rs on written types;
   it is compared with the real compiler on EVERY type up to nesting depth 2 (quick) /
   3 (thorough) at every declaration position on every run. ---- *)

(* A declaration is accepted exactly when its type is well formed - void, a view
   or a slice only as the whole type, an endless array only as the whole type or
   directly behind a pointer or view, at any depth - and has one of the shapes its
   position admits. *)
Theorem C11_legal_accept_iff : forall p t, TL.legal p t = nil <-> TLP.spec p t.
Proof. exact TLP.legal_accept_iff. Qed.

Theorem C11_wellformed_iff_occurrences : forall t,
  TL.is_wellformed (TL.parse_type t) = true <-> TLP.wf_spec t.
Proof. exact TLP.wellformed_iff_occurrences. Qed.

(* An ill-formed type is rejected with E350 at every position; every rejection carries
   exactly one code: E350, the code of the position, E358 (extern) or E380 (word). *)
Theorem C11_legal_E350_iff : forall p t, TL.legal p t = (TL.E350 :: nil) <-> ~ TLP.wf_spec t.
Proof. exact TLP.legal_E350_iff. Qed.

Theorem C11_legal_classification : forall p t,
  TL.legal p t = nil \/ TL.legal p t = (TL.E350 :: nil) \/ (TLP.is_extern p = true /\ TL.legal p t = (TL.E358 :: nil))
  \/ TL.legal p t = (TLP.position_code p :: nil)
  \/ (exists d fl, p = TL.PWordMember d fl /\ TL.legal p t = (Layout.E380 :: nil)).
Proof. exact TLP.legal_classification. Qed.

(* The legality checks themselves never fail an assertion (the pinned commit did:
   defect D46, `extern fn f(x: [][]i32);`). *)
Theorem C11_legal_never_panics : forall p t, exists cs, TL.legal_outcome p t = TL.OCodes cs.
Proof. exact TLP.legal_never_panics. Qed.

Theorem C11_legal_panicked_pinned : exists p t l, TL.legal_outcome_pinned p t = TL.OPanic l.
Proof. exact TLP.extern_nested_arraylike_panicked_pinned. Qed.

Print Assumptions C11_cycle_detected_iff.
Print Assumptions C11_legal_accept_iff.
Print Assumptions C11_wellformed_iff_occurrences.
Print Assumptions C11_legal_E350_iff.
Print Assumptions C11_legal_classification.
Print Assumptions C11_legal_never_panics.
Print Assumptions C11_closure_invariant.
Print Assumptions C11_depths_topological.
Print Assumptions C11_depths_perm_invariant.
Print Assumptions C11_sorted_respects_dependencies.
Print Assumptions C11_cyclic_rejected.
