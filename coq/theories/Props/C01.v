(* C01 — compiled programs behave as their source prescribes (proved part:
   instruction, predicate and cast selection against bit-vector semantics).
   The selection tables are Gen/LowerTables.v, Gen/TypeTables.v and
   Gen/ResolverTables.v, regenerated from /repo on every run. *)
From Coq Require Import ZArith Bool.
From PV Require Import Base.Common Base.IR Base.Bits Model.Lower Proofs.LowerProofs.
From PV Require Model.Cfg Proofs.CfgProofs Model.Syntax Model.LabelScope.
From PV Require Model.Layout Model.MemLower Proofs.MemLowerProofs.
From PV Require Model.Autoderef Proofs.AutoderefProofs Model.AssignSteps Proofs.AssignStepsProofs Model.CallFrame.
From Coq Require Import List.
Open Scope Z_scope.

(* For every binary operator and every primitive type the resolver admits for
   it, on both targets (usize = 32 or 64 bits): the LLVM instruction the
   generator selects maps the operands' bit patterns to the bit pattern of the
   source-level result (wrapping + - *, truncating / and % with the signedness of
   the type, bitwise ops, shl, logical shr), whenever the source operation is
   defined (no division by zero, no MIN / -1, shift amount < width). *)
Theorem C01_binop_lowering_correct : forall usize_bits, usize_bits = 32 \/ usize_bits = 64 ->
  forall op t x y v,
  mem_operand (OPrim t) (binop_valid_types op) = true ->
  type_range usize_bits t x -> type_range usize_bits t y ->
  src_binop op (signed t) (bits usize_bits t) x y = Some v ->
  ir_binop (select_binop op (signed t)) (bits usize_bits t)
           (repr (bits usize_bits t) x) (repr (bits usize_bits t) y)
  = Some (repr (bits usize_bits t) v).
Proof. exact binop_lowering_correct. Qed.

Theorem C01_unop_lowering_correct : forall usize_bits, usize_bits = 32 \/ usize_bits = 64 ->
  forall op t x v,
  mem_operand (OPrim t) (unop_valid_types op) = true ->
  type_range usize_bits t x ->
  src_unop op (signed t) (bits usize_bits t) x = Some v ->
  ir_unop (select_unop op (signed t)) (bits usize_bits t) (repr (bits usize_bits t) x)
  = Some (repr (bits usize_bits t) v).
Proof. exact unop_lowering_correct. Qed.

(* Comparisons: the predicate's signedness follows the operand type. *)
Theorem C01_icmp_lowering_correct : forall usize_bits, usize_bits = 32 \/ usize_bits = 64 ->
  forall op t x y,
  type_range usize_bits t x -> type_range usize_bits t y ->
  ir_icmp (select_icmp op (signed t)) (bits usize_bits t)
          (repr (bits usize_bits t) x) (repr (bits usize_bits t) y)
  = src_cmp op x y.
Proof. exact icmp_lowering_correct. Qed.

(* Casts: every conversion the resolver admits has a lowering, and it yields
   the bit pattern of the value modulo 2^width(destination). *)
Theorem C01_cast_lowering_correct : forall usize_bits, usize_bits = 32 \/ usize_bits = 64 ->
  forall s d x,
  is_valid_primitive_conversion s d (vt_is_integral s) (vt_is_integral d) = true ->
  type_range usize_bits s x ->
  exists c,
    select_cast s d (vt_is_integral s) (vt_is_integral d) (signed s) (bits usize_bits s) (bits usize_bits d) = Some c /\
    ir_cast c (bits usize_bits s) (bits usize_bits d) (repr (bits usize_bits s) x)
    = repr (bits usize_bits d) (src_cast (signed d) (bits usize_bits d) x).
Proof. exact cast_lowering_correct. Qed.

(* What a wrong selection looks like (shape of the failing-input search). *)
Theorem C01_udiv_for_signed_refuted :
  exists x y v, in_s 8 x /\ in_s 8 y /\ src_binop Divide true 8 x y = Some v /\
    ir_binop IUDiv 8 (repr 8 x) (repr 8 y) <> Some (repr 8 v).
Proof. exact udiv_for_signed_refuted. Qed.

(* Non-vacuity: the hypotheses are met by ordinary operands. *)
Example C01_example : 
  mem_operand (OPrim Int8) (binop_valid_types Divide) = true /\
  type_range 64 Int8 (-128) /\ type_range 64 Int8 3 /\
  src_binop Divide (signed Int8) (bits 64 Int8) (-128) 3 = Some (-42) /\
  ir_binop (select_binop Divide (signed Int8)) 8 (repr 8 (-128)) (repr 8 3) = Some (repr 8 (-42)).
Proof. vm_compute. repeat split; congruence. Qed.

(* Control flow.  The generator's lowering of goto / label / if / else / block /
   loop to basic blocks (Model/Cfg.v, compared block by block with the emitted IR
   on every run) preserves behaviour: for ANY state type, action and condition
   semantics, a structured run (the control skeleton of the definitional
   interpreter Model/Sem.v) that terminates is reproduced by the CFG - same final
   state, and same sequence of executed actions. *)
Theorem C01_lower_simulates : forall (St : Type) (act : N -> St -> St) (cond : N -> St -> bool) body g,
  Cfg.lower_body body = Some g -> NoDup (Cfg.labels_list body) ->
  forall f st st', Cfg.run_body St act cond f body st = Cfg.Ok st' ->
  exists n, (n <= CfgProofs.bound f + 1)%nat /\
    forall m, (n <= m)%nat -> Cfg.run_cfg St act cond m g st = Cfg.CRet st'.
Proof. exact CfgProofs.lower_simulates. Qed.

Theorem C01_lower_simulates_trace : forall St (act : N -> St -> St) (cond : N -> St -> bool) body g,
  Cfg.lower_body body = Some g -> NoDup (Cfg.labels_list body) ->
  forall f st tr st', Cfg.trace_body act cond f body st = Cfg.Ok (tr, st') ->
  exists n, (n <= CfgProofs.bound f + 1)%nat /\
    forall m, (n <= m)%nat -> Cfg.trace_cfg act cond m g st = Cfg.CRet (tr, st').
Proof. exact CfgProofs.lower_simulates_trace. Qed.

(* A body that passes the syntax analysis (C06 specification), the label scoper
   (C04 specification) and has unique label ids compiles, and its structured
   runs never get stuck on a jump. *)
Theorem C01_stages_accept : forall body,
  Syntax.spec_body (map CfgProofs.to_syn body) = nil ->
  LabelScope.spec_body (map CfgProofs.to_ls body) = nil ->
  Cfg.nodupb (Cfg.labels_list body) = true ->
  Cfg.accepted body = true.
Proof. exact CfgProofs.stages_accept. Qed.

Theorem C01_accepted_compiles : forall body,
  Cfg.accepted body = true ->
  exists g, Cfg.lower_body body = Some g /\ CfgProofs.cfg_wf (Cfg.labels_list body) g /\
    forall St act cond f st,
      match Cfg.run_body St act cond f body st with
      | Cfg.Ok st' => forall m, Cfg.run_cfg St act cond m g st = Cfg.COutOfFuel \/
                            Cfg.run_cfg St act cond m g st = Cfg.CRet st'
      | Cfg.Stuck => False
      | Cfg.OutOfFuel => True
      end.
Proof. exact CfgProofs.accepted_compiles. Qed.

(* ---- memory: references to parts of arrays and structures ----------------------------------
   Model/MemLower.v: a source-level object model (scalars, arrays, structures; paths of element
   and member steps), a flat byte memory laid out by LLVM's StructLayout (Model/Layout.v, tied
   to the code under C10), and the instruction sequence generator.rs emits for a reference
   (`generate_storage_address`: batched getelementptr indices, loads at pointers, extractvalue
   for parameter slices), followed statement by statement.  For every well-formed type, any
   nesting depth, any in-range indices: *)

(* the address the lowered path computes lies inside the object ... *)
Theorem C01_subobject_in_bounds : forall p t v v',
  Layout.wf_ty t = true -> MemLower.wt_value t v = true -> MemLower.get_path v p = Some v' ->
  exists off t',
    MemLower.gep_offset t p = Some (off, t') /\ 0 <= off /\
    off + Layout.llvm_alloc_size t' <= Layout.llvm_alloc_size t /\
    Layout.wf_ty t' = true /\ MemLower.wt_value t' v' = true.
Proof. exact MemLowerProofs.gep_in_bounds. Qed.

(* ... and holds exactly the source-level subobject, *)
Theorem C01_load_finds_the_subobject : forall m a t v p v' off t',
  Layout.wf_ty t = true -> MemLower.wt_value t v = true -> MemLowerProofs.agree m a t v ->
  MemLower.get_path v p = Some v' -> MemLower.gep_offset t p = Some (off, t') ->
  MemLower.load m (a + off) t' = Some v'.
Proof. exact MemLowerProofs.load_after_encode. Qed.

(* a store through it updates exactly that subobject: the memory then encodes [set_path v p w]
   and no byte outside the subobject's range changes, *)
Theorem C01_store_updates_exactly_the_subobject : forall m a t v p v0 off t' w,
  Layout.wf_ty t = true -> MemLower.wt_value t v = true -> MemLowerProofs.agree m a t v ->
  MemLower.get_path v p = Some v0 -> MemLower.gep_offset t p = Some (off, t') -> MemLower.wt_value t' w = true ->
  exists v2,
    MemLower.set_path v p w = Some v2 /\ MemLower.wt_value t v2 = true /\
    MemLowerProofs.agree (MemLower.store m (a + off) t' w) a t v2 /\
    (forall x, x < a + off \/ a + off + Layout.llvm_alloc_size t' <= x ->
       MemLower.store m (a + off) t' w x = m x).
Proof. exact MemLowerProofs.store_commutes. Qed.

(* and two references neither of which is a prefix of the other never overlap. *)
Theorem C01_distinct_paths_do_not_overlap : forall p q t v vp vq offp tp offq tq,
  Layout.wf_ty t = true -> MemLower.wt_value t v = true ->
  MemLower.get_path v p = Some vp -> MemLower.get_path v q = Some vq ->
  MemLower.gep_offset t p = Some (offp, tp) -> MemLower.gep_offset t q = Some (offq, tq) ->
  MemLower.disjoint_paths p q = true ->
  offp + Layout.llvm_alloc_size tp <= offq \/ offq + Layout.llvm_alloc_size tq <= offp.
Proof. exact MemLowerProofs.distinct_paths_distinct_ranges. Qed.

(* The instructions of the generator compute that address: for the steps of ANY reference
   (through pointers, views, slices, endless arrays, to any depth) the batched getelementptr /
   load / extractvalue sequence evaluates to the location the steps mean one by one. *)
Theorem C01_generated_address_is_the_meaning_of_the_steps : forall m l steps l',
  steps <> [] -> MemLowerProofs.endless_ok false steps = true ->
  MemLower.sem_steps m l steps = Some l' ->
  exists a t, l' = MemLower.LocMem a t /\
    MemLower.run m (MemLower.lower_ref (MemLower.base_kind_of l) steps) (MemLower.base_mval l) = Some (MemLower.MPtr a t).
Proof. exact MemLowerProofs.lower_ref_sound. Qed.

(* Elements of a slice: the address is ptr + i * size for EVERY i (the generated code has no
   bounds check: documented behaviour); with 0 <= i < len it holds the i-th element. *)
Theorem C01_slice_element : forall m ptr len E vs i q v' off t',
  Layout.wf_ty (MemLower.erase E) = true -> MemLowerProofs.wt_list (MemLower.erase E) vs = true -> Z.of_nat (length vs) = len ->
  MemLowerProofs.agree m ptr (Layout.TArr len (MemLower.erase E)) (MemLower.VArr vs) ->
  0 <= i < len ->
  MemLower.get_path (MemLower.VArr vs) (MemLower.SElem i :: q) = Some v' ->
  MemLower.gep_offset (MemLower.erase E) q = Some (off, t') ->
  exists T',
    MemLower.run m (MemLower.lower_ref MemLower.BParam (MemLower.RDeslice0 :: MemLower.RElem i false :: map MemLower.step_rstep q)) (MemLower.MSlice ptr len E)
    = Some (MemLower.MPtr (ptr + i * Layout.llvm_alloc_size (MemLower.erase E) + off) T') /\ MemLower.erase T' = t' /\
    MemLower.load m (ptr + i * Layout.llvm_alloc_size (MemLower.erase E) + off) t' = Some v'.
Proof. exact MemLowerProofs.slice_element. Qed.

(* The generator before the repair of D56 kept treating the base as "the parameter itself" after
   taking the data pointer out of a parameter slice, and skipped the load of a pointer element
   (`x: []&i64; x[i]`): its address differs from the meaning of the steps. *)
Theorem C01_pinned_slice_of_pointers_refuted :
  exists m l steps l',
    MemLowerProofs.endless_ok false steps = true /\ MemLower.sem_steps m l steps = Some l' /\
    MemLower.loc_addr l' <> MemLower.run m (MemLower.lower_ref_pinned (MemLower.base_kind_of l) steps) (MemLower.base_mval l).
Proof. exact MemLowerProofs.pinned_imm_flag_refuted. Qed.

Print Assumptions C01_binop_lowering_correct.
Print Assumptions C01_lower_simulates.
Print Assumptions C01_lower_simulates_trace.
Print Assumptions C01_stages_accept.
Print Assumptions C01_accepted_compiles.
Print Assumptions C01_unop_lowering_correct.
Print Assumptions C01_icmp_lowering_correct.
Print Assumptions C01_cast_lowering_correct.
Print Assumptions C01_subobject_in_bounds.
Print Assumptions C01_load_finds_the_subobject.
Print Assumptions C01_store_updates_exactly_the_subobject.
Print Assumptions C01_distinct_paths_do_not_overlap.
Print Assumptions C01_generated_address_is_the_meaning_of_the_steps.
Print Assumptions C01_slice_element.
Print Assumptions C01_pinned_slice_of_pointers_refuted.

(* The step insertion that Model/MemLower.v assumes for reads and writes of scalars ([elaborate]) IS the
   loop of the typer's Reference::autoderef (Model/Autoderef.v, which follows typer.rs arm by arm over the
   full ValueType): same steps in the same order, same final type, no coercion, no address taken. *)
Theorem C01_memory_steps_are_the_typers : forall t p rs t',
  AutoderefProofs.struct_free t = true ->
  MemLower.elaborate t p = Some (rs, t') ->
  (exists b, t' = MemLower.PInt b) \/ t' = MemLower.PBool ->
  exists taken,
    Autoderef.autoderef AutoderefProofs.no_members (AutoderefProofs.vt_of_pty t) (AutoderefProofs.vt_of_pty t') (map AutoderefProofs.astep_of_step p) 0
    = Autoderef.ADOk taken false (AutoderefProofs.vt_of_pty t') None /\
    map AutoderefProofs.rstep_of_tstep taken = map AutoderefProofs.forget_index rs.
Proof. exact AutoderefProofs.elaborate_is_autoderef. Qed.
Print Assumptions C01_memory_steps_are_the_typers.

(* The TARGET of an assignment is elaborated by another function of the typer (analyze_assignment_steps,
   Model/AssignSteps.v) than a reference that is read (Reference::autoderef): for every reference that fits its
   type, within the limits (runs of at most MAX_ADDRESS_DEPTH pointers, no array-like placeholders), both take
   THE SAME steps and reach the same type - a read and a write of one reference denote one location - and with
   no `&` written the target is followed by exactly as many Autoderefs as it has pointer levels: the scalar. *)
Theorem C01_assignment_steps_are_read_steps : forall mt known steps,
  Autoderef.fits mt known steps = true ->
  AutoderefProofs.steps_within steps ->
  AssignStepsProofs.types_within_assign mt known ->
  AssignStepsProofs.arraylike_free mt known ->
  exists taken ct,
    Autoderef.autoderef_loop mt Autoderef.max_num_autoderef_steps known steps = Autoderef.LoopDone taken ct [] /\
    AssignSteps.assign_loop mt known steps = AssignSteps.AsgAt taken ct /\
    Autoderef.apply_tsteps mt known taken = Some ct /\
    Autoderef.ref_final mt (Autoderef.fully_dereferenced known) steps = Some (Autoderef.fully_dereferenced ct).
Proof. exact AssignStepsProofs.assignment_steps_are_read_steps. Qed.

(* CallFrame's reading of assignment targets (MemLower.elaborate plus trailing Autoderefs) is what the typer
   does: the memory theorem of C08 speaks about the real elaboration *)
Theorem C01_frame_assignment_targets_are_the_typers : forall t p ad rs tfin,
  AutoderefProofs.struct_free t = true ->
  Autoderef.runs_ok AssignSteps.max_address_depth_nat (AutoderefProofs.vt_of_pty t) = true ->
  CallFrame.elab_assign t p ad = Some (rs, tfin) ->
  exists taken ct,
    AssignSteps.assign_loop AutoderefProofs.no_members (AutoderefProofs.vt_of_pty t) (map AutoderefProofs.astep_of_step p) = AssignSteps.AsgAt taken ct /\
    AssignSteps.assignment_steps AutoderefProofs.no_members (AutoderefProofs.vt_of_pty t) (map AutoderefProofs.astep_of_step p) (BinNat.N.of_nat ad)
    = AssignSteps.AOk (taken ++ repeat Autoderef.TAutoderef (BinNat.N.to_nat (BinNat.N.sub (Autoderef.pointer_depth ct) (BinNat.N.of_nat ad)))) 0 /\
    map AutoderefProofs.rstep_of_tstep (taken ++ repeat Autoderef.TAutoderef (BinNat.N.to_nat (BinNat.N.sub (Autoderef.pointer_depth ct) (BinNat.N.of_nat ad))))
    = map AutoderefProofs.forget_index rs /\
    AutoderefProofs.vt_of_pty tfin = AssignSteps.strip_pointers_n (BinNat.N.to_nat (BinNat.N.sub (Autoderef.pointer_depth ct) (BinNat.N.of_nat ad))) ct.
Proof. exact AssignStepsProofs.elab_assign_is_assignment_steps. Qed.
Print Assumptions C01_assignment_steps_are_read_steps.
Print Assumptions C01_frame_assignment_targets_are_the_typers.
