(* C01 — compiled programs behave as their source prescribes (proved part:
   instruction, predicate and cast selection against bit-vector semantics).
   The selection tables are Gen/LowerTables.v, Gen/TypeTables.v and
   Gen/ResolverTables.v, regenerated from /repo on every run. *)
From Coq Require Import ZArith Bool.
From PV Require Import Base.Common Base.IR Base.Bits Model.Lower Proofs.LowerProofs.
From PV Require Model.Cfg Proofs.CfgProofs Model.Syntax Model.LabelScope.
Open Scope Z_scope.

(* For every binary operator and every primitive type the resolver admits for
   it, on both targets (usize = 32 or 64 bits): the LLVM instruction the
   generator selects maps the operands' bit patterns to the bit pattern of the
   source-level result (wrapping + - *, truncating / and % with the signedness of
   the type, bitwise ops, shl, logical shr), whenever the source operation is
   defined (no division by zero, no MIN / -1, shift amount < width). *)
Theorem C01_binop_lowering_correct : forall usize_bits, usize_bits = 32 \/ usize_bits = 64 ->
  forall op t x y v,
  mem_operand (OPrim t) (binop_valid_types op) = true ->
  type_range usize_bits t x -> type_range usize_bits t y ->
  src_binop op (signed t) (bits usize_bits t) x y = Some v ->
  ir_binop (select_binop op (signed t)) (bits usize_bits t)
           (repr (bits usize_bits t) x) (repr (bits usize_bits t) y)
  = Some (repr (bits usize_bits t) v).
Proof. exact binop_lowering_correct. Qed.

Theorem C01_unop_lowering_correct : forall usize_bits, usize_bits = 32 \/ usize_bits = 64 ->
  forall op t x v,
  mem_operand (OPrim t) (unop_valid_types op) = true ->
  type_range usize_bits t x ->
  src_unop op (signed t) (bits usize_bits t) x = Some v ->
  ir_unop (select_unop op (signed t)) (bits usize_bits t) (repr (bits usize_bits t) x)
  = Some (repr (bits usize_bits t) v).
Proof. exact unop_lowering_correct. Qed.

(* Comparisons: the predicate's signedness follows the operand type. *)
Theorem C01_icmp_lowering_correct : forall usize_bits, usize_bits = 32 \/ usize_bits = 64 ->
  forall op t x y,
  type_range usize_bits t x -> type_range usize_bits t y ->
  ir_icmp (select_icmp op (signed t)) (bits usize_bits t)
          (repr (bits usize_bits t) x) (repr (bits usize_bits t) y)
  = src_cmp op x y.
Proof. exact icmp_lowering_correct. Qed.

(* Casts: every conversion the resolver admits has a lowering, and it yields
   the bit pattern of the value modulo 2^width(destination). *)
Theorem C01_cast_lowering_correct : forall usize_bits, usize_bits = 32 \/ usize_bits = 64 ->
  forall s d x,
  is_valid_primitive_conversion s d (vt_is_integral s) (vt_is_integral d) = true ->
  type_range usize_bits s x ->
  exists c,
    select_cast s d (vt_is_integral s) (vt_is_integral d) (signed s) (bits usize_bits s) (bits usize_bits d) = Some c /\
    ir_cast c (bits usize_bits s) (bits usize_bits d) (repr (bits usize_bits s) x)
    = repr (bits usize_bits d) (src_cast (signed d) (bits usize_bits d) x).
Proof. exact cast_lowering_correct. Qed.

(* What a wrong selection looks like (shape of the failing-input search). *)
Theorem C01_udiv_for_signed_refuted :
  exists x y v, in_s 8 x /\ in_s 8 y /\ src_binop Divide true 8 x y = Some v /\
    ir_binop IUDiv 8 (repr 8 x) (repr 8 y) <> Some (repr 8 v).
Proof. exact udiv_for_signed_refuted. Qed.

(* Non-vacuity: the hypotheses are met by ordinary operands. *)
Example C01_example : 
  mem_operand (OPrim Int8) (binop_valid_types Divide) = true /\
  type_range 64 Int8 (-128) /\ type_range 64 Int8 3 /\
  src_binop Divide (signed Int8) (bits 64 Int8) (-128) 3 = Some (-42) /\
  ir_binop (select_binop Divide (signed Int8)) 8 (repr 8 (-128)) (repr 8 3) = Some (repr 8 (-42)).
Proof. vm_compute. repeat split; congruence. Qed.

(* Control flow.  The generator's lowering of goto / label / if / else / block /
   loop to basic blocks (Model/Cfg.v, compared block by block with the emitted IR
   on every run) preserves behaviour: for ANY state type, action and condition
   semantics, a structured run (the control skeleton of the definitional
   interpreter Model/Sem.v) that terminates is reproduced by the CFG - same final
   state, and same sequence of executed actions. *)
Theorem C01_lower_simulates : forall (St : Type) (act : N -> St -> St) (cond : N -> St -> bool) body g,
  Cfg.lower_body body = Some g -> NoDup (Cfg.labels_list body) ->
  forall f st st', Cfg.run_body St act cond f body st = Cfg.Ok st' ->
  exists n, (n <= CfgProofs.bound f + 1)%nat /\
    forall m, (n <= m)%nat -> Cfg.run_cfg St act cond m g st = Cfg.CRet st'.
Proof. exact CfgProofs.lower_simulates. Qed.

Theorem C01_lower_simulates_trace : forall St (act : N -> St -> St) (cond : N -> St -> bool) body g,
  Cfg.lower_body body = Some g -> NoDup (Cfg.labels_list body) ->
  forall f st tr st', Cfg.trace_body act cond f body st = Cfg.Ok (tr, st') ->
  exists n, (n <= CfgProofs.bound f + 1)%nat /\
    forall m, (n <= m)%nat -> Cfg.trace_cfg act cond m g st = Cfg.CRet (tr, st').
Proof. exact CfgProofs.lower_simulates_trace. Qed.

(* A body that passes the syntax analysis (C06 specification), the label scoper
   (C04 specification) and has unique label ids compiles, and its structured
   runs never get stuck on a jump. *)
Theorem C01_stages_accept : forall body,
  Syntax.spec_body (map CfgProofs.to_syn body) = nil ->
  LabelScope.spec_body (map CfgProofs.to_ls body) = nil ->
  Cfg.nodupb (Cfg.labels_list body) = true ->
  Cfg.accepted body = true.
Proof. exact CfgProofs.stages_accept. Qed.

Theorem C01_accepted_compiles : forall body,
  Cfg.accepted body = true ->
  exists g, Cfg.lower_body body = Some g /\ CfgProofs.cfg_wf (Cfg.labels_list body) g /\
    forall St act cond f st,
      match Cfg.run_body St act cond f body st with
      | Cfg.Ok st' => forall m, Cfg.run_cfg St act cond m g st = Cfg.COutOfFuel \/
                            Cfg.run_cfg St act cond m g st = Cfg.CRet st'
      | Cfg.Stuck => False
      | Cfg.OutOfFuel => True
      end.
Proof. exact CfgProofs.accepted_compiles. Qed.

Print Assumptions C01_binop_lowering_correct.
Print Assumptions C01_lower_simulates.
Print Assumptions C01_lower_simulates_trace.
Print Assumptions C01_stages_accept.
Print Assumptions C01_accepted_compiles.
Print Assumptions C01_unop_lowering_correct.
Print Assumptions C01_icmp_lowering_correct.
Print Assumptions C01_cast_lowering_correct.
