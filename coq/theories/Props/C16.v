(* C16 — the second-generation parser builds a faithful parse tree.
   The reference for "the abstract syntax of the source" is Model/RefParser.v: an
   abstract syntax, a recursive-descent parser for the grammar of the first
   generation and a printer; the theorems below pin its precedence and
   associativity decisions.  Both real parsers are compared with it on every run. *)
From PV Require Import Base.Common Base.Tok Model.RefParser Proofs.RefParserProofs Proofs.RefParserRange.

(* Printing any well-formed tree and parsing the tokens gives the tree back:
   expressions (this pins `a - b - c`, `a * b + c`, bitwise chains of one operator,
   unary minus, casts), statements, whole modules. *)
Theorem C16_parse_print_expr : forall e R,
  wf_expr false e = true -> stop_expr false R = true ->
  exists n, forall fuel, n <= fuel -> parse_expr fuel (print_expr e ++ R) = Some (e, R).
Proof. exact parse_print_expr. Qed.

Theorem C16_parse_print_stmt : forall s R,
  wf_stmt s = true -> (open_if s = true -> isElse (hdk R) = false) ->
  exists n, forall fuel, n <= fuel -> parse_statement fuel (print_stmt s ++ R) = Some (s, R).
Proof. exact parse_print_stmt. Qed.

Theorem C16_parse_print_module : forall ds,
  wf_module ds = true ->
  exists n, forall fuel, n <= fuel -> parse_module fuel (print_module ds) = Some ds.
Proof. exact parse_print_module. Qed.

(* The well-formedness predicate is exactly the range of the parser: whatever it
   returns (on tokens a lexer can produce) is well-formed. *)
Theorem C16_parse_wf : forall fuel ts ds,
  toks_ok ts = true -> parse_module fuel ts = Some ds -> wf_module ds = true.
Proof. exact parse_wf. Qed.

Print Assumptions C16_parse_print_expr.
Print Assumptions C16_parse_print_stmt.
Print Assumptions C16_parse_print_module.
Print Assumptions C16_parse_wf.
