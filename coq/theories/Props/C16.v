(* C16 — the second-generation parser builds a faithful parse tree.
   The reference for "the abstract syntax of the source" is Model/RefParser.v: an
   abstract syntax, a recursive-descent parser for the grammar of the first
   generation and a printer; the theorems below pin its precedence and
   associativity decisions.  Both real parsers are compared with it on every run. *)
From PV Require Import Base.Common Base.Tok Model.RefParser Proofs.RefParserProofs Proofs.RefParserRange.
From PV Require Model.DeltaExpr Proofs.DeltaExprProofs.

(* Printing any well-formed tree and parsing the tokens gives the tree back:
   expressions (this pins `a - b - c`, `a * b + c`, bitwise chains of one operator,
   unary minus, casts), statements, whole modules. *)
Theorem C16_parse_print_expr : forall e R,
  wf_expr false e = true -> stop_expr false R = true ->
  exists n, forall fuel, n <= fuel -> parse_expr fuel (print_expr e ++ R) = Some (e, R).
Proof. exact parse_print_expr. Qed.

Theorem C16_parse_print_stmt : forall s R,
  wf_stmt s = true -> (open_if s = true -> isElse (hdk R) = false) ->
  exists n, forall fuel, n <= fuel -> parse_statement fuel (print_stmt s ++ R) = Some (s, R).
Proof. exact parse_print_stmt. Qed.

Theorem C16_parse_print_module : forall ds,
  wf_module ds = true ->
  exists n, forall fuel, n <= fuel -> parse_module fuel (print_module ds) = Some ds.
Proof. exact parse_print_module. Qed.

(* The well-formedness predicate is exactly the range of the parser: whatever it
   returns (on tokens a lexer can produce) is well-formed. *)
Theorem C16_parse_wf : forall fuel ts ds,
  toks_ok ts = true -> parse_module fuel ts = Some ds -> wf_module ds = true.
Proof. exact parse_wf. Qed.

(* ---- the second-generation expression parser itself ------------------------------------------
   Model/DeltaExpr.v follows src/delta/parser.rs function by function (parse_addition,
   parse_multiplication, parse_singular_expression with its `as` loop, unary operators,
   primary expressions with address depth, reference steps, calls, array and structure
   literals, size-of and length-of; the comparison of `if`), the emission into the node array
   folded into tree construction.  At EQUAL fuel, for every token list: *)

(* whatever the reference parser (= the first generation) accepts, the second generation accepts
   with the same rest and the same tree up to the known difference that `-5` stays a unary minus
   (D24); references of up to 127 steps included (D70, repaired) *)
Theorem C16_delta_expression_is_reference : forall fuel ts e rest,
  RefParser.parse_expr fuel ts = Some (e, rest) ->
  exists e', DeltaExpr.parse_expression_res fuel ts = DeltaExpr.Ok (e', rest) /\
             DeltaExpr.fold_negative_literals e' = e /\ DeltaExpr.admissible e' = true.
Proof. exact DeltaExprProofs.delta_expr_is_reference_exact. Qed.

Theorem C16_acceptance_iff : forall ts rest,
  (exists fuel e, RefParser.parse_expr fuel ts = Some (e, rest)) <->
  (exists fuel e', DeltaExpr.parse_expression_res fuel ts = DeltaExpr.Ok (e', rest) /\ DeltaExpr.admissible e' = true).
Proof. exact DeltaExprProofs.acceptance_iff. Qed.

(* and conversely: a tree it builds is the reference tree, or the reference parser rejects the
   tokens at every fuel (three missing checks of the second generation: a bitwise or shift
   operator after an unparenthesised binary expression, an ill-formed type in a cast or size-of) *)
Theorem C16_delta_accepts_iff : forall fuel ts e' rest,
  DeltaExpr.parse_expression_res fuel ts = DeltaExpr.Ok (e', rest) ->
  (DeltaExpr.admissible e' = true -> RefParser.parse_expr fuel ts = Some (DeltaExpr.fold_negative_literals e', rest)) /\
  (DeltaExpr.admissible e' = false -> forall fuel', RefParser.parse_expr fuel' ts = None).
Proof. exact DeltaExprProofs.delta_accepts_reference_iff_admissible. Qed.

Theorem C16_delta_comparison_is_reference : forall f ts op l r rest,
  RefParser.parse_comparison f ts = Some ((op, l, r), rest) ->
  exists l' r', DeltaExpr.parse_comparison f ts = DeltaExpr.Ok ((op, l', r'), rest) /\
                DeltaExpr.fold_negative_literals l' = l /\ DeltaExpr.fold_negative_literals r' = r /\
                DeltaExpr.admissible l' = true /\ DeltaExpr.admissible r' = true.
Proof. exact DeltaExprProofs.delta_comparison_is_reference. Qed.

(* the parser before the repair of D70 (its reference-step loop ran 127 times and then gave up
   without looking whether a step follows), and the three seeded changes of the expression parser *)
Theorem C16_pinned_rejects_127_steps_refuted :
  exists ts e, RefParser.parse_expr 400 ts = Some (e, []) /\
               DeltaExpr.parse_expression_pinned_res 400 ts = DeltaExpr.Err DeltaExpr.DepthExceeded /\
               (forall fuel, DeltaExpr.parse_expression_pinned fuel ts = None) /\
               DeltaExpr.parse_expression 400 ts = Some (e, []).
Proof. exact DeltaExprProofs.pinned_rejects_127_steps_refuted. Qed.

Theorem C16_right_associative_multiplication_refuted :
  exists ts e_ref e_mut,
    RefParser.parse_expr 50 ts = Some (e_ref, []) /\
    DeltaExpr.parse_expression 50 ts = Some (e_ref, []) /\
    DeltaExpr.mut1_parse_expression 50 ts = DeltaExpr.Ok (e_mut, []) /\ e_mut <> e_ref.
Proof. exact DeltaExprProofs.mutant_mul_right_assoc_refuted. Qed.

Theorem C16_single_cast_refuted :
  exists ts e_ref e_mut rest_mut,
    RefParser.parse_expr 50 ts = Some (e_ref, []) /\
    DeltaExpr.parse_expression 50 ts = Some (e_ref, []) /\
    DeltaExpr.mut2_parse_expression 50 ts = DeltaExpr.Ok (e_mut, rest_mut) /\
    e_mut <> e_ref /\ rest_mut <> [].
Proof. exact DeltaExprProofs.mutant_as_once_refuted. Qed.

Theorem C16_address_depth_from_zero_refuted :
  exists ts e_ref e_mut,
    RefParser.parse_expr 50 ts = Some (e_ref, []) /\
    DeltaExpr.parse_expression 50 ts = Some (e_ref, []) /\
    DeltaExpr.mut3_parse_expression 50 ts = DeltaExpr.Ok (e_mut, []) /\ e_mut <> e_ref.
Proof. exact DeltaExprProofs.mutant_address_depth_refuted. Qed.

Print Assumptions C16_parse_print_expr.
Print Assumptions C16_parse_print_stmt.
Print Assumptions C16_parse_print_module.
Print Assumptions C16_parse_wf.
Print Assumptions C16_delta_expression_is_reference.
Print Assumptions C16_delta_accepts_iff.
Print Assumptions C16_delta_comparison_is_reference.
Print Assumptions C16_pinned_rejects_127_steps_refuted.
Print Assumptions C16_acceptance_iff.
Print Assumptions C16_right_associative_multiplication_refuted.
Print Assumptions C16_single_cast_refuted.
Print Assumptions C16_address_depth_from_zero_refuted.
