(* C03 — every successful compilation yields valid LLVM IR (proved part: linkage
   and calling convention of functions, over Gen/Linkage.v regenerated from
   src/alpha/generator.rs `declare`; block structure of the control-flow
   lowering: Model/Cfg.v, Proofs/CfgProofs.v).  Validity of the IR itself is decided by llvm-as and opt run as
   independent tools on every module and on the linked program. *)
From Coq Require Import List.
From PV Require Import Base.Common Gen.Linkage Model.Cfg Proofs.CfgProofs.
Import ListNotations.

(* `main` and `pub` functions (and imported signatures, which are Forward) are
   externally visible; everything else is private to its module. *)
Theorem C03_public_main_forward_external : forall p e m f o,
  p = true \/ m = true \/ f = true -> linkage_of p e m f o = LExternal.
Proof. intros p e m f o H; destruct p, e, m, f, o; try reflexivity; destruct H as [H | [H | H]]; discriminate H. Qed.

Theorem C03_private_otherwise : forall e o, linkage_of false e false false o = LPrivate.
Proof. intros [] []; reflexivity. Qed.

(* `extern` functions use the C calling convention, all others fastcc, so a
   declaration and its definition in another module always agree. *)
Theorem C03_callconv : forall p e m f o,
  callconv_of p e m f o = if e then CC_C else CC_Fast.
Proof. intros [] [] [] [] []; reflexivity. Qed.

(* An exported signature (export keeps External, clears Public, resolve adds
   Forward) has the same linkage class and calling convention as its definition. *)
(* Every call of a user function carries the calling convention of its callee, whatever the
   callee's flags (a call whose convention differs from the callee's is undefined behaviour in
   LLVM IR although the verifier accepts it: D59, repaired; the translator reads the
   FunctionCall arm of generator.rs on every run). *)
Theorem C03_call_convention_is_the_callee's : forall p e m f o,
  call_conv_of p e m f o = callconv_of p e m f o.
Proof. intros; unfold call_conv_of. reflexivity. Qed.

Theorem C03_import_matches_definition : forall e m o,
  linkage_of true e m false o = linkage_of false e m true o /\
  callconv_of true e m false o = callconv_of false e m true o.
Proof. intros [] [] []; split; reflexivity. Qed.

(* Block structure.  The generator (Statement::generate for goto, label, if,
   block, loop; Model/Cfg.v follows LLVMAppendBasicBlock / LLVMBuildBr call by
   call and is compared block by block with the emitted IR on every run) yields,
   for every body whose labels are unique and whose gotos name declared labels
   (what the scoper and resolver establish), a CFG in which block 0 is the only
   entry block, EVERY block consists of non-terminators followed by exactly one
   terminator whose targets exist, and every label has exactly one block. *)
Theorem C03_lower_cfg_wf : forall body g,
  lower_body body = Some g ->
  NoDup (labels_list body) ->
  incl (gotos_list body) (labels_list body) ->
  cfg_wf (labels_list body) g.
Proof. exact lower_cfg_wf. Qed.

(* No branch ever targets the entry block (LLVM's verifier rule), nor an
   unreachable-after-goto or after-looped block. *)
Theorem C03_lower_branch_targets : forall body g,
  lower_body body = Some g ->
  forall i blk x j, get_block g i = Some blk -> In x (binstrs blk) -> In j (targets x) ->
  exists t, tagl g j = Some t /\ tag_targetable t = true.
Proof. exact lower_branch_targets. Qed.

(* The generator's `unreachable!()` on a loop statement is reached exactly when a
   loop is not the last statement of a braced block - which the syntax analyzer
   rejects (C06). *)
Theorem C03_lower_body_panics_iff : forall body,
  lower_body body = None <-> loops_ok_list body = false.
Proof. exact lower_body_panics_iff. Qed.

(* Both hypotheses of C03_lower_cfg_wf are necessary. *)
Theorem C03_wf_needs_declared_labels :
  exists body g, lower_body body = Some g /\ NoDup (labels_list body) /\
                 ~ cfg_wf (labels_list body) g.
Proof. exact lower_cfg_wf_without_goto_hyp_refuted. Qed.

Print Assumptions C03_public_main_forward_external.
Print Assumptions C03_lower_cfg_wf.
Print Assumptions C03_lower_branch_targets.
Print Assumptions C03_lower_body_panics_iff.
Print Assumptions C03_callconv.
Print Assumptions C03_import_matches_definition.
Print Assumptions C03_call_convention_is_the_callee's.
