(* C03 — every successful compilation yields valid LLVM IR (proved part: linkage
   and calling convention of functions, over Gen/Linkage.v regenerated from
   src/alpha/generator.rs `declare`; block structure: see Proofs/CfgProofs.v once
   present).  Validity of the IR itself is decided by llvm-as and opt run as
   independent tools on every module and on the linked program. *)
From PV Require Import Base.Common Gen.Linkage.

(* `main` and `pub` functions (and imported signatures, which are Forward) are
   externally visible; everything else is private to its module. *)
Theorem C03_public_main_forward_external : forall p e m f o,
  p = true \/ m = true \/ f = true -> linkage_of p e m f o = LExternal.
Proof. intros p e m f o H; destruct p, e, m, f, o; try reflexivity; destruct H as [H | [H | H]]; discriminate H. Qed.

Theorem C03_private_otherwise : forall e o, linkage_of false e false false o = LPrivate.
Proof. intros [] []; reflexivity. Qed.

(* `extern` functions use the C calling convention, all others fastcc, so a
   declaration and its definition in another module always agree. *)
Theorem C03_callconv : forall p e m f o,
  callconv_of p e m f o = if e then CC_C else CC_Fast.
Proof. intros [] [] [] [] []; reflexivity. Qed.

(* An exported signature (export keeps External, clears Public, resolve adds
   Forward) has the same linkage class and calling convention as its definition. *)
Theorem C03_import_matches_definition : forall e m o,
  linkage_of true e m false o = linkage_of false e m true o /\
  callconv_of true e m false o = callconv_of false e m true o.
Proof. intros [] [] []; split; reflexivity. Qed.

Print Assumptions C03_public_main_forward_external.
Print Assumptions C03_callconv.
Print Assumptions C03_import_matches_definition.
