(* C19 — the token fuzzer emits only valid lexemes.
   Model: Model/Fuzzer.v (src/delta/fuzzer.rs fill_to_capacity_with_tokens with
   every random draw taken from an ARBITRARY list of choices); the theorems hold
   for every such list, so nothing is assumed about the random number generator.
   Lexers: Model/LexAlpha.v (current first generation) and Model/LexDelta.v. *)
From Coq Require Import List NArith.
From PV Require Import Base.Common Base.IR Base.Tok Model.Fuzzer.
From PV Require Model.LexAlpha Model.LexDelta.
From PV Require Import Proofs.FuzzerShapeProofs Proofs.FuzzerProofs.
Import ListNotations.

(* The whole property, for every list of random draws and every requested size:
   the output is valid UTF-8 (it decodes back to the generated code points), has
   at least kb KiB, the first-generation lexer finds no lexical error, and the
   second-generation lexer finds none either - unless the whole source is refused
   for its size (E102 beyond 2 GiB, E103 when the token buffer is too small). *)
Theorem C19_fuzz_tokens_correct : forall cs kb, (1 <= kb)%N -> fst (fuzz_tokens cs kb) = Finished ->
  let src := snd (fuzz_tokens cs kb) in
  exists text,
    src = encode text /\ forallb scalar text = true /\ decode_stream (S (length text)) src = Some text /\
    (kb * 1024 <= lenN src)%N /\
    (forall t, In t (LexAlpha.lex_alpha_fixed text) -> kind t <> KError) /\
    (LexDelta.lex_delta src = [LexDelta.err_tok0 E102] \/ LexDelta.lex_delta src = [LexDelta.err_tok0 E103] \/
     forall t, In t (LexDelta.lex_delta src) -> kind t <> KError).
Proof. exact fuzz_tokens_correct. Qed.

(* Below 64 KiB (the sizes the property quantifies over) there is no exception. *)
Theorem C19_no_error_small : forall fuel cs cap pct,
  let src := emit_bytes fuel cs cap pct in
  src <> [] -> (lenN src + 2 <= 65536)%N ->
  forall t, In t (LexDelta.lex_delta src) -> kind t <> KError.
Proof. exact no_glue_error_delta_small. Qed.

(* The exception is real: almost one token per byte overflows the token buffer. *)
Theorem C19_E103_reachable :
  fst (fuzz_tokens witness_E103 72) = Finished /\
  LexDelta.lex_delta (snd (fuzz_tokens witness_E103 72)) = [LexDelta.err_tok0 E103].
Proof. exact no_glue_error_delta_refuted. Qed.

(* The run never exhausts its fuel: it ends because the buffer is full, or the
   list of draws is exhausted (the real loop ends with probability 1). *)
Theorem C19_status : forall cs kb,
  fst (fuzz_tokens cs kb) = Finished \/ fst (fuzz_tokens cs kb) = OutOfChoices.
Proof. exact fuzz_tokens_status. Qed.

(* Separator rule: a space is inserted exactly between two word characters. *)
Theorem C19_separator_rule : forall k last cs x t, (0 < weight k)%N ->
  fst (emit_token k cs) = x :: t ->
  ops_text (fst (push_token k last cs)) = (if needs_space last x then [32%N] else []) ++ x :: t.
Proof. exact separator_rule. Qed.

Print Assumptions C19_fuzz_tokens_correct.
Print Assumptions C19_no_error_small.
Print Assumptions C19_E103_reachable.
Print Assumptions C19_status.
Print Assumptions C19_separator_rule.
