(* C05 — no variable is used out of scope, shadowed, or with its declaration
   skipped.  Model: Model/VarScope.v (src/alpha/scoper/variable_references.rs). *)
From PV Require Import Base.Common Model.VarScope Proofs.VarScopeProofs.

(* The analyzer (scope stack with resolution ids; per label the intersection of
   the variables in scope at every goto; pruning at the label; poisoning on use)
   emits exactly the diagnostics of the forward specification
     - a use resolves to the outermost/earliest visible binding of that name
       (E402 if there is none), a declaration is a duplicate iff the name is
       visible (E422, E424 for parameters),
     - a binding is "skipped" at a label of its own block iff a goto to that label
       was seen before the binding was declared; a use of a skipped binding is
       E482, reported once until the binding is skipped again,
   for every program in which the label scoper gave each label declaration its
   own id (the check monitors this hypothesis on every real input). *)
Theorem C05_model_eq_spec : forall consts fs,
  labels_once fs -> an_program consts fs = spec_program consts fs.
Proof. exact an_program_eq_spec_once. Qed.

Theorem C05_labels_once_iff : forall fs, labels_once fs <-> NoDup (label_ids (events fs)).
Proof. exact labels_once_iff. Qed.

(* The hypothesis is needed: with a label id declared twice the two differ. *)
Theorem C05_hypothesis_needed : exists fs, an_program [] fs <> spec_program [] fs.
Proof. exact an_program_neq_spec_without_wf. Qed.

Theorem C05_undefined_iff : forall x st,
  snd (use x st) = [E402] <-> find_name x (stack st) = None.
Proof. exact use_undefined_iff. Qed.

Theorem C05_duplicate_iff : forall x st,
  snd (declare x st) = true <-> exists i, find_name x (stack st) = Some i.
Proof. exact declare_dup_iff. Qed.

Check C05_model_eq_spec : forall consts fs,
  labels_once fs -> an_program consts fs = spec_program consts fs.

(* Non-vacuity / regression examples computed by the model. *)
Example C05_example_skip :
  an_program [] [{| params := []; body := [SGoto 1; SDecl 7 []; SLabel 1; SUse [7]; SUse [7]]; ret := [] |}]%N
  = [E482].
Proof. vm_compute. reflexivity. Qed.

Example C05_example_scope :
  an_program [5]%N [{| params := [6; 6]; body := [SBlock [SDecl 7 [8]]; SUse [7; 5; 6]; SDecl 5 []]; ret := [] |}]%N
  = [E424; E402; E402; E422].
Proof. vm_compute. reflexivity. Qed.

Example C05_example_hypothesis :
  labels_once [{| params := []; body := [SGoto 1; SDecl 7 []; SLabel 1; SBlock [SGoto 2; SUse [7]]; SLabel 2]; ret := [] |}]%N.
Proof. vm_compute. reflexivity. Qed.

Print Assumptions C05_model_eq_spec.
Print Assumptions C05_labels_once_iff.
Print Assumptions C05_hypothesis_needed.
Print Assumptions C05_undefined_iff.
Print Assumptions C05_duplicate_iff.
