(* C05 — no variable is used out of scope, shadowed, or with its declaration
   skipped.  Model: Model/VarScope.v (src/alpha/scoper/variable_references.rs). *)
From PV Require Import Base.Common Model.VarScope.

(* Non-vacuity / regression examples computed by the model. *)
Example C05_example_skip :
  an_program [] [{| params := []; body := [SGoto 1; SDecl 7 []; SLabel 1; SUse [7]; SUse [7]]; ret := [] |}]%N
  = [E482].
Proof. vm_compute. reflexivity. Qed.

Example C05_example_scope :
  an_program [5]%N [{| params := [6; 6]; body := [SBlock [SDecl 7 [8]]; SUse [7; 5; 6]; SDecl 5 []]; ret := [] |}]%N
  = [E424; E402; E402; E422].
Proof. vm_compute. reflexivity. Qed.
