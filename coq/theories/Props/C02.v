(* C02 — the compiler never crashes and never fails silently (proved part: the
   error accumulation of the resolver, src/alpha/resolver.rs `impl Resolvable`
   for Vec, tuples, Option, Box, Poisonable, `accumulate`, `combine`, and
   src/alpha/error.rs `From<Poison> for Errors`).
   A resolvable thing is a tree whose leaves are Ok, Poison::Error(code) or
   Poison::Poisoned; inner nodes either collect the errors of all children
   (Vec, tuples) or stop at the first failing child (`?` chains). *)
From PV Require Import Base.Common.
From PV Require Model.TypeLegal Model.Autoderef Proofs.AutoderefProofs Model.AssignSteps Proofs.AssignStepsProofs.

Inductive tree :=
| TOk
| TErr (c : code)        (* Poison::Error *)
| TPoisoned              (* Poison::Poisoned: errors = [] *)
| TAll (cs : list tree)  (* Vec<T>, (T1, T2, ..): every child is resolved, errors appended *)
| TSeq (cs : list tree). (* sequential `?`: the first failing child decides *)

Fixpoint resolve (t : tree) : option (list code) :=   (* None = Ok, Some es = Err(es) *)
  match t with
  | TOk => None
  | TErr c => Some [c]
  | TPoisoned => Some []
  | TAll cs =>
      (fix go (l : list tree) : option (list code) :=
         match l with
         | [] => None
         | x :: r => match resolve x, go r with
                     | None, e => e
                     | Some a, None => Some a
                     | Some a, Some b => Some (a ++ b)
                     end
         end) cs
  | TSeq cs =>
      (fix go (l : list tree) : option (list code) :=
         match l with
         | [] => None
         | x :: r => match resolve x with None => go r | Some a => Some a end
         end) cs
  end.

Fixpoint has_error (t : tree) : bool :=
  match t with
  | TErr _ => true
  | TAll cs | TSeq cs => (fix go l := match l with [] => false | x :: r => has_error x || go r end) cs
  | _ => false
  end.
Fixpoint has_poisoned (t : tree) : bool :=
  match t with
  | TPoisoned => true
  | TAll cs | TSeq cs => (fix go l := match l with [] => false | x :: r => has_poisoned x || go r end) cs
  | _ => false
  end.
Fixpoint all_ok (t : tree) : bool :=
  match t with
  | TOk => true
  | TAll cs | TSeq cs => (fix go l := match l with [] => true | x :: r => all_ok x && go r end) cs
  | _ => false
  end.

Section tree_ind2.
  Variable P : tree -> Prop.
  Hypothesis H1 : P TOk. Hypothesis H2 : forall c, P (TErr c). Hypothesis H3 : P TPoisoned.
  Hypothesis H4 : forall cs, Forall P cs -> P (TAll cs).
  Hypothesis H5 : forall cs, Forall P cs -> P (TSeq cs).
  Fixpoint tree_ind2 (t : tree) : P t :=
    let go := fix go (l : list tree) : Forall P l :=
      match l with [] => Forall_nil P | x :: r => Forall_cons x (tree_ind2 x) (go r) end in
    match t with
    | TOk => H1 | TErr c => H2 c | TPoisoned => H3
    | TAll cs => H4 cs (go cs) | TSeq cs => H5 cs (go cs)
    end.
End tree_ind2.

(* Success iff nothing in the tree is poisoned or erroneous. *)
Theorem C02_resolve_ok_iff : forall t, resolve t = None <-> all_ok t = true.
Proof.
  induction t as [| c | | cs IH | cs IH] using tree_ind2; cbn [resolve all_ok]; try (split; congruence).
  - induction IH as [|x r Hx _ IHr]; [tauto|].
    destruct (resolve x) eqn:Ex.
    + assert (all_ok x = false) by (destruct (all_ok x); [destruct Hx as [_ Hx]; specialize (Hx eq_refl); discriminate | reflexivity]).
      rewrite H. cbn [andb]. match goal with |- context [match ?g with _ => _ end] => destruct g end; split; discriminate.
    + destruct Hx as [Hx _]. rewrite (Hx eq_refl). cbn [andb]. exact IHr.
  - induction IH as [|x r Hx _ IHr]; [tauto|].
    destruct (resolve x) eqn:Ex.
    + assert (all_ok x = false) by (destruct (all_ok x); [destruct Hx as [_ Hx]; specialize (Hx eq_refl); discriminate | reflexivity]).
      rewrite H. cbn [andb]. split; discriminate.
    + destruct Hx as [Hx _]. rewrite (Hx eq_refl). cbn [andb]. exact IHr.
Qed.

(* A failure with an EMPTY error list requires a Poisoned leaf: if every
   Poisoned leaf is accompanied by an Error that is not cut off, the list is
   non-empty.  For trees without sequential short-circuits the statement is exact. *)
Fixpoint no_seq (t : tree) : bool :=
  match t with
  | TSeq _ => false
  | TAll cs => (fix go l := match l with [] => true | x :: r => no_seq x && go r end) cs
  | _ => true
  end.

Theorem C02_silent_failure_needs_poison : forall t, resolve t = Some [] -> has_poisoned t = true.
Proof.
  induction t as [| c | | cs IH | cs IH] using tree_ind2; cbn [resolve has_poisoned]; try congruence.
  - induction IH as [|x r Hx _ IHr]; [discriminate|].
    destruct (resolve x) as [a|] eqn:Ex.
    + match goal with |- context [match ?g with _ => _ end] => destruct g as [b|] eqn:Eg end.
      * intros [= H]. apply app_eq_nil in H. destruct H as [-> ->]. rewrite (Hx eq_refl). reflexivity.
      * intros [= ->]. rewrite (Hx eq_refl). reflexivity.
    + intros H. rewrite (IHr H). apply orb_true_r.
  - induction IH as [|x r Hx _ IHr]; [discriminate|].
    destruct (resolve x) as [a|] eqn:Ex.
    + intros [= ->]. rewrite (Hx eq_refl). reflexivity.
    + intros H. rewrite (IHr H). apply orb_true_r.
Qed.

Theorem C02_errors_reported_when_collected : forall t,
  no_seq t = true -> has_error t = true -> exists c es, resolve t = Some (c :: es).
Proof.
  induction t as [| c | | cs IH | cs IH] using tree_ind2; cbn [resolve has_error no_seq]; try discriminate.
  - intros _ _. eauto.
  - induction IH as [|x r Hx _ IHr]; [discriminate|].
    intros Hn He. apply andb_true_iff in Hn. destruct Hn as [Hn1 Hn2].
    apply orb_true_iff in He. destruct He as [He|He].
    + destruct (Hx Hn1 He) as (c & es & ->).
      match goal with |- context [match ?g with _ => _ end] => destruct g end; cbn [app]; eauto.
    + destruct (IHr Hn2 He) as (c & es & ->). destruct (resolve x) as [[|a0 a]|]; cbn [app]; eauto.
Qed.

Example C02_example : resolve (TAll [TOk; TSeq [TPoisoned; TErr 500]; TErr 402]%N) = Some [402%N].
Proof. reflexivity. Qed.

(* ---- the typer's implicit steps (Model/Autoderef.v: value_type.rs coercion predicates, typer.rs
   Reference::autoderef with its three panics, the consumer generator.rs generate_autocoerce) ------------
   For every reference that fits its base type (what get_type_of_reference accepts), of at most
   MAX_REFERENCE_DEPTH steps, over types whose runs of & / view constructors are at most
   MAX_ADDRESS_DEPTH + 1 long: the loop never reaches its panic, never meets an unreachable!() on a
   member, the budget MAX_NUM_AUTODEREF_STEPS (Gen/Limits.v) is never exhausted (no step is dropped),
   and the ONLY panic left is the listed finding D11 - exactly when the reference ends at a slice pointer
   `&[]T` that is used as it stands or behind one `&` for another target. *)
Theorem C02_autoderef_loop_total : forall mt known steps,
  Autoderef.fits mt known steps = true ->
  AutoderefProofs.steps_within steps ->
  AutoderefProofs.types_within mt known ->
  exists taken ct,
    Autoderef.autoderef_loop mt Autoderef.max_num_autoderef_steps known steps = Autoderef.LoopDone taken ct [] /\
    Autoderef.walk mt known steps = Autoderef.LoopDone taken ct [] /\
    Autoderef.ref_final mt (Autoderef.fully_dereferenced known) steps = Some (Autoderef.fully_dereferenced ct).
Proof. exact AutoderefProofs.loop_total. Qed.

Theorem C02_autoderef_panics_only_as_D11 : forall mt known target steps ad,
  Autoderef.fits mt known steps = true ->
  AutoderefProofs.steps_within steps ->
  AutoderefProofs.types_within mt known ->
  forall s,
    Autoderef.autoderef mt known target steps ad = Autoderef.ADPanic s <->
    s = 3%N /\ AutoderefProofs.autoderef_panics mt known target steps ad = true.
Proof. exact AutoderefProofs.autoderef_no_solution_iff. Qed.

Theorem C02_D11_is_a_slice_pointer : forall mt known target steps ad,
  AutoderefProofs.autoderef_panics mt known target steps ad = true ->
  exists e, AutoderefProofs.final_type mt known steps = Some (TypeLegal.VSlicePointer e) /\ (ad = 0 \/ ad = 1)%N.
Proof. exact AutoderefProofs.autoderef_no_solution_shape. Qed.

(* the class is inhabited: the repository's own sample (use_slice(data) with data: &[]i32) *)
Theorem C02_D11_witness :
  Autoderef.analyze_deref AutoderefProofs.no_members (TypeLegal.VSlicePointer (TypeLegal.VPrim TypeLegal.KInt32)) [] 0
    (Some (TypeLegal.VSlice (TypeLegal.VPrim TypeLegal.KInt32))) = Some (Autoderef.ADPanic 3).
Proof. exact AutoderefProofs.d11_use_slice. Qed.

(* typer and generator agree: every coercion the typer's autoderef (or its argument wrapper, around a
   dereference) asks for is one generate_autocoerce implements - none of its unimplemented!() /
   unreachable!() arms can be reached from there *)
Theorem C02_autoderef_coercions_are_implemented : forall mt env known target steps ad tk ta dt c,
  Autoderef.autoderef mt known target steps ad = Autoderef.ADOk tk ta dt (Some c) ->
  Autoderef.arm_ok (Autoderef.autocoerce_arm (Autoderef.EDeref ta (Autoderef.resolve_vt env dt)) (Autoderef.resolve_vt env c)) = true.
Proof. exact AutoderefProofs.autoderef_coercion_ok. Qed.

Theorem C02_argument_coercions_are_implemented : forall env b vt0 pt c,
  Autoderef.argument_coercion vt0 pt = Some c ->
  AutoderefProofs.arm_simple (Autoderef.autocoerce_arm (Autoderef.EDeref b (Autoderef.resolve_vt env vt0)) (Autoderef.resolve_vt env c)) = true.
Proof. exact AutoderefProofs.argument_coercion_of_deref_implemented. Qed.

(* The assignment side (analyze_assignment_steps, Model/AssignSteps.v) under the same hypothesis `fits`: it panics
   EXACTLY when an element step meets more than MAX_ADDRESS_DEPTH (127) pointer/view layers - the read side strips
   128 (listed finding D86: `fn f(x: &^128 [4]i32) { x[0] = 1; }`) - and never on a member. *)
Theorem C02_assignment_steps_panic_only_beyond_127_pointers : forall mt known steps ad s,
  Autoderef.fits mt known steps = true ->
  (AssignSteps.assignment_steps mt known steps ad = AssignSteps.APanic s <->
   s = 1%N /\ AssignSteps.element_run_too_long mt AssignSteps.max_address_depth_nat known steps = true).
Proof. exact AssignStepsProofs.assignment_steps_panic_iff. Qed.

Theorem C02_assignment_steps_never_panic_within_limits : forall mt known steps ad,
  Autoderef.fits mt known steps = true ->
  AssignStepsProofs.types_within_assign mt known ->
  exists taken rd, AssignSteps.assignment_steps mt known steps ad = AssignSteps.AOk taken rd.
Proof. exact AssignStepsProofs.assignment_steps_never_panics. Qed.

Print Assumptions C02_resolve_ok_iff.
Print Assumptions C02_silent_failure_needs_poison.
Print Assumptions C02_errors_reported_when_collected.
Print Assumptions C02_autoderef_loop_total.
Print Assumptions C02_autoderef_panics_only_as_D11.
Print Assumptions C02_D11_is_a_slice_pointer.
Print Assumptions C02_D11_witness.
Print Assumptions C02_autoderef_coercions_are_implemented.
Print Assumptions C02_argument_coercions_are_implemented.
Print Assumptions C02_assignment_steps_panic_only_beyond_127_pointers.
Print Assumptions C02_assignment_steps_never_panic_within_limits.
