(* C18 — the command line tool reports outcomes faithfully (decision model;
   the weight of this property is in the correspondence with the real binary). *)
From PV Require Import Base.Common Model.Cli.

(* flag, else environment, else config file, else default *)
Theorem C18_backend_precedence : forall flag env config default,
  get_backend flag env config default =
  match flag, env, config with
  | Some b, _, _ => b
  | None, Some b, _ => b
  | None, None, Some b => b
  | None, None, None => default
  end.
Proof. intros [f|] [e|] [c|] d; reflexivity. Qed.

(* exit status 0 exactly when compilation and the invoked backend succeeded *)
Theorem C18_exit_zero_iff_success : forall s ok b,
  tool_succeeds s ok b = true <->
  ok = true /\
  match s with
  | Emit => True
  | Run => exists c, b = Spawned (Some c)
  | Build => b = Spawned (Some 0%N)
  end.
Proof.
  intros s ok b. unfold tool_succeeds. destruct ok; cbn [negb].
  - destruct s.
    + destruct b as [[c|]|]; cbn.
      * rewrite N.eqb_eq. split; [intros ->; auto | intros [_ H]; now injection H].
      * split; [discriminate | intros [_ H]; discriminate H].
      * split; [discriminate | intros [_ H]; discriminate H].
    + destruct b as [[c|]|]; cbn.
      * split; eauto.
      * split; [discriminate | intros [_ [c H]]; discriminate H].
      * split; [discriminate | intros [_ [c H]]; discriminate H].
    + tauto.
  - split; [discriminate | intros [H _]; discriminate H].
Qed.

Theorem C18_failed_compilation_never_runs_backend : forall s, invokes_backend s false = false.
Proof. reflexivity. Qed.

Theorem C18_emit_writes_one_ll_per_module : forall n, ll_files_written true n = n /\ ll_files_written false n = 0.
Proof. intros; split; reflexivity. Qed.

Print Assumptions C18_backend_precedence.
Print Assumptions C18_exit_zero_iff_success.
