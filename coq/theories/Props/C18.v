(* C18 — the command line tool reports outcomes faithfully (decision model;
   the weight of this property is in the correspondence with the real binary). *)
From PV Require Import Base.Common Model.Cli.
From PV Require Model.OutPath Proofs.OutPathProofs.

(* flag, else environment, else config file, else default *)
Theorem C18_backend_precedence : forall flag env config default,
  get_backend flag env config default =
  match flag, env, config with
  | Some b, _, _ => b
  | None, Some b, _ => b
  | None, None, Some b => b
  | None, None, None => default
  end.
Proof. intros [f|] [e|] [c|] d; reflexivity. Qed.

(* exit status 0 exactly when compilation and the invoked backend succeeded *)
Theorem C18_exit_zero_iff_success : forall s ok b,
  tool_succeeds s ok b = true <->
  ok = true /\
  match s with
  | Emit => True
  | Run => exists c, b = Spawned (Some c)
  | Build => b = Spawned (Some 0%N)
  end.
Proof.
  intros s ok b. unfold tool_succeeds. destruct ok; cbn [negb].
  - destruct s.
    + destruct b as [[c|]|]; cbn.
      * rewrite N.eqb_eq. split; [intros ->; auto | intros [_ H]; now injection H].
      * split; [discriminate | intros [_ H]; discriminate H].
      * split; [discriminate | intros [_ H]; discriminate H].
    + destruct b as [[c|]|]; cbn.
      * split; eauto.
      * split; [discriminate | intros [_ [c H]]; discriminate H].
      * split; [discriminate | intros [_ [c H]]; discriminate H].
    + tauto.
  - split; [discriminate | intros [H _]; discriminate H].
Qed.

Theorem C18_failed_compilation_never_runs_backend : forall s, invokes_backend s false = false.
Proof. reflexivity. Qed.

Theorem C18_emit_writes_one_ll_per_module : forall n, ll_files_written true n = n /\ ll_files_written false n = 0.
Proof. intros; split; reflexivity. Qed.

(* "--out-dir D leaves a .pn.ll file with the module's IR for every module": where the file of a
   module goes (Model/OutPath.v: the components of the module path other than its root are pushed,
   then set_extension("pn.ll")).  For every module whose file is named `<x>.pn`, in any
   sub-directory, given by a relative or an absolute path (D17, repaired): the file is
   D/<the module's directories>/<x>.pn.ll, and distinct modules get distinct files (two paths that
   differ only in being absolute or not are told apart by nothing else: the hypothesis of the
   second theorem, shown necessary by OutPathProofs.root_only_difference_collides). *)
Theorem C18_ll_file_under_out_dir : forall d m,
  OutPath.is_pn_module m = true ->
  exists dirs file,
    OutPath.comps m = dirs ++ [file] /\
    OutPath.absolute (OutPath.ll_path d m) = OutPath.absolute d /\
    OutPath.comps (OutPath.ll_path d m) = OutPath.comps d ++ dirs ++ [file ++ [46; 108; 108]%N].
Proof. exact OutPathProofs.ll_path_under_out_dir. Qed.

Theorem C18_ll_files_distinct : forall d m1 m2,
  OutPath.is_pn_module m1 = true -> OutPath.is_pn_module m2 = true ->
  OutPath.absolute m1 = OutPath.absolute m2 ->
  OutPath.ll_path d m1 = OutPath.ll_path d m2 -> m1 = m2.
Proof. exact OutPathProofs.ll_path_injective. Qed.

(* At the pinned commit (PathBuf::push) an absolute module path replaced D (D17, repaired); names
   that differ only in the extension still collide (D57, listed). *)
Theorem C18_absolute_module_path_pinned_refuted :
  exists d m, OutPath.absolute m = true /\ OutPath.comps (OutPath.ll_path_pinned d m) = OutPath.set_ext_comps (OutPath.comps m) /\
              ~ (exists rest, OutPath.comps (OutPath.ll_path_pinned d m) = OutPath.comps d ++ rest).
Proof. exact OutPathProofs.absolute_module_escapes_pinned_refuted. Qed.

Theorem C18_same_stem_refuted :
  exists d m1 m2, OutPath.absolute m1 = false /\ OutPath.absolute m2 = false /\ m1 <> m2 /\
                  OutPath.ll_path d m1 = OutPath.ll_path d m2.
Proof. exact OutPathProofs.same_stem_collides_refuted. Qed.

Print Assumptions C18_backend_precedence.
Print Assumptions C18_exit_zero_iff_success.
Print Assumptions C18_ll_file_under_out_dir.
Print Assumptions C18_ll_files_distinct.
Print Assumptions C18_absolute_module_path_pinned_refuted.
Print Assumptions C18_same_stem_refuted.
