(* C04 — goto only ever jumps forward and outward.
   Model: Model/LabelScope.v (src/alpha/scoper/label_references.rs).
   This file contains only statements, each closed by [exact], their pins and
   assumption reports. *)
From PV Require Import Base.Common Model.LabelScope Proofs.LabelScopeProofs.

(* The analyzer's diagnostics (kind, number and order) are those of the forward
   specification "visible = later in the same block or later in an enclosing
   block", for every function body: no bound on size, depth or names. *)
Theorem C04_scan_eq_spec : forall body, scan_body body = spec_body body.
Proof. exact scan_body_eq_spec. Qed.

(* Nothing leaks from one function to the next. *)
Theorem C04_program : forall bodies, scan_program bodies [] = spec_program bodies.
Proof. exact scan_program_eq_spec. Qed.

(* Acceptance iff every goto targets a later label of the same/enclosing block
   and no label's name is visible at its position. *)
Theorem C04_accept_iff : forall body, scan_body body = [] <-> legal_list body [].
Proof. exact accept_iff_legal. Qed.

Theorem C04_only_E400_E420 : forall s V c, In c (spec_stmt s V) -> c = E400 \/ c = E420.
Proof. exact spec_codes_are_E400_E420. Qed.

Theorem C04_backward_jump_rejected : forall pre mid post l,
  ~ In l (later post) ->
  In E400 (spec_body (pre ++ [SLabel l] ++ mid ++ [SGoto l] ++ post)).
Proof. exact backward_jump_rejected. Qed.

Theorem C04_inward_jump_rejected : forall pre inner post l,
  ~ In l (later post) ->
  In E400 (spec_body (pre ++ [SGoto l] ++ [SBlock inner] ++ post)).
Proof. exact inward_jump_rejected. Qed.

Theorem C04_forward_jump_accepted : forall mid post l,
  ~ In l (later mid) -> ~ In l (later post) ->
  (forall s, In s mid -> s = SOther) -> (forall s, In s post -> s = SOther) ->
  spec_body ([SGoto l] ++ mid ++ [SLabel l] ++ post) = [].
Proof. exact forward_jump_accepted. Qed.

(* Non-vacuity: a body with an outward jump, an inward jump and a clash. *)
Example C04_example :
  scan_body [SBlock [SGoto 1; SLabel 2]; SGoto 2; SBlock [SLabel 1]; SLabel 1]%N
  = [E400; E420].
Proof. vm_compute. reflexivity. Qed.

Print Assumptions C04_scan_eq_spec.
Print Assumptions C04_program.
Print Assumptions C04_accept_iff.
Print Assumptions C04_only_E400_E420.
Print Assumptions C04_backward_jump_rejected.
Print Assumptions C04_inward_jump_rejected.
Print Assumptions C04_forward_jump_accepted.
