(* C09 — literals mean exactly what they say (proved part: integer literals from
   token to bit pattern, and the truncation lint).  Model: Model/Literal.v; the
   range tables and the generator's case-split constants are regenerated from
   value_type.rs / generator.rs on every run.  Lexing of the spellings themselves
   is covered by the lexer models (C14). *)
From Coq Require Import ZArith Bool.
From PV Require Import Base.Common Base.IR Base.Bits Model.Literal Proofs.LiteralProofs.
From PV Require Model.LintWalk Proofs.LintWalkProofs.
Open Scope Z_scope.

(* Every integer literal (optional minus, magnitude < 2^128, any token kind),
   at every integer type, on both targets, is materialised as exactly its
   mathematical value modulo 2^width — provided the generator does not mask
   usize literals (the translator reads the mask from the code). *)
Theorem C09_bits_of_correct : forall usize_bits neg tok t,
  usize_bits = 32 \/ usize_bits = 64 -> bit_lit_usize_mask = None ->
  0 <= magnitude tok < 2 ^ 128 -> vt_is_integral t = true ->
  bits_of usize_bits (fst (source_literal true neg tok)) t
  = repr (vt_bits usize_bits t) (math_value neg tok).
Proof. exact bits_of_correct. Qed.

(* the side condition holds for the current tree *)
Theorem C09_no_usize_mask : bit_lit_usize_mask = None /\ bit_lit_pointer_mask = None.
Proof. split; reflexivity. Qed.

(* The truncation lint L1142 is raised iff the value is outside the range of its
   type.  (Until D22 was repaired there was one class of false positives - a negated
   bit-integer literal of magnitude exactly max+1, `-0x80` as i8 - kept below as
   C09_pinned_false_positive_refuted.) *)
Theorem C09_lint_characterisation : forall neg tok t,
  0 <= magnitude tok < 2 ^ 128 -> vt_is_integral t = true ->
  let l := fst (source_literal true neg tok) in
  admissible l t ->
  (lint l t = true <-> ~ (vt_min t <= math_value neg tok <= vt_max t)).
Proof. exact lint_characterisation. Qed.

(* Hence: no lint => the literal has exactly its mathematical value. *)
Theorem C09_no_lint_in_range : forall neg tok t,
  0 <= magnitude tok < 2 ^ 128 -> vt_is_integral t = true ->
  admissible (fst (source_literal true neg tok)) t ->
  lint (fst (source_literal true neg tok)) t = false ->
  vt_min t <= math_value neg tok <= vt_max t.
Proof. exact no_lint_in_range. Qed.

(* The same on either target (usize_bits = 32 for WebAssembly, 64 for the host): the lint is raised
   iff the value is outside the range the type has ON THAT TARGET (lint_max: 2^32-1 for usize under
   --wasm; D54, repaired), and a literal that raises none lies in that range. *)
Theorem C09_lint_characterisation_on_target : forall ub neg tok t,
  ub = 32 \/ ub = 64 ->
  0 <= magnitude tok < 2 ^ 128 -> vt_is_integral t = true ->
  let l := fst (source_literal true neg tok) in
  admissible l t ->
  (lint_on ub l t = true <-> ~ (vt_min t <= math_value neg tok <= lint_max ub t)).
Proof. exact lint_on_characterisation. Qed.

Theorem C09_no_lint_in_target_range : forall ub neg tok t,
  ub = 32 \/ ub = 64 ->
  0 <= magnitude tok < 2 ^ 128 -> vt_is_integral t = true ->
  admissible (fst (source_literal true neg tok)) t ->
  lint_on ub (fst (source_literal true neg tok)) t = false ->
  vt_min t <= math_value neg tok <= lint_max ub t.
Proof. exact no_lint_in_range_on. Qed.

(* lint_max is the largest value of the width the generator gives the type on that target *)
Theorem C09_lint_range_is_generated_width : forall ub t,
  ub = 32 \/ ub = 64 -> vt_is_integral t = true -> vt_is_signed t = false ->
  lint_max ub t = 2 ^ vt_bits ub t - 1.
Proof. exact lint_max_is_target_range. Qed.

(* the pinned commit applied the 64-bit range on the 32-bit target *)
Theorem C09_pinned_wasm_usize_refuted :
  lint_on 64 (fst (source_literal true false (TNaked (2 ^ 32)))) Usize = false /\
  ~ (math_value false (TNaked (2 ^ 32)) <= 2 ^ vt_bits 32 Usize - 1) /\
  lint_on 32 (fst (source_literal true false (TNaked (2 ^ 32)))) Usize = true.
Proof. exact lint_wasm_usize_pinned_refuted. Qed.

Theorem C09_pinned_i128_min_refuted :
  lint_pinned (fst (source_literal false true (TNaked (2 ^ 127)))) Int128 = true /\
  vt_min Int128 <= math_value true (TNaked (2 ^ 127)) <= vt_max Int128.
Proof. exact lint_i128_min_refuted. Qed.

Theorem C09_pinned_false_positive_refuted :
  lint_pinned (fst (source_literal true true (TBits 128))) Int8 = true /\
  lint (fst (source_literal true true (TBits 128))) Int8 = false /\
  vt_min Int8 <= math_value true (TBits 128) <= vt_max Int8.
Proof. exact lint_negated_bits_false_positive. Qed.

Theorem C09_pinned_usize_mask_refuted :
  repr 64 (repr 64 (masked (Some 4294967295) 4294967296)) <> repr 64 4294967296.
Proof. exact materialise_bit_masked_refuted. Qed.

(* "... a value outside the range of its type ALWAYS raises L1142": the range test above is
   applied to every literal.  Model/LintWalk.v follows linter.rs arm by arm over the common
   AST; the specification [occs_decl] is the plain structural list of the integer literals of
   a declaration, in source order (constant values, initialisers, assigned values, both sides
   of conditions, call and builtin arguments, array elements, structure-literal members,
   operands, under unary operators / parentheses / casts, indices - also on the left of an
   assignment -, return values).  The linter looks at each of them exactly once, in that
   order, with its own value and type (and the kind KNegBit exactly when it is a typed bit literal
   standing directly under a negation, where the linter applies the test of the Unary arm). *)
Theorem C09_linter_reaches_every_literal :
  forall d, LintWalk.lint_visits d = LintWalk.occs_decl d.
Proof. exact LintWalkProofs.lint_visits_are_occurrences. Qed.

(* Whatever the range test [oor] is: every typed literal that fails it is reported, and
   nothing else is. *)
Theorem C09_out_of_range_literal_always_linted : forall oor d o t,
  In o (LintWalk.occs_decl d) -> LintWalk.oc_ty o = Some t ->
  oor (LintWalk.oc_kind o) (LintWalk.oc_val o) t = true ->
  In (LintWalk.oc_pos o) (LintWalk.l1142 oor d).
Proof. exact LintWalkProofs.l1142_always. Qed.

Theorem C09_lint_only_for_out_of_range_literals : forall oor d p,
  In p (LintWalk.l1142 oor d) ->
  exists o t, In o (LintWalk.occs_decl d) /\ LintWalk.oc_pos o = p /\ LintWalk.oc_ty o = Some t /\
              oor (LintWalk.oc_kind o) (LintWalk.oc_val o) t = true.
Proof. exact LintWalkProofs.l1142_never. Qed.

(* The range tests the linter applies ([LintWalk.range_test], over a table (signed?, min, max) of
   the opaque type tags).  A bit literal that is directly the operand of a negation (kind KNegBit)
   denotes the negated magnitude; at a signed type it is tested with `max + 1 < magnitude`, so it
   is flagged iff the value it denotes is below the minimum: -0x80 as i8 is not flagged (the repair of
   the false positive at magnitude max+1).  At an unsigned type, and for every other literal, the
   test is the one from before the repair. *)
Theorem C09_negated_bit_literal_linted_iff_below_min : forall tbl t sg mn mx,
  tbl t = Some (sg, mn, mx) -> forall v, sg = true -> mn = - mx - 1 ->
  (LintWalk.range_test tbl LintWalk.KNegBit v t = true <-> - v < mn).
Proof. exact LintWalkProofs.range_test_negbit_signed. Qed.

Theorem C09_negated_bit_literal_in_range_not_linted : forall tbl t sg mn mx,
  tbl t = Some (sg, mn, mx) -> forall v, sg = true -> mn = - mx - 1 -> mn <= - v ->
  LintWalk.range_test tbl LintWalk.KNegBit v t = false.
Proof. exact LintWalkProofs.negated_bit_literal_in_range_not_flagged. Qed.

Theorem C09_other_literals_tested_as_before : forall tbl k v t,
  k <> LintWalk.KNegBit -> LintWalk.range_test tbl k v t = LintWalk.range_test_oldneg tbl k v t.
Proof. exact LintWalkProofs.range_test_plain_kinds. Qed.

(* Over a table of integer ranges (two's complement or unsigned), with bit literals being
   magnitudes: every L1142 is at a literal whose denoted value is outside the range of its type
   ("in-range values never raise L1142"), and every such literal is reported - except a negated
   bit literal at an UNSIGNED type whose magnitude fits, which is not (refuted below). *)
Theorem C09_lint_only_for_values_out_of_range : forall tbl d p,
  LintWalkProofs.tbl_wf tbl -> LintWalkProofs.magnitudes_ok d ->
  In p (LintWalk.l1142 (LintWalk.range_test tbl) d) ->
  exists o t sg mn mx,
    In o (LintWalk.occs_decl d) /\ LintWalk.oc_pos o = p /\ LintWalk.oc_ty o = Some t /\
    tbl t = Some (sg, mn, mx) /\ ~ (mn <= LintWalkProofs.occ_value o <= mx).
Proof. exact LintWalkProofs.l1142_range_test_only_out_of_range. Qed.

Theorem C09_value_out_of_range_always_linted : forall tbl d o t sg mn mx,
  LintWalkProofs.tbl_wf tbl -> LintWalkProofs.magnitudes_ok d ->
  In o (LintWalk.occs_decl d) -> LintWalk.oc_ty o = Some t -> tbl t = Some (sg, mn, mx) ->
  (LintWalk.oc_kind o = LintWalk.KNegBit -> sg = true) ->
  ~ (mn <= LintWalkProofs.occ_value o <= mx) ->
  In (LintWalk.oc_pos o) (LintWalk.l1142 (LintWalk.range_test tbl) d).
Proof. exact LintWalkProofs.l1142_range_test_every_out_of_range. Qed.

(* the walk of before the repair (Unary arm only recursing) flagged `-0x80` as i8 *)
Theorem C09_pinned_negated_min_literal_refuted :
  exists d, LintWalk.l1142_of (LintWalk.range_test LintWalkProofs.toy_tbl) (LintWalk.lint_decl_oldneg d) = [1%N] /\
            LintWalk.l1142 (LintWalk.range_test_oldneg LintWalkProofs.toy_tbl) d = [1%N] /\
            LintWalk.l1142 (LintWalk.range_test LintWalkProofs.toy_tbl) d = [] /\
            LintWalk.occs_decl d = [LintWalk.MkOcc 1 LintWalk.KNegBit 128 (Some LintWalkProofs.i8)] /\
            LintWalkProofs.toy_tbl LintWalkProofs.i8 = Some (true, -128, 127).
Proof. exact LintWalkProofs.negated_min_literal_pinned_refuted. Qed.

(* One linter is shared by the declarations of a module; its state is back to the default after
   every declaration, so no declaration influences the lints of the next. *)
Theorem C09_lints_are_per_declaration :
  forall ds, LintWalk.lint_module ds = flat_map LintWalk.lint_decl ds.
Proof. exact LintWalkProofs.lint_module_is_per_declaration. Qed.

(* The pinned commit's traversal skipped return values and if-conditions (D42, repaired); a
   traversal that does not enter parentheses (a seeded change) misses `(300)`. *)
Theorem C09_pinned_linter_skips_return_value_refuted :
  exists d, LintWalk.literals_of_decl d <> [] /\ LintWalk.events_of (LintWalk.lint_decl_pinned d) = []
            /\ LintWalk.lint_positions d = [1%N].
Proof. exact LintWalkProofs.pinned_traversal_refuted_return. Qed.

Theorem C09_pinned_linter_skips_condition_refuted :
  exists d, LintWalk.literals_of_decl d <> [] /\ LintWalk.events_of (LintWalk.lint_decl_pinned d) = []
            /\ LintWalk.lint_positions d = [1%N].
Proof. exact LintWalkProofs.pinned_traversal_refuted_condition. Qed.

Theorem C09_linter_without_parentheses_refuted :
  exists d, LintWalk.literals_of_decl d <> [] /\ LintWalk.events_of (LintWalk.lint_decl_noparen d) = []
            /\ LintWalk.lint_positions d = [1%N].
Proof. exact LintWalkProofs.noparen_traversal_refuted. Qed.

Print Assumptions C09_bits_of_correct.
Print Assumptions C09_lint_characterisation.
Print Assumptions C09_no_lint_in_range.
Print Assumptions C09_linter_reaches_every_literal.
Print Assumptions C09_out_of_range_literal_always_linted.
Print Assumptions C09_lint_only_for_out_of_range_literals.
Print Assumptions C09_lints_are_per_declaration.
Print Assumptions C09_pinned_linter_skips_return_value_refuted.
Print Assumptions C09_pinned_linter_skips_condition_refuted.
Print Assumptions C09_linter_without_parentheses_refuted.
Print Assumptions C09_lint_characterisation_on_target.
Print Assumptions C09_no_lint_in_target_range.
Print Assumptions C09_pinned_wasm_usize_refuted.
Print Assumptions C09_negated_bit_literal_linted_iff_below_min.
Print Assumptions C09_negated_bit_literal_in_range_not_linted.
Print Assumptions C09_other_literals_tested_as_before.
Print Assumptions C09_lint_only_for_values_out_of_range.
Print Assumptions C09_value_out_of_range_always_linted.
Print Assumptions C09_pinned_negated_min_literal_refuted.
