(* C06 — loop and if-branches only appear where the language allows them.
   Model: Model/Syntax.v (src/alpha/analyzer/syntax.rs, src/alpha/linter.rs). *)
From PV Require Import Base.Common Model.Syntax Proofs.SyntaxProofs.

(* For every function body (any size, any nesting) the analyzer of the current
   tree emits exactly the codes of the structural specification:
   loop only as last statement of a braced block (E800 elsewhere in a block, E801
   directly in a function body or anywhere else), a then-branch is a goto or a
   block, an else-branch a goto, a block or an if (E840 otherwise). *)
Theorem C06_syntax_codes_eq_spec : forall body, body_codes true body = spec_body body.
Proof. exact syntax_codes_eq_spec. Qed.

(* L1800 exactly once for every braced branch whose first statement is `loop`. *)
Theorem C06_lint_iff_first_loop_of_branch : forall body, lint_body body = lint_spec_body body.
Proof. exact lint_iff_first_loop_of_branch. Qed.

(* The analyzer of the pinned commit did not satisfy the specification (D1). *)
Theorem C06_pinned_commit_refuted : body_codes false d1 = [] /\ spec_body d1 = [E840].
Proof. exact syntax_unfixed_refuted. Qed.

Check C06_syntax_codes_eq_spec : forall body, body_codes true body = spec_body body.
Check C06_lint_iff_first_loop_of_branch : forall body, lint_body body = lint_spec_body body.

(* Non-vacuity. *)
Example C06_example_codes :
  body_codes true [SLoop; SBlock [SLoop; SSimple; SLoop]; SIf SSimple (Some (SIf SGoto (Some SLoop)))]
  = [E801; E800; E840; E840].
Proof. vm_compute. reflexivity. Qed.
Example C06_example_lint :
  lint_body [SIf (SBlock [SLoop]) (Some (SIf (SBlock [SSimple; SLoop]) (Some (SBlock [SLoop]))))]
  = [L1800; L1800].
Proof. vm_compute. reflexivity. Qed.

Print Assumptions C06_syntax_codes_eq_spec.
Print Assumptions C06_lint_iff_first_loop_of_branch.
Print Assumptions C06_pinned_commit_refuted.
