(* Model of src/alpha/scoper/label_references.rs (property C04).

   Executable definitions only.  [scan_*] follows the code: the statements of a
   function body or block are visited in REVERSE order with a stack of label
   frames (Vec<Vec<Identifier>>, outermost first); [declare_label] searches every
   frame and pushes onto the last one; [use_label] searches every frame.
   Diagnostics are returned in SOURCE order (the order in which the resolver later
   collects the poisoned statements). *)
From PV Require Import Base.Common.

Inductive stmt : Type :=
| SLabel (l : name)
| SGoto (l : name)
| SIf (t : stmt) (e : option stmt)
| SBlock (b : list stmt)
| SOther.

Definition E400 : code := 400%N.
Definition E420 : code := 420%N.

Definition stack := list (list name).

Definition in_stack (l : name) (st : stack) : bool := existsb (mem_name l) st.

Fixpoint push_last (l : name) (st : stack) : stack :=
  match st with
  | [] => [[l]]
  | [f] => [f ++ [l]]
  | f :: rest => f :: push_last l rest
  end.

Definition declare_label (l : name) (st : stack) : stack * list code :=
  (push_last l st, if in_stack l st then [E420] else []).

Definition use_label (l : name) (st : stack) : list code :=
  if in_stack l st then [] else [E400].

Fixpoint scan_stmt (s : stmt) (st : stack) {struct s} : stack * list code :=
  match s with
  | SLabel l => declare_label l st
  | SGoto l => (st, use_label l st)
  | SIf t e =>
      let '(st1, c1) := scan_stmt t st in
      match e with
      | Some e' => let '(st2, c2) := scan_stmt e' st1 in (st2, c1 ++ c2)
      | None => (st1, c1)
      end
  | SBlock b =>
      let fix scan_rev (ss : list stmt) (st : stack) : stack * list code :=
        match ss with
        | [] => (st, [])
        | s :: rest =>
            let '(st1, c1) := scan_rev rest st in
            let '(st2, c2) := scan_stmt s st1 in
            (st2, c2 ++ c1)
        end in
      let '(st1, c) := scan_rev b (st ++ [[]]) in
      (removelast st1, c)
  | SOther => (st, [])
  end.

Fixpoint scan_rev (ss : list stmt) (st : stack) : stack * list code :=
  match ss with
  | [] => (st, [])
  | s :: rest =>
      let '(st1, c1) := scan_rev rest st in
      let '(st2, c2) := scan_stmt s st1 in
      (st2, c2 ++ c1)
  end.

(* impl Analyzable for FunctionBody: push_scope; reverse scan; pop_scope.
   The stack is empty between functions. *)
Definition scan_body (body : list stmt) : list code :=
  snd (scan_rev body [[]]).

(* A program is a list of function bodies scanned with one analyzer. *)
Fixpoint scan_program (bodies : list (list stmt)) (st : stack) : list code :=
  match bodies with
  | [] => []
  | b :: rest =>
      let '(st1, c) := scan_rev b (st ++ [[]]) in
      c ++ scan_program rest (removelast st1)
  end.

(* ---- Specification ------------------------------------------------------- *)

(* The labels a statement contributes to its own block: a label statement, or
   a label that is (illegally, E840) the naked branch of an `if`. *)
Fixpoint labels_of (s : stmt) : list name :=
  match s with
  | SLabel l => [l]
  | SIf t e => (match e with Some e' => labels_of e' | None => [] end) ++ labels_of t
  | _ => []
  end.

Definition later (ss : list stmt) : list name := flat_map labels_of ss.

(* [V] = labels that appear later in the same block or later in an enclosing
   block.  A goto is legal iff its label is in V; a label is legal iff its name is
   not in V. *)
Fixpoint spec_stmt (s : stmt) (V : list name) {struct s} : list code :=
  match s with
  | SLabel l => if mem_name l V then [E420] else []
  | SGoto l => if mem_name l V then [] else [E400]
  | SIf t e =>
      spec_stmt t V ++
      match e with Some e' => spec_stmt e' (labels_of t ++ V) | None => [] end
  | SBlock b =>
      let fix spec_list (ss : list stmt) : list code :=
        match ss with
        | [] => []
        | s :: rest => spec_stmt s (later rest ++ V) ++ spec_list rest
        end in
      spec_list b
  | SOther => []
  end.

Fixpoint spec_list (ss : list stmt) (V : list name) : list code :=
  match ss with
  | [] => []
  | s :: rest => spec_stmt s (later rest ++ V) ++ spec_list rest V
  end.

Definition spec_body (body : list stmt) : list code := spec_list body [].
Definition spec_program (bodies : list (list stmt)) : list code :=
  flat_map spec_body bodies.
