(* Source-level semantics of Penne's integer operators, comparisons and casts
   (docs/features.md: fixed-width wrapping arithmetic, truncating division,
   remainder with the sign of the dividend, logical shifts on unsigned types,
   casts that preserve the value modulo the destination width), stated on
   mathematical integers.  None = undefined behaviour / not an integer operation.
   The instruction selection itself is NOT written here: it is Gen/LowerTables.v,
   regenerated from src/alpha/generator.rs on every run. *)
From Coq Require Import ZArith Bool.
From PV Require Import Base.Common Base.IR Base.Bits.
From PV Require Export Gen.LowerTables Gen.TypeTables Gen.ResolverTables.
Open Scope Z_scope.

Definition div_ub (signed : bool) (w x y : Z) : bool :=
  (y =? 0) || (signed && (x =? - 2 ^ (w - 1)) && (y =? -1)).

Definition src_binop (op : binop) (signed : bool) (w x y : Z) : option Z :=
  match op with
  | Add => Some (wrap signed w (x + y))
  | Subtract => Some (wrap signed w (x - y))
  | Multiply => Some (wrap signed w (x * y))
  | Divide => if div_ub signed w x y then None else Some (Z.quot x y)
  | Modulo => if div_ub signed w x y then None else Some (Z.rem x y)
  | BitwiseAnd => Some (Z.land x y)
  | BitwiseOr => Some (Z.lor x y)
  | BitwiseXor => Some (Z.lxor x y)
  | ShiftLeft => if y <? w then Some ((x * 2 ^ y) mod 2 ^ w) else None
  | ShiftRight => if y <? w then Some (x / 2 ^ y) else None
  | AdvancePointer => None
  end.

Definition src_unop (op : unop) (signed : bool) (w x : Z) : option Z :=
  match op with
  | Negative => Some (wrap signed w (- x))
  | BitwiseComplement => Some (2 ^ w - 1 - x)       (* every bit flipped *)
  end.

Definition src_cmp (op : cmpop) (x y : Z) : bool :=
  match op with
  | Equals => x =? y
  | DoesNotEqual => negb (x =? y)
  | IsGreater => x >? y
  | IsGE => x >=? y
  | IsLess => x <? y
  | IsLE => x <=? y
  end.

(* `x as T`: the value modulo 2^width(T), read in T's signedness *)
Definition src_cast (d_signed : bool) (wd x : Z) : Z := wrap d_signed wd x.

Section Width.
Variable usize_bits : Z.
Definition bits (t : prim) : Z := vt_bits usize_bits t.
Definition signed (t : prim) : bool := vt_is_signed t.
Definition type_range (t : prim) (x : Z) : Prop := in_range (signed t) (bits t) x.
End Width.
