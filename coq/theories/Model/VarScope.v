(* Model of src/alpha/scoper/variable_references.rs for function bodies
   (property C05): scope stack with resolution ids, goto/label pruning.
   Input: the function bodies *after* label scoping (every goto/label carries the
   resolution id the label scoper gave it; poisoned ones are SNop).
   Executable definitions only. *)
From PV Require Import Base.Common.

Definition id := N.

Inductive stmt : Type :=
| SDecl (v : name) (uses : list name)      (* value analysed first, then declared *)
| SUse (uses : list name)                  (* assignment, call: uses in order *)
| SGoto (l : id)
| SLabel (l : id)
| SIf (uses : list name) (t : stmt) (e : option stmt)
| SBlock (b : list stmt)
| SNop.

Definition E402 : code := 402%N.
Definition E422 : code := 422%N.
Definition E424 : code := 424%N.
Definition E482 : code := 482%N.

Definition mem_id (i : id) (l : list id) : bool := existsb (N.eqb i) l.
Definition remove_id (i : id) (l : list id) : list id := filter (fun j => negb (N.eqb i j)) l.

Record state := {
  stack : list (list (name * id));          (* outermost first *)
  next : id;
  unres : list (id * list id);              (* label -> intersection of ids in scope *)
  pruned : list id;
  poisoned : list id }.

Definition with_stack st s := {| stack := s; next := next st; unres := unres st; pruned := pruned st; poisoned := poisoned st |}.

Definition find_name (x : name) (st : list (list (name * id))) : option id :=
  match find (fun b => N.eqb (fst b) x) (concat st) with
  | Some b => Some (snd b)
  | None => None
  end.

Fixpoint push_last {A} (x : A) (st : list (list A)) : list (list A) :=
  match st with
  | [] => [[x]]
  | [f] => [f ++ [x]]
  | f :: rest => f :: push_last x rest
  end.

(* declare_variable: duplicate iff the name is anywhere on the stack; the
   identifier is pushed (with a fresh id) even when it is a duplicate. *)
Definition declare (x : name) (st : state) : state * bool :=
  let dup := match find_name x (stack st) with Some _ => true | None => false end in
  ({| stack := push_last (x, next st) (stack st); next := N.succ (next st);
      unres := unres st; pruned := pruned st; poisoned := poisoned st |}, dup).

(* use_variable *)
Definition use (x : name) (st : state) : state * list code :=
  match find_name x (stack st) with
  | None => (st, [E402])
  | Some i =>
      if mem_id i (pruned st) then
        ({| stack := stack st; next := next st; unres := unres st;
            pruned := remove_id i (pruned st); poisoned := i :: poisoned st |}, [E482])
      else (st, [])
  end.

Fixpoint uses (xs : list name) (st : state) : state * list code :=
  match xs with
  | [] => (st, [])
  | x :: r => let '(st, c) := use x st in let '(st, cr) := uses r st in (st, c ++ cr)
  end.

Definition in_scope (st : state) : list id := map snd (concat (stack st)).

Fixpoint update_unres (l : id) (scope : list id) (u : list (id * list id)) : list (id * list id) :=
  match u with
  | [] => [(l, scope)]
  | (l', s) :: r =>
      if N.eqb l l' then (l', filter (fun i => mem_id i scope) s) :: r
      else (l', s) :: update_unres l scope r
  end.

Definition at_goto (l : id) (st : state) : state :=
  {| stack := stack st; next := next st; unres := update_unres l (in_scope st) (unres st);
     pruned := pruned st; poisoned := poisoned st |}.

Fixpoint lookup_unres (l : id) (u : list (id * list id)) : option (list id) :=
  match u with
  | [] => None
  | (l', s) :: r => if N.eqb l l' then Some s else lookup_unres l r
  end.
Definition remove_unres (l : id) (u : list (id * list id)) := filter (fun e => negb (N.eqb l (fst e))) u.

Fixpoint add_pruned (ids : list id) (p : list id) : list id :=
  match ids with
  | [] => p
  | i :: r => add_pruned r (if mem_id i p then p else p ++ [i])
  end.

Definition at_label (l : id) (st : state) : state :=
  match lookup_unres l (unres st) with
  | None => st
  | Some inter =>
      let layer := match rev (stack st) with [] => [] | top :: _ => map snd top end in
      let to_prune := filter (fun i => negb (mem_id i inter)) layer in
      {| stack := stack st; next := next st; unres := remove_unres l (unres st);
         pruned := (match rev (stack st) with [] => pruned st | _ => add_pruned to_prune (pruned st) end);
         poisoned := poisoned st |}
  end.

Definition push_scope (st : state) := with_stack st (stack st ++ [[]]).
Definition pop_scope (st : state) := with_stack st (removelast (stack st)).

Fixpoint an_stmt (s : stmt) (st : state) {struct s} : state * list code :=
  match s with
  | SDecl v us =>
      let '(st, c) := uses us st in
      let '(st, dup) := declare v st in
      (st, if dup then [E422] else c)
  | SUse us => uses us st
  | SGoto l => (at_goto l st, [])
  | SLabel l => (at_label l st, [])
  | SIf us t e =>
      let '(st, c0) := uses us st in
      let '(st, c1) := an_stmt t st in
      match e with
      | Some e' => let '(st, c2) := an_stmt e' st in (st, c0 ++ c1 ++ c2)
      | None => (st, c0 ++ c1)
      end
  | SBlock b =>
      let fix an_list (ss : list stmt) (st : state) : state * list code :=
        match ss with
        | [] => (st, [])
        | s :: r => let '(st, c) := an_stmt s st in let '(st, cr) := an_list r st in (st, c ++ cr)
        end in
      let '(st, c) := an_list b (push_scope st) in
      (pop_scope st, c)
  | SNop => (st, [])
  end.

Fixpoint an_list (ss : list stmt) (st : state) : state * list code :=
  match ss with
  | [] => (st, [])
  | s :: r => let '(st, c) := an_stmt s st in let '(st, cr) := an_list r st in (st, c ++ cr)
  end.

Fixpoint declare_params (ps : list name) (st : state) : state * list code :=
  match ps with
  | [] => (st, [])
  | p :: r =>
      let '(st, dup) := declare p st in
      let '(st, cr) := declare_params r st in
      (st, (if dup then [E424] else []) ++ cr)
  end.

(* One function: push_scope; parameters; FunctionBody (push_scope; statements;
   return value; pop_scope); pop_scope. *)
Record func := { params : list name; body : list stmt; ret : list name }.

Definition an_func (f : func) (st : state) : state * list code :=
  let st := push_scope st in
  let '(st, c0) := declare_params (params f) st in
  let st := push_scope st in
  let '(st, c1) := an_list (body f) st in
  let '(st, c2) := uses (ret f) st in
  let st := pop_scope (pop_scope st) in
  (st, c0 ++ c1 ++ c2).

Fixpoint an_funcs (fs : list func) (st : state) : list code :=
  match fs with
  | [] => []
  | f :: r => let '(st, c) := an_func f st in c ++ an_funcs r st
  end.

(* Constants are predeclared into layer 0 (ids are fresh and irrelevant). *)
Fixpoint declare_consts (cs : list name) (st : state) : state :=
  match cs with
  | [] => st
  | c :: r => declare_consts r (fst (declare c st))
  end.

Definition init_state : state :=
  {| stack := [[]]; next := 1%N; unres := []; pruned := []; poisoned := [] |}.

Definition an_program (consts : list name) (fs : list func) : list code :=
  an_funcs fs (declare_consts consts init_state).

(* ---- Specification -----------------------------------------------------------
   Forward, structural, without ids-in-sets bookkeeping of gotos:
   environment = the bindings visible (as in the code, a name resolves to the
   outermost/earliest visible binding); each binding of the current block
   remembers which labels had been targeted by a goto before it was declared
   ("a jump to that label skips this declaration").  At a label L the bindings of
   the label's own block whose record contains L become "skipped"; a use of a
   skipped binding is E482 (and the report is not repeated until the binding is
   skipped again). *)
Record binding := { bname : name; bid : id; skippers : list id }.

Record sstate := {
  env : list (list binding);    (* outermost first *)
  snext : id;
  seen : list id;               (* labels for which a goto has been seen *)
  skipped : list id;            (* bindings currently skipped and not yet reported *)
}.

Definition sfind (x : name) (e : list (list binding)) : option binding :=
  find (fun b => N.eqb (bname b) x) (concat e).

Definition sdeclare (x : name) (st : sstate) : sstate * bool :=
  let dup := match sfind x (env st) with Some _ => true | None => false end in
  ({| env := push_last {| bname := x; bid := snext st; skippers := seen st |} (env st);
      snext := N.succ (snext st); seen := seen st; skipped := skipped st |}, dup).

Definition suse (x : name) (st : sstate) : sstate * list code :=
  match sfind x (env st) with
  | None => (st, [E402])
  | Some b =>
      if mem_id (bid b) (skipped st) then
        ({| env := env st; snext := snext st; seen := seen st;
            skipped := remove_id (bid b) (skipped st) |}, [E482])
      else (st, [])
  end.

Fixpoint suses (xs : list name) (st : sstate) : sstate * list code :=
  match xs with
  | [] => (st, [])
  | x :: r => let '(st, c) := suse x st in let '(st, cr) := suses r st in (st, c ++ cr)
  end.

Definition s_goto (l : id) (st : sstate) : sstate :=
  {| env := env st; snext := snext st;
     seen := if mem_id l (seen st) then seen st else l :: seen st; skipped := skipped st |}.

Definition s_label (l : id) (st : sstate) : sstate :=
  match rev (env st) with
  | [] => st
  | top :: _ =>
      let hit := map bid (filter (fun b => mem_id l (skippers b)) top) in
      {| env := env st; snext := snext st; seen := seen st;
         skipped := add_pruned hit (skipped st) |}
  end.

Definition s_push st := {| env := env st ++ [[]]; snext := snext st; seen := seen st; skipped := skipped st |}.
Definition s_pop st := {| env := removelast (env st); snext := snext st; seen := seen st; skipped := skipped st |}.

Fixpoint sp_stmt (s : stmt) (st : sstate) {struct s} : sstate * list code :=
  match s with
  | SDecl v us =>
      let '(st, c) := suses us st in
      let '(st, dup) := sdeclare v st in
      (st, if dup then [E422] else c)
  | SUse us => suses us st
  | SGoto l => (s_goto l st, [])
  | SLabel l => (s_label l st, [])
  | SIf us t e =>
      let '(st, c0) := suses us st in
      let '(st, c1) := sp_stmt t st in
      match e with
      | Some e' => let '(st, c2) := sp_stmt e' st in (st, c0 ++ c1 ++ c2)
      | None => (st, c0 ++ c1)
      end
  | SBlock b =>
      let fix sp_list (ss : list stmt) (st : sstate) : sstate * list code :=
        match ss with
        | [] => (st, [])
        | s :: r => let '(st, c) := sp_stmt s st in let '(st, cr) := sp_list r st in (st, c ++ cr)
        end in
      let '(st, c) := sp_list b (s_push st) in
      (s_pop st, c)
  | SNop => (st, [])
  end.

Fixpoint sp_list (ss : list stmt) (st : sstate) : sstate * list code :=
  match ss with
  | [] => (st, [])
  | s :: r => let '(st, c) := sp_stmt s st in let '(st, cr) := sp_list r st in (st, c ++ cr)
  end.

Fixpoint sdeclare_params (ps : list name) (st : sstate) : sstate * list code :=
  match ps with
  | [] => (st, [])
  | p :: r =>
      let '(st, dup) := sdeclare p st in
      let '(st, cr) := sdeclare_params r st in
      (st, (if dup then [E424] else []) ++ cr)
  end.

Definition sp_func (f : func) (st : sstate) : sstate * list code :=
  let st := s_push st in
  let '(st, c0) := sdeclare_params (params f) st in
  let st := s_push st in
  let '(st, c1) := sp_list (body f) st in
  let '(st, c2) := suses (ret f) st in
  (s_pop (s_pop st), c0 ++ c1 ++ c2).

Fixpoint sp_funcs (fs : list func) (st : sstate) : list code :=
  match fs with
  | [] => []
  | f :: r => let '(st, c) := sp_func f st in c ++ sp_funcs r st
  end.

Fixpoint sdeclare_consts (cs : list name) (st : sstate) : sstate :=
  match cs with [] => st | c :: r => sdeclare_consts r (fst (sdeclare c st)) end.

Definition spec_program (consts : list name) (fs : list func) : list code :=
  sp_funcs fs (sdeclare_consts consts {| env := [[]]; snext := 1%N; seen := []; skipped := [] |}).
