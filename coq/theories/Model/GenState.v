(* The tables of the IR generator and their life time (properties C12 / C01).

   src/alpha/generator.rs   struct Generator: the HashMap fields (Gen/GenState.v lists them, regenerated
                            from the source on every run, together with the `clear()` calls of
                            `add_module` and of the end of `Declaration::Function`'s arm).
   A table maps keys (resolution ids, which restart in every module, or intrinsic names) to LLVM
   values; only the key/value association matters here.  Everything else in the struct (context,
   builder, module handles, target description) is not a table and is outside this model.

   Executable definitions only. *)
From PV Require Import Base.Common.
From PV Require Export Gen.GenState.

Definition tstate : Type := table -> list (N * N).

Definition empty_state : tstate := fun _ => [].

Fixpoint mem_table (t : table) (l : list table) : bool :=
  match l with [] => false | x :: r => table_beq t x || mem_table t r end.

(* Generator::add_module: the `.clear()` calls *)
Definition add_module (s : tstate) : tstate :=
  fun t => if mem_table t cleared_by_add_module then [] else s t.

(* Declaration::Function: the `.clear()` calls after `body.generate(llvm)?` *)
Definition finish_function (s : tstate) : tstate :=
  fun t => if mem_table t cleared_after_function then [] else s t.

Definition insert (s : tstate) (t : table) (k v : N) : tstate :=
  fun t' => if table_beq t t' then (k, v) :: s t' else s t'.

Fixpoint lookup (l : list (N * N)) (k : N) : option N :=
  match l with [] => None | (k', v) :: r => if N.eqb k k' then Some v else lookup r k end.

(* what a module / a function body can observe of the generator's tables *)
Definition observe (s : tstate) (t : table) (k : N) : option N := lookup (s t) k.
