(* One function activation as the generator lowers it: the run-time side of the
   mutability rules (property C08).

   Sources mirrored:

   src/alpha/generator.rs
     [bkind] [bstore] [binding] [frame] [base_loc]
                         `impl Generatable for Declaration`, arm Function
                         (generator.rs:637-677): EVERY parameter is entered into
                         llvm.local_parameters as the SSA value LLVMGetParam(i); no
                         parameter gets an alloca.  So a by-value scalar parameter
                         is an immediate without storage ([SImm]), a pointer `&T`
                         and a view `(T)` (how structures are passed) is an
                         immediate pointer ([SImm], MemLower.LocPtr), a slice `[]T`
                         and a slice pointer `&[]T` is an immediate { ptr, len }
                         ([SImmSlice], MemLower.LocSlice).  `var x: T` is an entry
                         block alloca (Statement::Declaration, generate_entry_alloca:
                         [SAddr], MemLower.LocMem); constants of aggregate type are
                         globals ([KConst], [SAddr]).
     [arg_value] [arg_view] [arg_slice] [arg_pointer] [arg_slice_pointer]
                         how a call passes its arguments (Expression::FunctionCall:
                         arguments.generate; generate_autocoerce, generator.rs:
                         1929-2082): by-value scalars are loaded, `a` for `[]T` is
                         generate_array_slice(address of a, n) -- a { ptr, len }
                         INTO THE CALLER'S STORAGE --, a structure is passed as
                         generate_view(address of s) -- a pointer to the caller's
                         object --, `&x` is the address, `&a` for `&[]T` is again
                         generate_array_slice.
     [exec_stmt]         Statement::Assignment (generator.rs:816-824):
                         generate_storage_address, value.generate, LLVMBuildStore.
                         The address is MemLower.sem_steps of the resolved steps
                         (MemLower.lower_ref_sound: that is what the emitted
                         GEP/load/extractvalue sequence computes); [sem_checked] is
                         MemLower.sem_step, step by step, plus the bounds the
                         language leaves undefined (index outside the array / the
                         slice length).
     [read_scalar]       Reference::generate_deref (generator.rs:1427-1460): a
                         trivial reference to a parameter is the SSA value itself
                         (generate_word_deref), otherwise a load from the storage
                         address.
   src/alpha/typer.rs
     [elab_assign]       analyze_assignment_steps (typer.rs:2126-2286): the steps of
                         MemLower.elaborate (Pointer => Autoderef, View => Autoview,
                         Slice/SlicePointer => Autodeslice, ...) followed by
                         `for _i in ad..pd { Autoderef }`.
   src/alpha/analyzer/mutability.rs -- through Model/Mutability.v
     [to_mty] [mut_chain] [to_mut_ref] [to_mut_stmt]
                         translation of a frame reference into the reference chain
                         of Model/Mutability.v (the DesliceOffset of an Autodeslice
                         -- ArrayByView / ArrayByPointer -- is read off the Penne
                         type, as typer.rs does).
     [declare_binding] [frame_menv]
                         the analyzer state: Mutability.mut_decl (DConstant),
                         Mutability.declare_param, Mutability.mut_stmt (SDeclaration)
                         applied to the bindings, binding i having the name i.
     [stmt_codes] [accepted] [body_codes] [accepted_body]
                         the verdict: literally Mutability.mut_stmt on the
                         translated statement.

   Specification-side, executable (not in the Rust code): [pointees] [binding_ranges]
   [allowed] (the regions a callee may write), [changed], [run_frame_case] (interface
   for the correspondence check).

   What is NOT modelled: calls made by the callee, loops and branches (a body is a
   straight line of assignments), index expressions other than constants, endless
   arrays `[...]T` (no bound is known for them: a reference through one is
   "undefined" here), slices stored in memory (a `var` of slice type), aggregate
   copies (rejected by function_calls.rs: E531-E533), pointer COPIES (`&p = &q` with
   q a pointer; `&p = &x` with x an object is modelled: [SSetAddr]).

   Executable definitions only. *)
From PV Require Import Base.Common Model.Layout Model.MemLower.
From PV Require Model.Mutability.
Open Scope Z_scope.

(* ---- frames ------------------------------------------------------------------ *)

Inductive bkind : Type := KParam | KLocal | KConst.

(* Where the binding's value is: in memory at an address (alloca, global), or an
   SSA value (scalar / pointer / view), or an SSA { ptr, len } aggregate. *)
Inductive bstore : Type :=
| SAddr (a : Z)
| SImm (z : Z)
| SImmSlice (p : Z) (len : Z).

Record binding : Type := { b_kind : bkind; b_ty : pty; b_store : bstore }.

Definition frame := list binding.

(* How a parameter of a type is passed (value_type.rs can_be_parameter: arrays and
   structures themselves cannot be parameter types; the typer turns `a: []T` into
   Slice and `s: S` into View{Struct}). *)
Inductive pclass : Type := CByValue | CView | CPointer | CIllegal.

Definition param_class (t : pty) : pclass :=
  match t with
  | PInt _ | PBool => CByValue
  | PView _ | PSlice _ => CView
  | PPtr _ | PSlicePtr _ => CPointer
  | PArr _ _ | PStruct _ | PEndless _ => CIllegal
  end.

(* The shapes the generator produces. *)
Definition storage_ok (b : binding) : bool :=
  match b_kind b, b_store b, b_ty b with
  | (KLocal | KConst), SAddr _, _ => true
  | KParam, SImm _, (PInt _ | PBool | PPtr _ | PView _) => true
  | KParam, SImmSlice _ _, (PSlice _ | PSlicePtr _) => true
  | _, _, _ => false
  end.

(* generate_storage_address, the base (generator.rs:1517-1554). *)
Definition base_loc (b : binding) : option loc :=
  match b_store b, b_ty b with
  | SAddr a, t => Some (LocMem a (gen t))
  | SImm z, (PPtr u | PView u) => Some (LocPtr z (gen u))
  | SImmSlice p len, (PSlice e | PSlicePtr e) => Some (LocSlice p len (gen e))
  | _, _ => None
  end.

(* The arguments of a call, as bindings of the callee. *)
Definition arg_value (t : pty) (z : Z) : binding :=
  {| b_kind := KParam; b_ty := t; b_store := SImm z |}.
Definition arg_view (a : Z) (t : pty) : binding :=            (* f(s), s: struct at a *)
  {| b_kind := KParam; b_ty := PView t; b_store := SImm a |}.
Definition arg_slice (a n : Z) (e : pty) : binding :=         (* f(x), x: [n]e at a *)
  {| b_kind := KParam; b_ty := PSlice e; b_store := SImmSlice a n |}.
Definition arg_pointer (a : Z) (t : pty) : binding :=         (* f(&x), x: t at a *)
  {| b_kind := KParam; b_ty := PPtr t; b_store := SImm a |}.
Definition arg_slice_pointer (a n : Z) (e : pty) : binding := (* f(&x), x: [n]e at a *)
  {| b_kind := KParam; b_ty := PSlicePtr e; b_store := SImmSlice a n |}.
Definition local_var (a : Z) (t : pty) : binding :=
  {| b_kind := KLocal; b_ty := t; b_store := SAddr a |}.
Definition constant (a : Z) (t : pty) : binding :=
  {| b_kind := KConst; b_ty := t; b_store := SAddr a |}.

(* ---- references and statements ------------------------------------------------ *)

(* `&..& x<path>`: binding index, written path, address depth. *)
Record reference : Type := { r_base : nat; r_path : path; r_ad : nat }.

Fixpoint ptr_depth (t : pty) : nat :=
  match t with
  | PPtr u => S (ptr_depth u)
  | PSlicePtr _ => 1
  | _ => O
  end.

Fixpoint strip_ptrs (n : nat) (t : pty) : pty :=
  match n, t with
  | S n', PPtr u => strip_ptrs n' u
  | _, _ => t
  end.

(* typer.rs analyze_assignment_steps.  None: the typer does not produce steps
   (ill-typed path) or keeps a positive address depth (an error it reports). *)
Definition elab_assign (t : pty) (p : path) (ad : nat) : option (list rstep * pty) :=
  match elaborate t p with
  | Some (rs, t') =>
      let pd := ptr_depth t' in
      if Nat.leb ad pd
      then Some (rs ++ repeat RAutoderef (pd - ad), strip_ptrs (pd - ad) t')
      else None
  | None => None
  end.

Inductive stmt : Type :=
| SSetConst (dst : reference) (z : Z)          (* dst = z;        dst: integer/bool *)
| SCopy (dst : reference) (src : reference)    (* dst = src;      both integer/bool *)
| SSetAddr (dst : reference) (src : reference). (* &dst = &src;   dst: &T, src: T    *)

(* ---- execution ---------------------------------------------------------------- *)

(* What the language leaves undefined about one step: an index outside the array
   (outside the slice length right after the Autodeslice).  Endless arrays have no
   bound: not supported. *)
Definition step_defined (l : loc) (slen : option Z) (s : rstep) : bool :=
  match s, l with
  | RElem i false, LocMem _ (LArr n _) =>
      (0 <=? i) && (i <? match slen with Some len => len | None => n end)
  | RElem _ true, _ => false
  | _, _ => true
  end.

Definition next_slen (l : loc) (s : rstep) : option Z :=
  match s, l with
  | RDeslice0, LocSlice _ len _ => Some len
  | _, _ => None
  end.

(* MemLower.sem_steps with the bounds. *)
Fixpoint sem_checked (m : mem) (l : loc) (slen : option Z) (steps : list rstep)
  : option loc :=
  match steps with
  | [] => Some l
  | s :: r =>
      if step_defined l slen s then
        match sem_step m l s with
        | Some l' => sem_checked m l' (next_slen l s) r
        | None => None
        end
      else None
  end.

(* The object a reference denotes: address and LLVM type. *)
Definition ref_loc (m : mem) (f : frame) (r : reference) : option (Z * lt) :=
  match nth_error f (r_base r) with
  | Some b =>
      match elab_assign (b_ty b) (r_path r) (r_ad r), base_loc b with
      | Some (rs, _), Some l =>
          match sem_checked m l None rs with
          | Some (LocMem a T) => Some (a, T)
          | _ => None
          end
      | _, _ => None
      end
  | None => None
  end.

Definition is_data (T : lt) : bool :=
  match T with
  | LInt _ | LBool => true
  | _ => false
  end.

(* The value of `x<path>` of integer/bool type. *)
Definition read_scalar (m : mem) (f : frame) (r : reference) : option Z :=
  match nth_error f (r_base r) with
  | Some b =>
      match b_store b, b_ty b, r_path r with
      | SImm z, (PInt _ | PBool), [] => Some z
      | _, _, _ =>
          match ref_loc m f {| r_base := r_base r; r_path := r_path r; r_ad := O |} with
          | Some (a, T) =>
              if is_data T then load_scalar m a (scalar_size (erase T)) else None
          | None => None
          end
      end
  | None => None
  end.

Fixpoint lt_eqb (a b : lt) {struct a} : bool :=
  match a, b with
  | LInt x, LInt y => x =? y
  | LBool, LBool => true
  | LPtr x, LPtr y => lt_eqb x y
  | LArr n x, LArr k y => (n =? k) && lt_eqb x y
  | LStruct xs, LStruct ys =>
      (fix go (l : list lt) (r : list lt) : bool :=
         match l, r with
         | [], [] => true
         | x :: l', y :: r' => lt_eqb x y && go l' r'
         | _, _ => false
         end) xs ys
  | _, _ => false
  end.

(* The address depth at which `&src` names the storage of src itself (no trailing
   Autoderef is added). *)
Definition src_ad (f : frame) (r : reference) : nat :=
  match nth_error f (r_base r) with
  | Some b => ptr_depth (match elaborate (b_ty b) (r_path r) with
                         | Some (_, t') => t'
                         | None => PBool
                         end)
  | None => O
  end.

(* The address `&src` evaluates to: the storage address of src (no load). *)
Definition addr_of (m : mem) (f : frame) (r : reference) : option (Z * lt) :=
  ref_loc m f {| r_base := r_base r; r_path := r_path r; r_ad := src_ad f r |}.

(* None: undefined behaviour, or not a statement of the fragment (the target is not
   of integer/bool type, resp. not a pointer to the type of src). *)
Definition exec_stmt (m : mem) (f : frame) (s : stmt) : option mem :=
  match s with
  | SSetConst d z =>
      match ref_loc m f d with
      | Some (a, T) => if is_data T then Some (store m a (erase T) (VS z)) else None
      | None => None
      end
  | SCopy d s' =>
      match ref_loc m f d, read_scalar m f s' with
      | Some (a, T), Some z => if is_data T then Some (store m a (erase T) (VS z)) else None
      | _, _ => None
      end
  | SSetAddr d s' =>
      match ref_loc m f d, addr_of m f s' with
      | Some (a, LPtr U), Some (z, U') =>
          if lt_eqb U U' then Some (store m a TPtr (VS z)) else None
      | _, _ => None
      end
  end.

Fixpoint exec_body (m : mem) (f : frame) (body : list stmt) : option mem :=
  match body with
  | [] => Some m
  | s :: rest =>
      match exec_stmt m f s with
      | Some m' => exec_body m' f rest
      | None => None
      end
  end.

(* ---- the gate: Model/Mutability.v ------------------------------------------------ *)

Fixpoint to_mty (t : pty) : Mutability.mty :=
  match t with
  | PInt _ => Mutability.MPrim Mutability.prim_i32
  | PBool => Mutability.MPrim Mutability.prim_bool
  | PArr n e => Mutability.MArray (to_mty e) (Z.to_N n)
  | PStruct _ => Mutability.MStruct 0%N
  | PPtr u => Mutability.MPointer (to_mty u)
  | PView u => Mutability.MView (to_mty u)
  | PSlice e => Mutability.MSlice (to_mty e)
  | PSlicePtr e => Mutability.MSlicePointer (to_mty e)
  | PEndless e => Mutability.MEndless (to_mty e)
  end.

Definition cons_step (s : Mutability.rstep) (r : option (list Mutability.rstep * pty))
  : option (list Mutability.rstep * pty) :=
  match r with
  | Some (ch, t) => Some (s :: ch, t)
  | None => None
  end.

(* The chain of Mutability.v for resolved steps starting at a value of type t, and
   the type reached; None if the steps do not fit the type (or use an endless
   array / a slice length).  After an Autodeslice the type is the arraylike of
   the element type, written [PArr 0 e]. *)
Fixpoint mut_chain (t : pty) (rs : list rstep) : option (list Mutability.rstep * pty) :=
  match rs with
  | [] => Some ([], t)
  | s :: rest =>
      match s, t with
      | RElem _ false, PArr _ e =>
          cons_step (Mutability.Element Mutability.ELeaf) (mut_chain e rest)
      | RMember k, PStruct ms =>
          match nth_error ms k with
          | Some mk => cons_step (Mutability.Member (N.of_nat k)) (mut_chain mk rest)
          | None => None
          end
      | RAutoderef, PPtr u => cons_step Mutability.Autoderef (mut_chain u rest)
      | RAutoview, PView u => cons_step Mutability.Autoview (mut_chain u rest)
      | RDeslice0, PSlice e =>
          cons_step Mutability.AutodesliceByView (mut_chain (PArr 0 e) rest)
      | RDeslice0, PSlicePtr e =>
          cons_step Mutability.AutodesliceByPointer (mut_chain (PArr 0 e) rest)
      | _, _ => None
      end
  end.

(* The reference of Mutability.v: base name = binding index.  [ad] is the address
   depth the resolved reference carries (0 for an assignment target, 1 for `&src`). *)
Definition to_mut_ref_at (f : frame) (r : reference) (ad_steps : nat) (ad_out : N)
  : option Mutability.reference :=
  match nth_error f (r_base r) with
  | Some b =>
      match elab_assign (b_ty b) (r_path r) ad_steps with
      | Some (rs, _) =>
          match mut_chain (b_ty b) rs with
          | Some (ch, _) => Some (Mutability.Ref (Some (N.of_nat (r_base r))) ch ad_out)
          | None => None
          end
      | None => None
      end
  | None => None
  end.

Definition to_mut_ref (f : frame) (r : reference) : option Mutability.reference :=
  to_mut_ref_at f r (r_ad r) 0%N.

Definition to_mut_stmt (f : frame) (s : stmt) : option Mutability.stmt :=
  match s with
  | SSetConst d _ =>
      match to_mut_ref f d with
      | Some d' => Some (Mutability.SAssignment d' Mutability.ELeaf)
      | None => None
      end
  | SCopy d s' =>
      match to_mut_ref f d, to_mut_ref_at f s' O 0%N with
      | Some d', Some s'' =>
          Some (Mutability.SAssignment d'
                  (Mutability.EDeref s'' (Mutability.POk (Mutability.MPrim Mutability.prim_i32))))
      | _, _ => None
      end
  | SSetAddr d s' =>
      match to_mut_ref f d, to_mut_ref_at f s' (src_ad f s') 1%N with
      | Some d', Some s'' =>
          Some (Mutability.SAssignment d'
                  (Mutability.EDeref s''
                     (Mutability.POk (Mutability.MPointer (Mutability.MPrim Mutability.prim_i32)))))
      | _, _ => None
      end
  end.

(* The analyzer state after the declarations of the frame. *)
Definition declare_binding (v : Mutability.menv) (i : nat) (b : binding) : Mutability.menv :=
  match b_kind b with
  | KConst =>
      fst (Mutability.mut_decl v (Mutability.DConstant (N.of_nat i) (Some (to_mty (b_ty b)))))
  | KParam =>
      Mutability.declare_param v
        {| Mutability.p_name := Some (N.of_nat i);
           Mutability.p_type := Some (to_mty (b_ty b)) |}
  | KLocal =>
      fst (Mutability.mut_stmt v
             (Mutability.SDeclaration (N.of_nat i) None (Mutability.POk (to_mty (b_ty b)))))
  end.

Fixpoint frame_menv_from (i : nat) (f : frame) (v : Mutability.menv) : Mutability.menv :=
  match f with
  | [] => v
  | b :: rest => frame_menv_from (S i) rest (declare_binding v i b)
  end.

Definition frame_menv (f : frame) : Mutability.menv := frame_menv_from O f [].

(* Pseudo code: the statement is not in the fragment / does not elaborate (it never
   reaches mutability.rs). *)
Definition E_NOT_ELABORATED : code := 1%N.

Definition stmt_codes (f : frame) (s : stmt) : list code :=
  match to_mut_stmt f s with
  | Some ms => snd (Mutability.mut_stmt (frame_menv f) ms)
  | None => [E_NOT_ELABORATED]
  end.

Definition accepted (f : frame) (s : stmt) : bool := is_nil (stmt_codes f s).

Definition body_codes (f : frame) (body : list stmt) : list code :=
  flat_map (stmt_codes f) body.

Definition accepted_body (f : frame) (body : list stmt) : bool := forallb (accepted f) body.

(* ---- the regions a callee may write --------------------------------------------- *)

Definition range := (Z * Z)%type.          (* [lo, hi) *)

Definition in_range (x : Z) (r : range) : bool := (fst r <=? x) && (x <? snd r).
Definition in_ranges (x : Z) (rs : list range) : bool := existsb (in_range x) rs.

Definition obj_range (a : Z) (T : lt) : range := (a, a + lsize T).

(* The objects reachable through the pointer cells inside the object (a, T) --
   transitively; recursion on the type (a pointee type is a subterm). *)
Fixpoint pointees (m : mem) (T : lt) (a : Z) : list range :=
  match T with
  | LInt _ | LBool => []
  | LPtr u =>
      match load_scalar m a 8 with
      | Some z => obj_range z u :: pointees m u z
      | None => []
      end
  | LArr n e =>
      flat_map (fun k => pointees m e (a + Z.of_nat k * lsize e)) (seq 0 (Z.to_nat n))
  | LStruct ms =>
      (fix go (l : list lt) (offs : list Z) : list range :=
         match l, offs with
         | x :: r, off :: offs' => pointees m x (a + off) ++ go r offs'
         | _, _ => []
         end) ms (struct_offsets (erase_list ms))
  end.

(* [strict = true]: the regions the property names -- the callee's own variables
   and the objects reachable from POINTER-typed parameters.  [strict = false]:
   in addition the objects reachable through pointers STORED IN view arguments
   and constants (not the viewed objects themselves). *)
Definition binding_ranges (strict : bool) (m : mem) (b : binding) : list range :=
  match b_kind b, b_store b, b_ty b with
  | KLocal, SAddr a, t => obj_range a (gen t) :: pointees m (gen t) a
  | KParam, SImm z, PPtr u => obj_range z (gen u) :: pointees m (gen u) z
  | KParam, SImmSlice p len, PSlicePtr e =>
      obj_range p (LArr len (gen e)) :: pointees m (LArr len (gen e)) p
  | KParam, SImm z, PView u => if strict then [] else pointees m (gen u) z
  | KParam, SImmSlice p len, PSlice e =>
      if strict then [] else pointees m (LArr len (gen e)) p
  | KConst, SAddr a, t => if strict then [] else pointees m (gen t) a
  | _, _, _ => []
  end.

Definition allowed (strict : bool) (m : mem) (f : frame) : list range :=
  flat_map (binding_ranges strict m) f.

Definition own_ranges (f : frame) : list range :=
  flat_map (fun b => match b_kind b, b_store b with
                     | KLocal, SAddr a => [obj_range a (gen (b_ty b))]
                     | _, _ => []
                     end) f.

(* ---- interface for the correspondence check ---------------------------------------- *)

Definition cell_eqb (c d : cell) : bool :=
  match c, d with
  | CPad, CPad => true
  | CFrag z n i, CFrag z' n' i' => (z =? z') && (n =? n') && (i =? i')
  | _, _ => false
  end.

Definition range_addrs (r : range) : list Z :=
  map (fun k => fst r + Z.of_nat k) (seq 0 (Z.to_nat (snd r - fst r))).

(* The addresses of the probe ranges whose cell differs. *)
Definition changed (m0 m1 : mem) (probe : list range) : list Z :=
  filter (fun x => negb (cell_eqb (m0 x) (m1 x))) (flat_map range_addrs probe).

(* Initial memory: the listed objects stored into empty memory, first first. *)
Fixpoint mem_of (inits : list (Z * ty * value)) (m : mem) : mem :=
  match inits with
  | [] => m
  | (a, t, v) :: rest => mem_of rest (store m a t v)
  end.

Inductive case_result : Type :=
| CaseRejected (codes : list code)
| CaseUndefined
| CaseRan (changed_addrs : list Z)         (* changed addresses of the probe ranges *)
          (outside_allowed : list Z)       (* ... not in [allowed false] *)
          (outside_strict : list Z).       (* ... not in [allowed true]  *)

(* [force = true]: execute even if the gate rejects the body. *)
Definition run_frame_case (f : frame) (inits : list (Z * ty * value)) (body : list stmt)
  (probe : list range) (force : bool) : case_result :=
  let m0 := mem_of inits (fun _ => CPad) in
  if accepted_body f body || force then
    match exec_body m0 f body with
    | Some m1 =>
        let ch := changed m0 m1 probe in
        CaseRan ch
          (filter (fun x => negb (in_ranges x (allowed false m0 f))) ch)
          (filter (fun x => negb (in_ranges x (allowed true m0 f))) ch)
    | None => CaseUndefined
    end
  else CaseRejected (body_codes f body).
