(* Model of the second-generation, byte-oriented lexer (property C15 family).

   Rust sources mirrored (pinned commit, /repo):
     src/delta/lexer.rs
       lex                          -> [lex_delta], [lex_result]
       lex_source_into_tokens       -> [lex_delta] (TokenAllocError => E103)
       lex_source_into_buffer       -> [lex_loop] (the `while let`), [lex_step]
                                       (one evaluation of the big `match x`)
         arms ' ' '\t' '\r' '\n'    -> [lex_step] (ASkip / ANewline)
         punctuation arms           -> [punct_table] + [lex_step]
         arm b'/'                   -> [lex_step] (comment: skip up to, not
                                       including, the next '\n')
         arm a-zA-Z_                -> [lex_ident] ([kw_table], [suffix_table])
         arm b'0'                   -> [lex_zero] ([scan_hex], [scan_bin])
         arm b'1'..=b'9'            -> [lex_decimal] ([scan_dec], [dec_push])
         arms for the single and the double quote -> [lex_literal] ([scan_lit], [scan_escape],
                                       [scan_udigits]); the two arms of the Rust
                                       code are textually the same loop except
                                       that only the string arm knows `\u{..}`
                                       and only the char arm counts bytes
         arm _                      -> E110, one error per byte
       parse_integer_suffix         -> [parse_integer_suffix] ([suffix_table])
       is_identifier_continuation   -> [is_ident_cont]
     src/delta/lexer/digits.rs
       parse_decimal_digit / parse_hex_digit -> [dec_digit] / [hex_digit]
     src/delta/lexer/tokens.rs
       Tokens::empty                -> [token_capacity], [error_capacity]
       TokensBuffer::push/push_token/push_integer_payload
                                    -> the bound checks in [lex_loop]
       TokensBuffer::push_error     -> the [errcap <=? nerr] test in [lex_loop]
       TokensBuffer::push_end_of_source -> [num_end_tokens] (two tokens)
       Tokens::empty_with_one_error -> [err_tok0]
       TokenLocation                -> [tstart; tend; line; lstart] of [tok]
     src/alpha/error.rs Error::code -> the codes E101..E163 of Base/Tok.v

   Positions: every scanner threads [e], the value of `location.end`, which in
   the Rust code is always equal to the index of the next byte the iterator will
   yield (the code keeps the two in sync by hand: each `iter.next()` is paired
   with a `location.end += 1`).

   Arithmetic is modelled as the machine does it in a RELEASE build (wrapping
   u128 / u32 / u8).  The model follows the CURRENT code, in which the decimal arm
   checks both the multiplication and the addition ([dec_push]).  The accumulation
   of the PINNED commit (unchecked `value += u128::from(digit)`, defect D4) is kept
   as [dec_push_pinned] / [lex_delta_pinned]; there [spanic] /
   [would_overflow_panic_pinned] record that an overflow-checked (debug) build
   panics.  For the current code [would_overflow_panic] is constant false. *)
From Coq Require Import Ascii String.
From PV Require Import Base.Common Base.IR Base.Tok.
Open Scope N_scope.

Definition lenN (l : list N) : N := N.of_nat (length l).

(* ---- constants of tokens.rs ---------------------------------------------- *)
Definition MAX_SOURCE_LEN : N := 2147483648.        (* 1 << 31 *)
Definition MAX_NUM_TOKENS : N := 16777216.          (* 1 << 24 *)
Definition MAX_NUM_PAYLOADS : N := 16777216.        (* 1 << 24 *)
Definition MAX_NUM_LEXING_ERRORS : N := 100.
Definition two128 : N := 340282366920938463463374607431768211456.
Definition two32 : N := 4294967296.

(* Tokens::empty: capacity of the three token vectors (Vec::with_capacity gives
   exactly the requested capacity for non-zero-sized elements). *)
Definition token_capacity (source_len : N) : N :=
  N.min (N.max (source_len / 2) 65536) MAX_NUM_TOKENS.
(* Tokens::empty: capacity of the `errors` vector, which push_error uses as the
   cap (errors.len() >= errors.capacity() => silently ignore). *)
Definition error_capacity (source_len : N) : N :=
  N.min source_len MAX_NUM_LEXING_ERRORS.

(* ========================================================================== *)
(* ---- TABLES (keywords, type keywords, suffixes, punctuation) ------------- *)
(* ========================================================================== *)
Definition bs (s : string) : list N := map N_of_ascii (list_ascii_of_string s).
Definition ch (c : ascii) : N := N_of_ascii c.
Arguments bs s%string.
Arguments ch c%char.

(* the `match identifier` of the identifier arm: (kind, payload, value type) *)
Definition kw_table : list (list N * (tkind * Z * option tykw)) :=
  [ (bs "fn", (KFn, 0%Z, None)); (bs "var", (KVar, 0%Z, None));
    (bs "const", (KConst, 0%Z, None)); (bs "if", (KIf, 0%Z, None));
    (bs "goto", (KGoto, 0%Z, None)); (bs "loop", (KLoop, 0%Z, None));
    (bs "return", (KReturn, 0%Z, None)); (bs "else", (KElse, 0%Z, None));
    (bs "cast", (KCast, 0%Z, None)); (bs "as", (KAs, 0%Z, None));
    (bs "true", (KBool, 1%Z, None)); (bs "false", (KBool, 0%Z, None));
    (bs "bool", (KType, 0%Z, Some (TyPrim Bool)));
    (bs "void", (KType, 0%Z, Some TyVoid));
    (bs "char8", (KType, 0%Z, Some (TyPrim Char8)));
    (bs "import", (KImport, 0%Z, None)); (bs "pub", (KPub, 0%Z, None));
    (bs "extern", (KExtern, 0%Z, None)); (bs "struct", (KStruct, 0%Z, None));
    (bs "word8", (KWord8, 0%Z, None)); (bs "word16", (KWord16, 0%Z, None));
    (bs "word32", (KWord32, 0%Z, None)); (bs "word64", (KWord64, 0%Z, None));
    (bs "word128", (KWord128, 0%Z, None));
    (bs "_", (KPlaceholder, 0%Z, None)) ].

(* parse_integer_suffix; also the i8..usize arm of `match identifier` *)
Definition suffix_table : list (list N * prim) :=
  [ (bs "i8", Int8); (bs "i16", Int16); (bs "i32", Int32); (bs "i64", Int64);
    (bs "i128", Int128); (bs "u8", Uint8); (bs "u16", Uint16); (bs "u32", Uint32);
    (bs "u64", Uint64); (bs "u128", Uint128); (bs "usize", Usize) ].

(* punctuation arms: first byte, list of (peeked second byte, two-byte token),
   and the one-byte token otherwise.  '/' is handled apart (comments). *)
Definition punct_table : list (N * (list (N * tkind) * tkind)) :=
  [ (ch "(", ([], KParenLeft)); (ch ")", ([], KParenRight));
    (ch "{", ([], KBraceLeft)); (ch "}", ([], KBraceRight));
    (ch "[", ([], KBracketLeft)); (ch "]", ([], KBracketRight));
    (ch "<", ([(ch "<", KShiftLeft); (ch "=", KIsLE)], KAngleLeft));
    (ch ">", ([(ch ">", KShiftRight); (ch "=", KIsGE)], KAngleRight));
    (ch "|", ([(ch ":", KPipeForType)], KPipe));
    (ch "&", ([], KAmpersand)); (ch "^", ([], KCaret));
    (ch "!", ([(ch "=", KDoesNotEqual)], KExclamation));
    (ch "+", ([], KPlus)); (ch "*", ([], KTimes)); (ch "%", ([], KModulo));
    (ch ":", ([], KColon)); (ch ";", ([], KSemicolon));
    (ch ".", ([(ch ".", KDots)], KDot)); (ch ",", ([], KComma));
    (ch "=", ([(ch "=", KEquals)], KAssignment));
    (ch "-", ([(ch ">", KArrow)], KMinus)) ].

(* the one-byte escapes shared by both literal arms: n r t backslash quote dquote 0 *)
Definition simple_escape_table : list (N * N) :=
  [ (ch "n", 10); (ch "r", 13); (ch "t", 9); (ch "\", 92); (ch "'", 39);
    (ch """", 34); (ch "0", 0) ].
(* ========================================================================== *)
(* ---- end of TABLES ------------------------------------------------------- *)
(* ========================================================================== *)

Fixpoint bytes_eqb (x y : list N) : bool :=
  match x, y with
  | [], [] => true
  | a :: x', c :: y' => (a =? c) && bytes_eqb x' y'
  | _, _ => false
  end.

Fixpoint assoc_bytes {A : Type} (k : list N) (t : list (list N * A)) : option A :=
  match t with
  | [] => None
  | (k', v) :: t' => if bytes_eqb k k' then Some v else assoc_bytes k t'
  end.

Fixpoint assoc_N {A : Type} (k : N) (t : list (N * A)) : option A :=
  match t with
  | [] => None
  | (k', v) :: t' => if k =? k' then Some v else assoc_N k t'
  end.

Definition parse_integer_suffix (s : list N) : option prim := assoc_bytes s suffix_table.

(* ---- byte classes -------------------------------------------------------- *)
Definition in_range (lo hi x : N) : bool := (lo <=? x) && (x <=? hi).
Definition is_alpha (x : N) : bool := in_range 97 122 x || in_range 65 90 x.
Definition is_ident_start (x : N) : bool := is_alpha x || (x =? 95).
Definition is_ident_cont (x : N) : bool := is_alpha x || in_range 48 57 x || (x =? 95).
(* u8::is_ascii_graphic: '!'..='~' *)
Definition is_ascii_graphic (x : N) : bool := in_range 33 126 x.

(* digits.rs *)
Definition dec_digit (a : N) : option N :=
  if in_range 48 57 a then Some (N.land a 15) else None.
Definition hex_digit (a : N) : option N :=
  if in_range 65 70 a then Some (N.land a 15 + 9)
  else if in_range 97 102 a then Some (N.land a 15 + 9)
  else if in_range 48 57 a then Some (N.land a 15)
  else None.

(* `while let Some(..) = iter.peek() { if p(y) { iter.next(); end += 1 } else break }`
   returns the bytes consumed and the remaining input *)
Fixpoint span_while (p : N -> bool) (l : list N) : list N * list N :=
  match l with
  | [] => ([], [])
  | y :: r => if p y then let '(t, r') := span_while p r in (y :: t, r') else ([], l)
  end.

(* source[from..to) relative to the start of [l] *)
Definition slice (l : list N) (from to : N) : list N :=
  firstn (N.to_nat (to - from)) (skipn (N.to_nat from) l).

(* ---- results of one iteration of the main loop --------------------------- *)
Inductive action :=
| ASkip                                              (* `continue` *)
| ANewline                                           (* '\n' arm *)
| ATok (k : tkind) (v : Z) (ty : option tykw) (en : N) (* Ok(token), location [i, en) *)
| AErr (c : Z) (st en : N)                           (* Err(error), location [st, en) *)
| AFuel.                                             (* out of fuel (never happens) *)

Record step := {
  act : action;
  srest : list N;    (* what the iterator still holds *)
  send : N;          (* index of the first byte of [srest] *)
  spanic : bool      (* an overflow-checked build panics in this iteration *)
}.
Definition mk_step (a : action) (r : list N) (e : N) : step :=
  {| act := a; srest := r; send := e; spanic := false |}.

(* ---- identifier arm ------------------------------------------------------ *)
Definition lookup_keyword (ident : list N) : option (tkind * Z * option tykw) :=
  match assoc_bytes ident kw_table with
  | Some r => Some r
  | None =>
      match parse_integer_suffix ident with
      | Some p => Some (KType, 0%Z, Some (TyPrim p))
      | None => None
      end
  end.

Definition lex_ident (x : N) (r : list N) (i : N) : step :=
  let '(t, r1) := span_while is_ident_cont r in
  let e1 := i + 1 + lenN t in
  match lookup_keyword (x :: t) with
  | Some (k, v, ty) => mk_step (ATok k v ty e1) r1 e1
  | None =>
      match r1 with
      | y :: r2 =>
          if y =? 33 (* '!' *) then mk_step (ATok KBuiltin 0%Z None (e1 + 1)) r2 (e1 + 1)
          else mk_step (ATok KIdentifier 0%Z None e1) r1 e1
      | [] => mk_step (ATok KIdentifier 0%Z None e1) r1 e1
      end
  end.

(* ---- numeric arms -------------------------------------------------------- *)
(* decimal accumulator: value, has_overflowed, "debug build panicked" *)
Record dacc := { dval : N; dov : bool; dpanic : bool }.

(* CURRENT code (commit 81d8d87, "check the addition when accumulating a decimal literal"):
     value = match value.checked_mul(10) { Some(v) => v, None => { has_overflowed = true; 0 } };
     value = match value.checked_add(u128::from(digit)) { Some(v) => v, None => { has_overflowed = true; 0 } };
   nothing can overflow any more; [dpanic] is carried along unchanged (always false) *)
Definition dec_push (a : dacc) (d : N) : dacc :=
  let m := dval a * 10 in
  let ov1 := two128 <=? m in
  let v1 := if ov1 then 0 else m in
  let s := v1 + d in
  let ov2 := two128 <=? s in
  {| dval := if ov2 then 0 else s; dov := dov a || ov1 || ov2; dpanic := dpanic a |}.

(* PINNED code (before the repair, defect D4):
     value = match value.checked_mul(10) { .. as above .. };
     value += u128::from(digit);            <-- UNCHECKED add: wraps in release, panics in debug *)
Definition dec_push_pinned (a : dacc) (d : N) : dacc :=
  let m := dval a * 10 in
  let ov := two128 <=? m in
  let v1 := if ov then 0 else m in
  let s := v1 + d in
  {| dval := s mod two128; dov := dov a || ov; dpanic := dpanic a || (two128 <=? s) |}.

(* Every definition that depends on the accumulation step takes it as the parameter
   [push] ([.._with]); the plain names below instantiate it with the CURRENT [dec_push],
   the [.._pinned] names with [dec_push_pinned]. *)
Fixpoint scan_dec_with (push : dacc -> N -> dacc) (a : dacc) (e : N) (l : list N) : dacc * N * list N :=
  match l with
  | [] => (a, e, [])
  | y :: r =>
      match dec_digit y with
      | Some d => scan_dec_with push (push a d) (e + 1) r
      | None => if y =? 95 then scan_dec_with push a (e + 1) r else (a, e, l)
      end
  end.
Definition scan_dec := scan_dec_with dec_push.

Definition suffixed (v : N) (sfx : list N) (i e2 : N) : action :=
  match parse_integer_suffix sfx with
  | Some p => ATok KSuffixedInteger (Z.of_N v) (Some (TyPrim p)) e2
  | None => AErr E141 i e2
  end.

Definition lex_decimal_with (push : dacc -> N -> dacc) (x : N) (r : list N) (i : N) : step :=
  let a0 := {| dval := N.land x 15; dov := false; dpanic := false |} in
  let '(a, e1, r1) := scan_dec_with push a0 (i + 1) r in
  let '(sfx, r2) := span_while is_ident_cont r1 in
  let e2 := e1 + lenN sfx in
  let a' :=
    if dov a then AErr E140 i e2
    else match sfx with
         | [] => ATok KNakedDecimal (Z.of_N (dval a)) None e2
         | _ :: _ => suffixed (dval a) sfx i e2
         end in
  {| act := a'; srest := r2; send := e2; spanic := dpanic a |}.
Definition lex_decimal := lex_decimal_with dec_push.

(* hex accumulator: value, contains_digits, has_overflowed.
   value = checked_mul(16) or (overflow, 0); value |= digit *)
Record hacc := { hval : N; hdigits : bool; hov : bool }.
Definition hex_push (a : hacc) (h : N) : hacc :=
  let m := hval a * 16 in
  let ov := two128 <=? m in
  {| hval := N.lor (if ov then 0 else m) h; hdigits := true; hov := hov a || ov |}.

Fixpoint scan_hex (a : hacc) (e : N) (l : list N) : hacc * N * list N :=
  match l with
  | [] => (a, e, [])
  | y :: r =>
      match hex_digit y with
      | Some h => scan_hex (hex_push a h) (e + 1) r
      | None => if y =? 95 then scan_hex a (e + 1) r else (a, e, l)
      end
  end.

(* binary: (num_digits, value); `value <<= 1` on u128 drops the top bit silently;
   the loop stops as soon as num_digits > 128 *)
Fixpoint scan_bin (nd v : N) (e : N) (l : list N) : N * N * N * list N :=
  match l with
  | [] => (nd, v, e, [])
  | y :: r =>
      if 128 <? nd then (nd, v, e, l)
      else if y =? 48 then scan_bin (nd + 1) (N.shiftl v 1 mod two128) (e + 1) r
      else if y =? 49 then scan_bin (nd + 1) (N.lor (N.shiftl v 1 mod two128) 1) (e + 1) r
      else if y =? 95 then scan_bin nd v (e + 1) r
      else (nd, v, e, l)
  end.

(* the literal part of the b'0' arm: (Ok value | Err code, end_of_literal, end, rest) *)
Definition zero_prefix (r : list N) (e : N) : (option N) * N * N * list N :=
  match r with
  | [] => (Some 0, e, e, r)
  | y :: r' =>
      if y =? 120 (* 'x' *) then
        let '(a, e1, r1) := scan_hex {| hval := 0; hdigits := false; hov := false |} (e + 1) r' in
        if hdigits a then
          ((if hov a then None else Some (hval a)), e1, e1, r1)
        else (Some 0, e, e1, r1)                       (* 'x' was part of the suffix *)
      else if y =? 98 (* 'b' *) then
        let '(nd, v, e1, r1) := scan_bin 0 0 (e + 1) r' in
        if 128 <? nd then (None, e, e1, r1)
        else if 0 <? nd then (Some v, e1, e1, r1)
        else (Some 0, e, e1, r1)                       (* 'b' was part of the suffix *)
      else (Some 0, e, e, r)
  end.

Definition lex_zero (r : list N) (i : N) : step :=
  let e := i + 1 in
  let '(val, eol, e1, r1) := zero_prefix r e in
  let '(t, r2) := span_while is_ident_cont r1 in
  let e2 := e1 + lenN t in
  let sfx := slice r (eol - e) (e2 - e) in               (* source[end_of_literal..end) *)
  let a :=
    match val with
    | Some v =>
        if (v =? 0) && (e2 =? e) then ATok KNakedDecimal 0%Z None e2
        else if e2 =? eol then ATok KBitInteger (Z.of_N v) None e2
        else suffixed v sfx i e2
    | None => AErr E140 i e2
    end in
  mk_step a r2 e2.

(* ---- char and string literal arms ---------------------------------------- *)
(* outcome of one escape sequence *)
Inductive esc :=
| EPush (byte : N)             (* push_byte(byte) *)
| ENone                        (* \u{..}: push_byte of the UTF-8 bytes (string arm only, a no-op) *)
| EErr (c : Z) (st en : N).    (* first_error candidate with its location *)

(* char::from_u32(..).is_some() *)
Definition is_scalar_value (c : N) : bool := (c <? 55296) || ((57344 <=? c) && (c <=? 1114111)).

(* the loop after `\u{`: returns (num_digits, char_u32, end, rest) *)
Fixpoint scan_udigits (sod : N) (cu : N) (e : N) (l : list N) : N * N * N * list N :=
  match l with
  | [] => (0, cu, e, [])
  | y :: l' =>
      match hex_digit y with
      | Some h => scan_udigits sod (N.lor (N.shiftl cu 4 mod two32) h) (e + 1) l'
      | None =>
          if y =? 125 (* '}' *) then ((if sod <? e then e - sod else 0), cu, e + 1, l')
          else (0, cu, e, l)
      end
  end.

(* [soe] = start_of_escape = index of the backslash; [r] = input after it *)
Definition scan_escape (allow_u : bool) (soe : N) (r : list N) : esc * N * list N :=
  let e2 := soe + 2 in
  match r with
  | [] => (EErr E161 soe (soe + 1), soe + 1, [])       (* location.end -= 1 *)
  | y :: r' =>
      match assoc_N y simple_escape_table with
      | Some v => (EPush v, e2, r')
      | None =>
          if y =? 120 (* 'x' *) then
            match r' with
            | [] => (EErr E162 soe e2, e2, r')
            | h1 :: r2 =>
                match hex_digit h1 with
                | None => (EErr E162 soe e2, e2, r')
                | Some d1 =>
                    match r2 with
                    | [] => (EErr E162 soe (e2 + 1), e2 + 1, r2)
                    | h2 :: r3 =>
                        match hex_digit h2 with
                        | None => (EErr E162 soe (e2 + 1), e2 + 1, r2)
                        | Some d2 => (EPush (N.lor (N.shiftl d1 4 mod 256) d2), e2 + 2, r3)
                        end
                    end
                end
            end
          else if allow_u && (y =? 117 (* 'u' *)) then
            let '(nd, cu, e3, r3) :=
              match r' with
              | z :: r2 => if z =? 123 (* '{' *) then scan_udigits (e2 + 1) 0 (e2 + 1) r2
                           else (0, 0, e2, r')
              | [] => (0, 0, e2, r')
              end in
            if (1 <=? nd) && (nd <=? 6) && is_scalar_value cu then (ENone, e3, r3)
            else (EErr E162 soe e3, e3, r3)
          else (EErr E162 soe e2, e2, r')               (* includes backslash-newline *)
      end
  end.

(* num_bytes, byte, closed, first_error *)
Record lit := { nb : N; lastb : N; lclosed : bool; ferr : option (Z * N * N) }.
Definition lit0 : lit := {| nb := 0; lastb := 0; lclosed := false; ferr := None |}.
Definition lit_push (v : N) (s : lit) : lit :=
  {| nb := nb s + 1; lastb := v; lclosed := lclosed s; ferr := ferr s |}.
Definition lit_err (c : Z) (st en : N) (s : lit) : lit :=
  match ferr s with
  | Some _ => s
  | None => {| nb := nb s; lastb := lastb s; lclosed := lclosed s; ferr := Some (c, st, en) |}
  end.
Definition lit_close (s : lit) : lit :=
  {| nb := nb s; lastb := lastb s; lclosed := true; ferr := ferr s |}.
Definition lit_esc (o : esc) (s : lit) : lit :=
  match o with
  | EPush v => lit_push v s
  | ENone => s
  | EErr c st en => lit_err c st en s
  end.

(* `while let Some((_, x)) = iter.next_if(|&(_, y)| y != b'\n')` *)
Fixpoint scan_lit (fuel : nat) (q : N) (allow_u : bool) (s : lit) (e : N) (l : list N)
  : option (lit * N * list N) :=
  match fuel with
  | O => None
  | S f =>
      match l with
      | [] => Some (s, e, [])
      | x :: r =>
          if x =? 10 then Some (s, e, l)
          else if x =? 92 then
            let '(o, e', r') := scan_escape allow_u e r in
            scan_lit f q allow_u (lit_esc o s) e' r'
          else if x =? q then Some (lit_close s, e + 1, r)
          else if x =? 32 then scan_lit f q allow_u (lit_push 32 s) (e + 1) r
          else if is_ascii_graphic x then scan_lit f q allow_u (lit_push x s) (e + 1) r
          else if x <? 128 then scan_lit f q allow_u (lit_err E110 e (e + 1) s) (e + 1) r
          else scan_lit f q allow_u (lit_push x s) (e + 1) r
      end
  end.

Definition finish_lit (is_char : bool) (i : N) (s : lit) (e : N) : action :=
  let s' := if lclosed s then s else lit_err E160 e e s in
  match ferr s' with
  | Some (c, st, en) => AErr c st en
  | None =>
      if is_char then
        (if nb s' =? 1 then ATok KCharLiteral (Z.of_N (lastb s')) None e else AErr E163 i e)
      else ATok KStringLiteral 0%Z None e
  end.

Definition lex_literal (fuel : nat) (is_char : bool) (q : N) (r : list N) (i : N) : step :=
  match scan_lit fuel q (negb is_char) lit0 (i + 1) r with
  | None => mk_step AFuel r (i + 1)
  | Some (s, e, r') => mk_step (finish_lit is_char i s e) r' e
  end.

(* ---- one iteration of the main loop -------------------------------------- *)
Definition lex_step_with (push : dacc -> N -> dacc) (fuel : nat) (x : N) (r : list N) (i : N) : step :=
  let e := i + 1 in
  if (x =? 32) || (x =? 9) || (x =? 13) then mk_step ASkip r e
  else if x =? 10 then mk_step ANewline r e
  else if x =? 47 (* '/' *) then
    match r with
    | y :: r' =>
        if y =? 47 then
          let '(t, r'') := span_while (fun z => negb (z =? 10)) r' in
          mk_step ASkip r'' (e + 1 + lenN t)
        else mk_step (ATok KDivide 0%Z None e) r e
    | [] => mk_step (ATok KDivide 0%Z None e) r e
    end
  else
    match assoc_N x punct_table with
    | Some (seconds, k1) =>
        match r with
        | y :: r' =>
            match assoc_N y seconds with
            | Some k2 => mk_step (ATok k2 0%Z None (e + 1)) r' (e + 1)
            | None => mk_step (ATok k1 0%Z None e) r e
            end
        | [] => mk_step (ATok k1 0%Z None e) r e
        end
    | None =>
        if is_ident_start x then lex_ident x r i
        else if x =? 48 then lex_zero r i
        else if in_range 49 57 x then lex_decimal_with push x r i
        else if x =? 39 (* single quote *) then lex_literal fuel true 39 r i
        else if x =? 34 (* double quote *) then lex_literal fuel false 34 r i
        else mk_step (AErr E110 i e) r e
    end.

Definition lex_step := lex_step_with dec_push.

(* ---- the main loop with the token buffer --------------------------------- *)
Definition has_payload (k : tkind) : bool :=
  match k with
  | KNakedDecimal | KBitInteger | KSuffixedInteger | KCharLiteral | KBool => true
  | _ => false
  end.

Definition mk_tok (k : tkind) (v : Z) (ty : option tykw) (st en ln sol : N) : tok :=
  {| kind := k; value := v; vtype := ty; bytes := [];
     tstart := st; tend := en; line := ln; lstart := st - sol |}.

Inductive loop_result :=
| OutOfFuel
| AllocFail (panic : bool)                       (* Err(TokenAllocError) *)
| Done (toks : list tok) (eline esol : N) (panic : bool).

Definition lr_cons (t : tok) (r : loop_result) : loop_result :=
  match r with
  | Done l a c p => Done (t :: l) a c p
  | _ => r
  end.
Definition lr_panic (p0 : bool) (r : loop_result) : loop_result :=
  match r with
  | OutOfFuel => OutOfFuel
  | AllocFail p => AllocFail (p0 || p)
  | Done l a c p => Done l a c (p0 || p)
  end.

(* [ntok] = buffer.num_tokens, [npay] = integer_payloads.len() (starts at 1),
   [nerr] = errors.len(); [cap] = tokens.len() of the spare-capacity slices,
   [errcap] = errors.capacity() *)
Fixpoint lex_loop_with (push : dacc -> N -> dacc) (fuel : nat) (rest : list N) (pos ln sol : N)
         (ntok npay nerr cap errcap : N) : loop_result :=
  match fuel with
  | O => OutOfFuel
  | S f =>
      match rest with
      | [] =>
          (* push_end_of_source: two pushes at indices ntok and ntok + 1 *)
          if cap <=? ntok + 1 then AllocFail false else Done [] ln sol false
      | x :: r =>
          let s := lex_step_with push f x r pos in
          lr_panic (spanic s)
            match act s with
            | AFuel => OutOfFuel
            | ASkip => lex_loop_with push f (srest s) (send s) ln sol ntok npay nerr cap errcap
            | ANewline => lex_loop_with push f (srest s) (send s) (ln + 1) (pos + 1) ntok npay nerr cap errcap
            | ATok k v ty en =>
                if (has_payload k && (MAX_NUM_PAYLOADS <=? npay)) || (cap <=? ntok)
                then AllocFail false
                else lr_cons (mk_tok k v ty pos en ln sol)
                       (lex_loop_with push f (srest s) (send s) ln sol (ntok + 1)
                          (if has_payload k then npay + 1 else npay) nerr cap errcap)
            | AErr c st en =>
                if errcap <=? nerr
                then (* ignored: NO token is pushed at all *)
                  lex_loop_with push f (srest s) (send s) ln sol ntok npay nerr cap errcap
                else if cap <=? ntok then AllocFail false
                else lr_cons (mk_tok KError c None st en ln sol)
                       (lex_loop_with push f (srest s) (send s) ln sol (ntok + 1) npay (nerr + 1) cap errcap)
            end
      end
  end.

Definition lex_loop := lex_loop_with dec_push.

(* ---- lex ----------------------------------------------------------------- *)
(* Tokens::empty_with_one_error: one Error token at location 0..0, line 0 *)
Definition err_tok0 (c : Z) : tok := mk_tok KError c None 0 0 0 0.
(* the value [lex_delta] returns when the fuel runs out (never, see the proofs) *)
Definition out_of_fuel_tok : tok := mk_tok KError 0%Z None 0 0 0 0.

Inductive lex_outcome :=
| LexEmpty                 (* E101 *)
| LexTooLong               (* E102 *)
| LexRun (r : loop_result).

Definition lex_result_with (push : dacc -> N -> dacc) (src : list N) : lex_outcome :=
  let len := lenN src in
  if len =? 0 then LexEmpty
  else if MAX_SOURCE_LEN <? len then LexTooLong
  else LexRun (lex_loop_with push (S (length src)) src 0 1 0 0 1 0 (token_capacity len) (error_capacity len)).

Definition lex_delta_with (push : dacc -> N -> dacc) (src : list N) : list tok :=
  match lex_result_with push src with
  | LexEmpty => [err_tok0 E101]
  | LexTooLong => [err_tok0 E102]
  | LexRun OutOfFuel => [out_of_fuel_tok]
  | LexRun (AllocFail _) => [err_tok0 E103]
  | LexRun (Done toks _ _ _) => toks
  end.

(* how many EndOfSource tokens follow the tokens of [lex_delta] in the buffer *)
Definition num_end_tokens_with (push : dacc -> N -> dacc) (src : list N) : N :=
  match lex_result_with push src with
  | LexRun (Done _ _ _ _) => 2
  | _ => 0
  end.

(* location of the EndOfSource tokens: (start = end, line_number, line_offset) *)
Definition end_location_with (push : dacc -> N -> dacc) (src : list N) : option (N * N * N) :=
  match lex_result_with push src with
  | LexRun (Done _ ln sol _) => Some (lenN src, ln, lenN src - sol)
  | _ => None
  end.

(* an overflow-checked build panics ("attempt to add with overflow") on [src];
   an unchecked build silently produces the wrapped value modelled above *)
Definition would_overflow_panic_with (push : dacc -> N -> dacc) (src : list N) : bool :=
  match lex_result_with push src with
  | LexRun (AllocFail p) => p
  | LexRun (Done _ _ _ p) => p
  | _ => false
  end.

(* ---- the CURRENT lexer ----------------------------------------------------- *)
Definition lex_result := lex_result_with dec_push.
Definition lex_delta : list N -> list tok := lex_delta_with dec_push.
Definition num_end_tokens : list N -> N := num_end_tokens_with dec_push.
Definition end_location : list N -> option (N * N * N) := end_location_with dec_push.
(* kept for API compatibility: since the repair no arithmetic of the lexer can overflow,
   this is provably constant false (LexDeltaProofs.would_overflow_panic_never) *)
Definition would_overflow_panic : list N -> bool := would_overflow_panic_with dec_push.

(* ---- the PINNED lexer (unchecked add in the decimal arm), kept for the refutation
   lemmas and for regression tests against the old binary ---------------------- *)
Definition lex_delta_pinned : list N -> list tok := lex_delta_with dec_push_pinned.
Definition would_overflow_panic_pinned : list N -> bool := would_overflow_panic_with dec_push_pinned.
