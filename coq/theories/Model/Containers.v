(* Model of the container-dependency machinery (property C11):
   "top-level declarations are order-independent; constants/structures that
   depend on themselves are rejected".

   Mirrors, in /repo/src/alpha/scoper/variable_references.rs:
     struct Container                      -> [container] (+ [dcont] for the depth pass)
     declare_constant / declare_struct     -> [init] (predeclaration pushes an empty container)
     found_container_1                     -> [found1]
     found_container / use_containee       -> produce the edge sequence consumed by [process]
     determine_container_depths            -> [depth_loop], [depths]
     obtain_container_depth                -> [depth_of]
   and in /repo/src/alpha/scoper.rs + /repo/src/alpha.rs:
     get_container_depth(x, u32::MAX)      -> [sort_key]
     is_container                          -> [is_container]
     Compiler::analyze_and_resolve         -> [stable_sort], [sorted]

   Executable definitions only.  HashSet<u32> is modelled by [list N] read up to
   membership ([mem_name]); the only non-membership observation the code makes is
   [is_empty], which for a list is "= []" whatever the duplicates.
   `expect("... must be predeclared")` panics are modelled by the result [Panic]. *)
From PV Require Import Base.Common.

Definition E413 : code := 413%N. (* CyclicalConstant *)
Definition E415 : code := 415%N. (* CyclicalStructure *)
Definition E416 : code := 416%N. (* CyclicalStructureWithConstant *)

(* ---- sets of resolution ids ------------------------------------------------ *)

Definition set_union (a b : list N) : list N :=
  a ++ filter (fun x => negb (mem_name x a)) b.

Definition set_insert (x : N) (a : list N) : list N :=
  if mem_name x a then a else a ++ [x].

Definition set_diff (a b : list N) : list N :=
  filter (fun x => negb (mem_name x b)) a.

(* ---- struct Container (depth is kept apart, see [dcont]) -------------------- *)

Record container : Type := mkC {
  c_id : N;              (* identifier.resolution_id *)
  c_ids : list N;        (* contained_ids *)
  c_struct : bool        (* is_structure *)
}.

Definition state := list container.   (* Analyzer.containers, predeclaration order *)

(* predeclare: declare_constant / declare_struct push an empty container. *)
Definition init (cs : list (N * bool)) : state :=
  map (fun p => mkC (fst p) [] (snd p)) cs.

(* containers.iter().find(|x| x.identifier.resolution_id == id) *)
Fixpoint find_c (id : N) (st : state) : option container :=
  match st with
  | [] => None
  | c :: rest => if N.eqb (c_id c) id then Some c else find_c id rest
  end.

(* containers.iter_mut().find(..) followed by `container.contained_ids = ids` *)
Fixpoint update_first (id : N) (ids : list N) (st : state) : state :=
  match st with
  | [] => []
  | c :: rest =>
      if N.eqb (c_id c) id then mkC (c_id c) ids (c_struct c) :: rest
      else c :: update_first id ids rest
  end.

(* for other in &mut self.containers
     { if other.contained_ids.contains(&container_id) { other.contained_ids |= transitive_ids } } *)
Definition propagate1 (cid : N) (tr : list N) (o : container) : container :=
  if mem_name cid (c_ids o) then mkC (c_id o) (set_union (c_ids o) tr) (c_struct o) else o.

Definition propagate (cid : N) (tr : list N) (st : state) : state :=
  map (propagate1 cid tr) st.

Inductive result : Type :=
| Ok                (* Ok(name_of_containee) *)
| Poisoned          (* Err(Poison::Poisoned): the container already contains itself *)
| Err (c : code)    (* Err(Poison::Error(..)) *)
| Panic.            (* expect("containee/container must be predeclared") *)

(* Which error: name_of_member = Some(..) (structure member) looks for a constant
   among the ids of `cycle = container.contained_ids` (the WHOLE contained set of
   the container after the union, not just the ids on the cycle). *)
Definition cycle_code (via_member : bool) (cycle : list N) (st : state) : code :=
  if via_member then
    if existsb (fun x => negb (c_struct x) && mem_name (c_id x) cycle) st
    then E416 else E415
  else E413.

(* found_container_1(name_of_container, name_of_member, name_of_containee);
   [via_member] = name_of_member.is_some(). *)
Definition found1 (via_member : bool) (cid eid : N) (st : state) : state * result :=
  match find_c eid st with
  | None => (st, Panic)
  | Some e =>
      let tr := set_insert eid (c_ids e) in
      match find_c cid st with
      | None => (st, Panic)
      | Some c =>
          if mem_name cid (c_ids c) then (st, Poisoned)
          else
            let ids' := set_union (c_ids c) tr in
            let st1 := update_first cid ids' st in
            if mem_name cid ids' then (st1, Err (cycle_code via_member ids' st1))
            else (propagate cid tr st1, Ok)
      end
  end.

(* An edge: (container, containee, via a structure member?). *)
Definition edge : Type := (N * N * bool)%type.

(* The analysis pass: every declaration, in source order, produces a sequence of
   found_container_1 calls; one result per call. *)
Fixpoint process (edges : list edge) (st : state) : state * list result :=
  match edges with
  | [] => (st, [])
  | (c, e, m) :: rest =>
      let '(st1, r) := found1 m c e st in
      let '(st2, rs) := process rest st1 in
      (st2, r :: rs)
  end.

Definition codes_of (rs : list result) : list code :=
  flat_map (fun r => match r with Err c => [c] | _ => [] end) rs.

(* ---- determine_container_depths -------------------------------------------- *)

Record dcont : Type := mkD {
  d_id : N;
  d_rem : list N;          (* contained_ids, shrinking *)
  d_depth : option N       (* None = depth.is_none(); at the end: Poisoned *)
}.

Definition is_ready (d : dcont) : bool :=
  match d_depth d, d_rem d with
  | None, [] => true
  | _, _ => false
  end.

Definition mark (k : N) (d : dcont) : dcont :=
  if is_ready d then mkD (d_id d) (d_rem d) (Some k) else d.

Definition resolved_ids (ds : list dcont) : list N := map d_id (filter is_ready ds).

Definition subtract (res : list N) (d : dcont) : dcont :=
  mkD (d_id d) (set_diff (d_rem d) res) (d_depth d).

(* for depth in 0..len { mark; if resolved.is_empty() { break }; subtract } *)
Fixpoint depth_loop (fuel : nat) (k : N) (ds : list dcont) : list dcont :=
  match fuel with
  | O => ds
  | S f =>
      let res := resolved_ids ds in
      let ds1 := map (mark k) ds in
      match res with
      | [] => ds1
      | _ :: _ => depth_loop f (N.succ k) (map (subtract res) ds1)
      end
  end.

(* None = Some(Err(Poison::Poisoned)): never resolved. *)
Definition depths (st : state) : list (N * option N) :=
  map (fun d => (d_id d, d_depth d))
      (depth_loop (length st) 0%N (map (fun c => mkD (c_id c) (c_ids c) None) st)).

(* obtain_container_depth: first container with that id; None also when absent. *)
Fixpoint depth_of (id : N) (dm : list (N * option N)) : option N :=
  match dm with
  | [] => None
  | (i, d) :: rest => if N.eqb i id then d else depth_of id rest
  end.

(* ---- analyze_and_resolve: stable sort by depth, partition ------------------- *)

Inductive kind : Type :=
| KContainer     (* Declaration::Constant / Declaration::Structure *)
| KFunction.     (* Function, FunctionHead, Import, Poison: depth None *)

Definition decl : Type := (N * kind)%type.

Definition U32MAX : N := 4294967295%N.

(* scoper::get_container_depth(x, u32::MAX), with the depth field filled in by
   postanalyze from obtain_container_depth. *)
Definition sort_key (dm : list (N * option N)) (d : decl) : N :=
  match snd d with
  | KFunction => U32MAX
  | KContainer => match depth_of (fst d) dm with Some k => k | None => U32MAX end
  end.

Definition is_container (dm : list (N * option N)) (d : decl) : bool :=
  N.ltb (sort_key dm d) U32MAX.

(* sort_by_key is a stable sort; the result of a stable sort is unique, so a
   stable insertion sort is a faithful model of the result. *)
Fixpoint insert_by (key : decl -> N) (x : decl) (l : list decl) : list decl :=
  match l with
  | [] => [x]
  | y :: rest => if N.leb (key x) (key y) then x :: y :: rest else y :: insert_by key x rest
  end.

Fixpoint stable_sort (key : decl -> N) (l : list decl) : list decl :=
  match l with
  | [] => []
  | x :: rest => insert_by key x (stable_sort key rest)
  end.

(* partition_point(pred) on a list partitioned by pred = length of the longest
   prefix satisfying pred. *)
Fixpoint partition_point (p : decl -> bool) (l : list decl) : nat :=
  match l with
  | [] => O
  | x :: rest => if p x then S (partition_point p rest) else O
  end.

(* (containers, functions) of analyze_and_resolve *)
Definition sorted (dm : list (N * option N)) (ds : list decl) : list decl * list decl :=
  let s := stable_sort (sort_key dm) ds in
  let k := partition_point (is_container dm) s in
  (firstn k s, skipn k s).

(* The whole pipeline on abstract input. *)
Definition run (cs : list (N * bool)) (edges : list edge) : list (N * option N) * list code :=
  let '(st, rs) := process edges (init cs) in (depths st, codes_of rs).

(* ---- Specification (executable part) --------------------------------------- *)

(* contained set of an id in a state *)
Definition orig (st : state) (x : N) : list N :=
  match find_c x st with Some c => c_ids c | None => [] end.

Definition sup (l : list N) : N := fold_right N.max 0%N l.

(* height of x: 0 if it contains nothing, else 1 + max height of what it contains *)
Fixpoint Hf (st : state) (fuel : nat) (x : N) : N :=
  match fuel with
  | O => 0%N
  | S f => sup (map (fun e => N.succ (Hf st f e)) (orig st x))
  end.

Definition height (st : state) (x : N) : N := Hf st (length st) x.
