(* Type legality per declaration position (property C11: invalid or misplaced types
   E350-E359, non-ABI types in `extern` signatures E358).

   Executable definitions only.  Sources mirrored:

   src/alpha/lexer.rs
     [prim]                      the fourteen `Token::Type(..)` keywords
   src/alpha/value_type.rs
     [vty]                       enum ValueType (all 25 variants; the 14 primitive ones
                                 are [VPrim k])
     [known_size_in_bytes_as_word_member]
     [can_be_element] [is_wellformed_inner] [is_wellformed_element] [is_wellformed]
                                 (the Rust functions are mutually recursive through
                                 `_ => self.is_wellformed()` in is_wellformed_inner; that
                                 arm is only reached by the primitive / Struct / Word /
                                 UnresolvedStructOrWord variants, for which
                                 is_wellformed answers `true`; the model inlines that)
     [can_be_sized] [can_be_struct_member] [can_be_word_member] [can_be_constant]
     [can_be_variable] [can_be_parameter] [can_be_returned]
   src/alpha/parser.rs
     [sty] [parse_type]          fn parse_inner_type (the grammar of written types and
                                 the ValueType each form parses to)
     [parse_wellformed_type]     fn parse_wellformed_type (E350 IllegalType)
   src/alpha/scoper/variable_references.rs, src/alpha/typer.rs
     [typed_type]                fn analyze_type of the scoper followed by fn analyze_type
                                 of the typer: identifiers become Struct / Word, an array
                                 with a named length becomes an Array
   src/alpha/typer.rs
     [fixctx] [fixres] [externalize_type] [fix_type_for_flags]
                                 (as repaired by commit df9eac4; the code of the pinned
                                 commit is [externalize_type_pinned]
                                 [fix_type_for_flags_pinned], and [legal_outcome_pinned]
                                 is the front end built on it)
     [declare_constant]          fn declare, arm Declaration::Constant  (E353, line 684)
     [analyze_parameter]         analyze_and_fix of a function parameter (E354, line 1145)
     [analyze_member]            analyze_and_fix of a structure member    (E356, line 1087)
     [align_single_member]       Typer::align_struct, through PV.Model.Layout (E380)
     [fix_return_type_for_flags] fn fix_return_type_for_flags          (E351, line 3277)
     [analyze_sizeof]            Expression::SizeOf arm                (E359, line 1945)
   src/alpha/analyzer/function_calls.rs
     [analyze_variable]          Statement::Declaration arm            (E352)
   src/alpha/error.rs (Error::code)
     E350 E351 E352 E353 E354 E356 E358 E359 (E380 is PV.Model.Layout.E380)

   What is modelled: a module that declares whatever the written type mentions (one
   structure, one word, one `usize` constant) plus ONE declaration using the type at
   the position; [legal_outcome] is the list of codes the front end (parser ..
   resolver) reports for it, or the `assert!` that fails.

   What is abstracted:
   * name resolution: [SStruct id], [SWord id bytes], [SArrayNamed c len t] say what the
     identifier is declared as (undeclared / cyclic names are the scoper's business,
     E402/E405/E41x, other properties);
   * the initialiser of a constant and the body of a function: the codes are those of
     the TYPE at its position (a constant of pointer or view type has no well-typed
     initialiser in the language; the tie projects those cases on E350-E359);
   * `pub` is carried by the position because the flags are one EnumSet, but nothing
     in the type rules looks at it ([legal_outcome_pub_irrelevant]);
   * a failing `assert!` is [OPanic line] (line of typer.rs); as a code list it is the
     pseudo code [E_PANIC].  With the repaired code no assertion can fail
     (TypeLegalProofs.legal_never_panics); with the pinned code `extern fn f(x: [][]i32);`
     fails the one at typer.rs:1145. *)
From PV Require Import Base.Common.
From PV Require Model.Layout.

Definition E350 : code := 350%N.   (* IllegalType *)
Definition E351 : code := 351%N.   (* IllegalReturnType *)
Definition E352 : code := 352%N.   (* IllegalVariableType *)
Definition E353 : code := 353%N.   (* IllegalConstantType *)
Definition E354 : code := 354%N.   (* IllegalParameterType *)
Definition E356 : code := 356%N.   (* IllegalMemberType *)
Definition E358 : code := 358%N.   (* TypeNotAllowedInExtern *)
Definition E359 : code := 359%N.   (* TypeLacksKnownSize *)
Definition E_PANIC : code := 9999%N.

(* ---- Types ---------------------------------------------------------------- *)

Inductive prim : Type :=
| KVoid | KInt8 | KInt16 | KInt32 | KInt64 | KInt128
| KUint8 | KUint16 | KUint32 | KUint64 | KUint128 | KUsize | KChar8 | KBool.

(* Written types (parser.rs parse_inner_type). *)
Inductive sty : Type :=
| SPrim (k : prim)                            (* void i8 .. bool *)
| SStruct (id : name)                         (* NAME, declared `struct NAME` *)
| SWord (id : name) (bytes : N)               (* NAME, declared `word<8*bytes> NAME` *)
| SPtr (t : sty)                              (* &T *)
| SView (t : sty)                             (* (T) *)
| SSlice (t : sty)                            (* [:]T *)
| SEndless (t : sty)                          (* [..]T *)
| SArraylike (t : sty)                        (* []T *)
| SArray (len : N) (t : sty)                  (* [LEN]T *)
| SArrayNamed (c : name) (len : N) (t : sty). (* [NAME]T, declared `const NAME: usize = LEN` *)

(* enum ValueType *)
Inductive vty : Type :=
| VPrim (k : prim)
| VArray (e : vty) (len : N)
| VArrayNamed (e : vty) (c : name)
| VSlice (e : vty)
| VSlicePointer (e : vty)
| VEndless (e : vty)
| VArraylike (e : vty)
| VStruct (id : name)
| VWord (id : name) (bytes : N)
| VUnresolved (id : option name)
| VPointer (d : vty)
| VView (d : vty).

(* ---- value_type.rs ------------------------------------------------------------ *)

Definition known_size_in_bytes_as_word_member (t : vty) : option N :=
  match t with
  | VPrim KInt8 | VPrim KUint8 | VPrim KChar8 | VPrim KBool => Some 1%N
  | VPrim KInt16 | VPrim KUint16 => Some 2%N
  | VPrim KInt32 | VPrim KUint32 => Some 4%N
  | VPrim KInt64 | VPrim KUint64 => Some 8%N
  | VPrim KInt128 | VPrim KUint128 => Some 16%N
  | VWord _ bytes => Some bytes
  | _ => None
  end.

Definition can_be_element (t : vty) : bool :=
  match t with
  | VPrim KVoid => false
  | VSlice _ | VSlicePointer _ | VEndless _ | VView _ => false
  | _ => true
  end.

Fixpoint is_wellformed_inner (t : vty) : bool :=
  match t with
  | VPrim KVoid => false
  | VArray e _ | VArrayNamed e _ | VEndless e | VArraylike e =>
      can_be_element e && is_wellformed_inner e
  | VSlice _ | VSlicePointer _ | VView _ => false
  | VPointer d => is_wellformed_inner d
  | VPrim _ | VStruct _ | VWord _ _ | VUnresolved _ => true
  end.

Definition is_wellformed_element (t : vty) : bool :=
  can_be_element t && is_wellformed_inner t.

Definition is_wellformed (t : vty) : bool :=
  match t with
  | VArray e _ | VArrayNamed e _ | VSlice e | VSlicePointer e | VEndless e | VArraylike e =>
      is_wellformed_element e
  | VPointer d | VView d => is_wellformed_inner d
  | VPrim _ | VStruct _ | VWord _ _ | VUnresolved _ => true
  end.

Definition can_be_sized (t : vty) : bool :=
  match t with
  | VPrim KVoid => false
  | VSlice _ | VSlicePointer _ | VEndless _ | VArraylike _ | VView _ => false
  | _ => true
  end.

Definition can_be_struct_member (t : vty) : bool :=
  match t with
  | VPrim KVoid => false
  | VSlice _ | VSlicePointer _ | VEndless _ | VArraylike _ | VView _ => false
  | _ => is_wellformed t
  end.

Definition can_be_word_member (t : vty) : bool :=
  can_be_struct_member t
  && match known_size_in_bytes_as_word_member t with Some _ => true | None => false end.

Definition can_be_constant (t : vty) : bool :=
  match t with
  | VPrim KVoid => false
  | VSlice _ | VSlicePointer _ | VEndless _ | VArraylike _ => false
  | _ => is_wellformed t
  end.

Definition can_be_variable (t : vty) : bool :=
  match t with
  | VPrim KVoid => false
  | VSlicePointer _ | VEndless _ | VArraylike _ | VView _ => false
  | _ => is_wellformed t
  end.

Definition can_be_parameter (t : vty) : bool :=
  match t with
  | VPrim KVoid => false
  | VArray _ _ | VArrayNamed _ _ | VEndless _ | VArraylike _ | VStruct _ => false
  | _ => is_wellformed t
  end.

Definition can_be_returned (t : vty) : bool :=
  match t with
  | VArray _ _ | VArrayNamed _ _ | VSlice _ | VSlicePointer _ | VEndless _ | VArraylike _
  | VStruct _ | VUnresolved _ | VView _ => false
  | _ => is_wellformed t
  end.

(* ---- parser.rs ---------------------------------------------------------------- *)

Fixpoint parse_type (t : sty) : vty :=
  match t with
  | SPrim k => VPrim k
  | SStruct id => VUnresolved (Some id)
  | SWord id _ => VUnresolved (Some id)
  | SPtr d => VPointer (parse_type d)
  | SView d => VView (parse_type d)
  | SSlice e => VSlice (parse_type e)
  | SEndless e => VEndless (parse_type e)
  | SArraylike e => VArraylike (parse_type e)
  | SArray len e => VArray (parse_type e) len
  | SArrayNamed c _ e => VArrayNamed (parse_type e) c
  end.

(* Ok(value_type) / Err(IllegalType) *)
Definition parse_wellformed_type (t : sty) : option vty :=
  let v := parse_type t in if is_wellformed v then Some v else None.

(* ---- scoper + typer analyze_type ----------------------------------------------- *)

Fixpoint typed_type (t : sty) : vty :=
  match t with
  | SPrim k => VPrim k
  | SStruct id => VStruct id
  | SWord id bytes => VWord id bytes
  | SPtr d => VPointer (typed_type d)
  | SView d => VView (typed_type d)
  | SSlice e => VSlice (typed_type e)
  | SEndless e => VEndless (typed_type e)
  | SArraylike e => VArraylike (typed_type e)
  | SArray len e => VArray (typed_type e) len
  | SArrayNamed _ len e => VArray (typed_type e) len
  end.

(* ---- typer.rs: fix_type_for_flags / externalize_type -------------------------- *)

Inductive fixctx : Type := FixConst | FixMember | FixParameter | FixReturned.

(* Result<ValueType, Error>, plus the failing assertion of externalize_type *)
Inductive fixres : Type :=
| FOk (t : vty)
| FErr (c : code)
| FPanic (line : N).

Definition fix_map (f : vty -> vty) (r : fixres) : fixres :=
  match r with FOk t => FOk (f t) | other => other end.

(* the primitives externalize_type lets through: Int128, Uint128, Bool (and Void) are
   "not ok" *)
Definition prim_abi (k : prim) : bool :=
  match k with
  | KInt8 | KInt16 | KInt32 | KInt64 | KUint8 | KUint16 | KUint32 | KUint64 | KUsize | KChar8 => true
  | KVoid | KInt128 | KUint128 | KBool => false
  end.

(* -- the pinned commit: every Arraylike becomes an EndlessArray, also one that is the
   element of an Arraylike (the result is then ill-formed) *)
Fixpoint externalize_type_pinned (t : vty) : fixres :=
  if negb (is_wellformed t) then FPanic 3362%N else
  match t with
  | VArraylike e => fix_map VEndless (externalize_type_pinned e)
  | VPointer d => fix_map VPointer (externalize_type_pinned d)
  | VView d => fix_map VView (externalize_type_pinned d)
  | VPrim k => if prim_abi k then FOk t else FErr E358
  | _ => FErr E358
  end.

Definition fix_plain (t : vty) (ctx : fixctx) : fixres :=
  match t with
  | VArraylike e => FOk (VSlice e)
  | VStruct _ =>
      match ctx with
      | FixParameter | FixReturned => FOk (VView t)
      | FixConst | FixMember => FOk t
      end
  | VPointer (VArraylike e) => FOk (VSlicePointer e)
  | _ => FOk t
  end.

Definition fix_type_for_flags_pinned (t : vty) (ctx : fixctx) (is_extern : bool) : fixres :=
  if is_extern then
    match t with
    | VArraylike e => fix_map (fun e' => VView (VEndless e')) (externalize_type_pinned e)
    | _ => externalize_type_pinned t
    end
  else fix_plain t ctx.

(* -- the repaired code (df9eac4): an Arraylike whose externalized element is an
   EndlessArray is E358; the top-level Arraylike goes through externalize_type as a
   whole and is wrapped in a View *)
Fixpoint externalize_type (t : vty) : fixres :=
  if negb (is_wellformed t) then FPanic 3360%N else
  match t with
  | VArraylike e =>
      match externalize_type e with
      | FOk (VEndless _) => FErr E358
      | FOk e' => FOk (VEndless e')
      | other => other
      end
  | VPointer d => fix_map VPointer (externalize_type d)
  | VView d => fix_map VView (externalize_type d)
  | VPrim k => if prim_abi k then FOk t else FErr E358
  | _ => FErr E358
  end.

Definition fix_type_for_flags (t : vty) (ctx : fixctx) (is_extern : bool) : fixres :=
  if is_extern then
    match t with
    | VArraylike _ => fix_map VView (externalize_type t)
    | _ => externalize_type t
    end
  else fix_plain t ctx.

(* ---- positions ---------------------------------------------------------------- *)

Record dflags : Type := { f_pub : bool; f_extern : bool }.

Inductive position : Type :=
| PVariable                               (* var x: T;             in a function body *)
| PSizeOf                                 (* |:T|                   in a function body *)
| PConstant (fl : dflags)                 (* const X: T = ..; *)
| PParameter (fl : dflags)                (* fn f(x: T) *)
| PReturn (fl : dflags)                   (* fn f() -> T *)
| PStructMember (fl : dflags)             (* struct X { m: T } *)
| PWordMember (bytes : N) (fl : dflags).  (* word<8*bytes> X { m: T } *)

Inductive outcome : Type :=
| OCodes (cs : list code)
| OPanic (line : N).

(* `Ok(vt) if legal => accept; Ok(vt) => { assert!(vt.is_wellformed()); Err(code) }` *)
Definition judge (is_legal : bool) (vt : vty) (c : code) (assert_line : N) : outcome :=
  if is_legal then OCodes []
  else if is_wellformed vt then OCodes [c] else OPanic assert_line.

Definition analyze_variable (v : vty) : outcome :=
  if can_be_variable v then OCodes [] else OCodes [E352].

Definition analyze_sizeof (v : vty) : outcome := judge (can_be_sized v) v E359 1945%N.

(* the part of each declaration arm that follows the call of fix_type_for_flags *)
Definition constant_fixed (r : fixres) : outcome :=
  match r with
  | FOk vt => judge (can_be_constant vt) vt E353 684%N
  | FErr c => OCodes [c]
  | FPanic l => OPanic l
  end.

Definition parameter_fixed (r : fixres) : outcome :=
  match r with
  | FOk vt => judge (can_be_parameter vt) vt E354 1145%N
  | FErr c => OCodes [c]
  | FPanic l => OPanic l
  end.

Definition returned_fixed (r : fixres) : outcome :=
  match r with
  | FOk vt => judge (can_be_returned vt) vt E351 3277%N
  | FErr c => OCodes [c]
  | FPanic l => OPanic l
  end.

Definition declare_constant (fl : dflags) (v : vty) : outcome :=
  constant_fixed (fix_type_for_flags v FixConst (f_extern fl)).

Definition analyze_parameter (fl : dflags) (v : vty) : outcome :=
  parameter_fixed (fix_type_for_flags v FixParameter (f_extern fl)).

Definition fix_return_type_for_flags (fl : dflags) (v : vty) : outcome :=
  match v with
  | VPrim KVoid => OCodes []
  | _ => returned_fixed (fix_type_for_flags v FixReturned (f_extern fl))
  end.

(* which Layout.pvt the word-size computation sees *)
Definition to_pvt (t : vty) : Layout.pvt :=
  match t with
  | VPrim KInt8 => Layout.PInt8 | VPrim KInt16 => Layout.PInt16 | VPrim KInt32 => Layout.PInt32
  | VPrim KInt64 => Layout.PInt64 | VPrim KInt128 => Layout.PInt128
  | VPrim KUint8 => Layout.PUint8 | VPrim KUint16 => Layout.PUint16 | VPrim KUint32 => Layout.PUint32
  | VPrim KUint64 => Layout.PUint64 | VPrim KUint128 => Layout.PUint128
  | VPrim KChar8 => Layout.PChar8 | VPrim KBool => Layout.PBool
  | VWord _ bytes => Layout.PWord (Z.of_N bytes)
  | _ => Layout.POther
  end.

(* Typer::align_struct of a word with this one (accepted) member *)
Definition align_single_member (declared : N) (vt : vty) : list code :=
  Layout.align_struct_word (Z.of_N declared) [to_pvt vt].

(* in_word = Some declared size *)
Definition member_fixed (in_word : option N) (r : fixres) : outcome :=
  match r with
  | FOk vt =>
      match in_word with
      | Some declared =>
          match judge (can_be_word_member vt) vt E356 1087%N with
          | OCodes [] => OCodes (align_single_member declared vt)
          | other => other
          end
      | None => judge (can_be_struct_member vt) vt E356 1087%N
      end
  | FErr c => OCodes [c]
  | FPanic l => OPanic l
  end.

Definition analyze_member (in_word : option N) (fl : dflags) (v : vty) : outcome :=
  member_fixed in_word (fix_type_for_flags v FixMember (f_extern fl)).

(* ---- the whole front end on a one-declaration module ---------------------------- *)

Definition legal_outcome (p : position) (t : sty) : outcome :=
  match parse_wellformed_type t with
  | None => OCodes [E350]
  | Some _ =>
      let v := typed_type t in
      match p with
      | PVariable => analyze_variable v
      | PSizeOf => analyze_sizeof v
      | PConstant fl => declare_constant fl v
      | PParameter fl => analyze_parameter fl v
      | PReturn fl => fix_return_type_for_flags fl v
      | PStructMember fl => analyze_member None fl v
      | PWordMember bytes fl => analyze_member (Some bytes) fl v
      end
  end.

Definition codes_of (o : outcome) : list code :=
  match o with
  | OCodes cs => cs
  | OPanic _ => [E_PANIC]
  end.

Definition legal (p : position) (t : sty) : list code := codes_of (legal_outcome p t).

(* ---- the same with the code of the pinned commit ------------------------------- *)

Definition legal_outcome_pinned (p : position) (t : sty) : outcome :=
  match parse_wellformed_type t with
  | None => OCodes [E350]
  | Some _ =>
      let v := typed_type t in
      match p with
      | PVariable => analyze_variable v
      | PSizeOf => analyze_sizeof v
      | PConstant fl => constant_fixed (fix_type_for_flags_pinned v FixConst (f_extern fl))
      | PParameter fl => parameter_fixed (fix_type_for_flags_pinned v FixParameter (f_extern fl))
      | PReturn fl =>
          match v with
          | VPrim KVoid => OCodes []
          | _ => returned_fixed (fix_type_for_flags_pinned v FixReturned (f_extern fl))
          end
      | PStructMember fl => member_fixed None (fix_type_for_flags_pinned v FixMember (f_extern fl))
      | PWordMember bytes fl =>
          member_fixed (Some bytes) (fix_type_for_flags_pinned v FixMember (f_extern fl))
      end
  end.

Definition legal_pinned (p : position) (t : sty) : list code := codes_of (legal_outcome_pinned p t).
