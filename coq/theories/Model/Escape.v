(* Model of how the rebuilder prints string literals, import paths and
   character literals: /repo/src/alpha/rebuilder.rs, and the part of Rust's
   core library it calls.

   Executable definitions only.  Bytes and characters are [N]; the rebuilt text
   is a list of characters as [Model/LexAlpha.v] reads it (every character the
   definitions below produce is ASCII, so bytes and characters coincide and the
   [String::from_utf8_lossy(&escaped_bytes)] of the two arms is the identity:
   see [escape_default_ascii] in Proofs/EscapeProofs.v).

     hex_digit_lower     core::escape::HEX_DIGITS (the bytes 0123456789abcdef), indexed by
                         a nibble (library/core/src/escape.rs)
     escape_default      std::ascii::escape_default (core::escape::escape_ascii):
                         backslash + t, r, n, backslash, apostrophe, double quote for the bytes
                         9, 13, 10, 92, 39, 34; the byte itself for
                         0x20..=0x7e, \xHH with lowercase digits otherwise
     escape_bytes        [bytes.iter().flat_map(|b| std::ascii::escape_default( *b))
                         .collect()], rebuilder.rs lines 679-682
                         (Expression::StringLiteral) and 351-354 (Declaration::Import)
     rebuild_string      the format! of rebuilder.rs line 684: double quote, value, double quote
     rebuild_import      the format! of line 356: indentation, import, space, double quote,
                         value, double quote, semicolon, newline;
                         the path is [filename.bytes()], the
                         UTF-8 bytes of the String made by parser::parse_quoted_path
     lower_hex           the digits printed by the format {:x} for a u128: lowercase,
                         no leading zeros, a single 0 for zero
     rebuild_bit_integer Expression::BitIntegerLiteral, printed with the format {:#x},
                         rebuilder.rs lines 667-671
     rebuild_char        THERE IS NO CHARACTER-LITERAL ARM.  parser.rs line 1561 turns
                         Token::CharLiteral(value) into
                         Expression::BitIntegerLiteral { value: u128::from(value),
                         value_type: Some(Ok(ValueType::Char8)), .. } and the rebuilder
                         prints every BitIntegerLiteral with {:#x}, ignoring value_type:
                         the character literal 'A' is rebuilt as 0x41, without quotes
                         and without a suffix.
     rebuild_const_string  the line of Declaration::Constant for a constant named S of
                         type []char8 whose value is a string literal (rebuilder.rs
                         lines 151-157, no flags, depth 0, empty indentation):
                         [const S: []char8 = <literal>;] and the newline of writeln!

   NOT THE CODE (seeded mutant, used by a refutation lemma only):
     esc_step_mutant, str_loop_mutant, lex_quote_mutant, lex_step_mutant,
     lex_line_fuel_mutant, lex_alpha_mutant
                         the first-generation lexer with an escape step that accepts
                         backslash-quote only for the quote character that opened
                         the literal.

   Fuel: [lower_hex] runs with fuel 32 (a u128 has at most 32 hexadecimal digits);
   running out yields the empty digit string, which is never produced otherwise. *)
From PV Require Import Base.Common Base.IR Base.Tok Model.LexAlpha.

Local Open Scope N_scope.

(* ------------------------------------------------------------------ *)
(* std::ascii::escape_default *)

Definition hex_digit_lower (d : N) : N := if d <? 10 then 48 + d else 87 + d.

Definition escape_default (b : N) : list N :=
  if b =? 9 then [92; 116]                   (* \t *)
  else if b =? 13 then [92; 114]             (* \r *)
  else if b =? 10 then [92; 110]             (* \n *)
  else if b =? 92 then [92; 92]              (* \\ *)
  else if b =? 39 then [92; 39]              (* \' *)
  else if b =? 34 then [92; 34]              (* backslash double-quote *)
  else if (32 <=? b) && (b <=? 126) then [b]
  else [92; 120; hex_digit_lower (b / 16); hex_digit_lower (b mod 16)].   (* \xHH *)

Definition escape_bytes (bs : list N) : list N := flat_map escape_default bs.

(* ------------------------------------------------------------------ *)
(* Expression::StringLiteral and Declaration::Import *)

Definition rebuild_string (bs : list N) : list N := 34 :: escape_bytes bs ++ [34].

Definition rebuild_import (indentation path : list N) : list N :=
  indentation ++ [105; 109; 112; 111; 114; 116; 32] ++ rebuild_string path ++ [59; 10].
  (* import *)

Definition rebuild_const_string (bs : list N) : list N :=
  [99; 111; 110; 115; 116; 32; 83; 58; 32; 91; 93; 99; 104; 97; 114; 56; 32; 61; 32]
  ++ rebuild_string bs ++ [59; 10].
  (* const S: []char8 = *)

(* ------------------------------------------------------------------ *)
(* Expression::BitIntegerLiteral, which is what a character literal became *)

Fixpoint lower_hex_fuel (fuel : nat) (v : N) (acc : list N) : list N :=
  match fuel with
  | O => []
  | S f =>
      let acc' := hex_digit_lower (v mod 16) :: acc in
      if v / 16 =? 0 then acc' else lower_hex_fuel f (v / 16) acc'
  end.

Definition lower_hex (v : N) : list N := lower_hex_fuel 32 v [].

Definition rebuild_bit_integer (v : N) : list N := 48 :: 120 :: lower_hex v.

Definition rebuild_char (b : N) : list N := rebuild_bit_integer b.

(* ------------------------------------------------------------------ *)
(* NOT THE CODE: the seeded mutant.  Everything below copies LexAlpha.v except
   [esc_step_mutant], which rejects backslash-apostrophe inside a string literal and
   backslash-double-quote inside a character literal as an invalid escape sequence (the
   [Some((_, _y))] arm: E162, two characters). *)

Definition esc_step_mutant (q : N) (cs : list N) : list N * option Z * N * N * list N :=
  match cs with
  | c :: r =>
      if ((c =? 39) || (c =? 34)) && negb (c =? q) then ([], Some E162, 2, 1, r)
      else esc_step cs
  | [] => esc_step cs
  end.

Fixpoint str_loop_mutant (fuel : nat) (q p e : N) (cs : list N) : strres :=
  match cs with
  | [] => {| sr_bytes := []; sr_closed := false; sr_err := None;
             sr_soe := p; sr_eolo := e; sr_chars := 0; sr_rest := [] |}
  | x :: r =>
      match fuel with
      | O => {| sr_bytes := []; sr_closed := false; sr_err := Some (OOF, p, p, e);
                sr_soe := p; sr_eolo := e; sr_chars := 0; sr_rest := cs |}
      | S f =>
          if x =? 92 then
            let '(bs, er, adv, m, r') := esc_step_mutant q r in
            sr_cons bs
                    (match er with Some c => Some (c, p, p + adv, p + 1) | None => None end)
                    (1 + m) (str_loop_mutant f q (p + adv) (p + 1) r')
          else if x =? q then
            {| sr_bytes := []; sr_closed := true; sr_err := None;
               sr_soe := p + 1; sr_eolo := p + 1; sr_chars := 1; sr_rest := r |}
          else if x =? 32 then sr_cons [32] None 1 (str_loop_mutant f q (p + 1) (p + 1) r)
          else if is_ascii_graphic x then sr_cons [x] None 1 (str_loop_mutant f q (p + 1) (p + 1) r)
          else if is_ascii x then
            sr_cons [] (Some (E110, p, p + 1, p + 1)) 1 (str_loop_mutant f q (p + 1) (p + 1) r)
          else sr_cons (utf8 x) None 1 (str_loop_mutant f q (p + 1) (p + 1) r)
      end
  end.

Definition lex_quote_mutant (q : N) (rest : list N) : step :=
  let res := str_loop_mutant (length rest) q 1 1 rest in
  let first_error :=
    match sr_err res with
    | Some e => Some e
    | None => if sr_closed res then None else Some (E160, 0, sr_soe res, sr_eolo res)
    end in
  match first_error with
  | Some (c, es, ee, eo) => StStrErr c es ee eo (sr_soe res) (1 + sr_chars res) (sr_rest res)
  | None =>
      if q =? 34 then StTok KStringLiteral 0%Z None (sr_bytes res) (sr_soe res) (sr_rest res)
      else match sr_bytes res with
           | [b] => StTok KCharLiteral (Z.of_N b) None [] (sr_soe res) (sr_rest res)
           | _ => StTok KError E163 None [] (sr_soe res) (sr_rest res)
           end
  end.

(* No earlier arm of [lex_step] matches a quote character. *)
Definition lex_step_mutant (x : N) (rest : list N) : step :=
  if (x =? 34) || (x =? 39) then lex_quote_mutant x rest else lex_step x rest.

Fixpoint lex_line_fuel_mutant (fuel : nat) (ln sos lo : N) (cs : list N) : list tok :=
  match cs with
  | [] => []
  | x :: rest =>
      match fuel with
      | O => [mk KError OOF None [] sos sos ln lo]
      | S f =>
          match lex_step_mutant x rest with
          | StEnd => []
          | StSkip => lex_line_fuel_mutant f ln (sos + 1) (lo + 1) rest
          | StTok k v ty bs n rest' =>
              mk k v ty bs sos (sos + n) ln lo
              :: lex_line_fuel_mutant f ln (sos + n) (lo + n) rest'
          | StStrErr c es ee eo n m rest' =>
              mk KError c None [] (sos + es) (sos + ee) ln (lo + eo)
              :: lex_line_fuel_mutant f ln (sos + n) (lo + m) rest'
          end
      end
  end.

Fixpoint lex_lines_mutant (ls : list (list N)) (offset i : N) : list tok :=
  match ls with
  | [] => []
  | l :: r => lex_line_fuel_mutant (length l) (1 + i) offset 0 l
              ++ lex_lines_mutant r (offset + (len l + 1)) (i + 1)
  end.

Definition lex_alpha_mutant (src : list N) : list tok :=
  lex_lines_mutant (lines_of src) 0 0 ++ (if is_nil src then [zero_byte_tok] else []).
