(* Model of the mutability analyzer and of the aggregate-copy / missing-address
   checks of the first-generation compiler (property C08).

   Executable definitions only.  Sources mirrored:

   src/alpha/value_type.rs
     [mty]                       enum ValueType (integers collapsed to [MPrim tag])
     [mty_eqb]                   derived PartialEq
     [ty_equals]                 ValueType::equals (Char8 ~ Uint8 alias)
     [can_be_element] [is_wellformed_inner] [is_wellformed]
     [can_be_variable] [can_be_parameter] [can_be_struct_member]
     [pointer_depth] [can_coerce_address_into]
   src/alpha/common.rs
     [expr] [reference] [rstep]  Expression / Reference / ReferenceStep
                                 (DesliceOffset folded into three step constructors)
     [stmt] [decl] [param]       Statement / Declaration / Parameter
   src/alpha/analyzer/mutability.rs
     [menv] [declare_variable]   Analyzer.variables (HashMap<u32,(Identifier,bool)>), declare_variable
     [use_variable]              Analyzer::use_variable
     [needs_outer_mutability]    fn needs_outer_mutability
     [var_is_mutable]            the `is_mutable` match of Statement::Declaration
     [check_assignment]          Statement::Assignment arm (the use_variable call)
     [is_addressed] [check_address_taken]   Expression::Deref arm
     [mut_expr] [mut_ref] [mut_step] [mut_stmt] [mut_body] [mut_decl]
                                 the `impl Analyzable for ...` blocks
   src/alpha/analyzer/function_calls.rs
     [check_value_use]           Expression::Deref arm (CannotCopyArray/Slice/Struct)
     [fc_expr] [fc_stmt] [fc_body]
                                 the `impl Analyzable for ...` blocks; the only state
                                 is `is_immediate_function_argument`, threaded as a bool
     [fc_decl_type]              IllegalVariableType rewrite in Statement::Declaration
     [can_hint_missing_address] [argument_code] [use_function]
   src/alpha/typer.rs
     [strip_indirections] [get_element_type] [assignment_steps_fuel] [assignment_steps]
     [elaborate_assignment]      fn analyze_assignment_steps (how the chain of an
                                 assignment target is produced from the parsed steps)
   src/alpha/error.rs (Error::code)
     E352 E510 E511 E512 E513 E530 E531 E532 E533

   Specification-side definitions (not in the Rust code): [crosses_pointer] [writable]
   [final_access] [writable_strict] [step_type] [chain_type] [pointer_free] [mtab_ok]
   [deref_sites] [stmt_sites] [body_sites] [site_ok] [aggregate_code] [declared_vars]
   [source_chain_ok].

   What is abstracted:
   * a pass returns the codes IT adds (in tree order) instead of a rewritten tree;
     the rule "a failing node is replaced by Poison(error) and everything below it
     is dropped" is kept INSIDE a pass (see [mut_ref], [mut_stmt]); across passes it
     is not modelled (the real pipeline loses an E531 stored below an assignment
     that mutability.rs later replaces by Poison(E530));
   * `Poison::Poisoned` (no diagnostic, compilation still fails with an empty error
     list) is the pseudo code [E_SILENT] = 0;
   * IndexTypeMismatch (E503) of ReferenceStep::Element and the builtin arity
     checks are not modelled; a call whose [use_function] check fails is replaced
     by Poison(error) BEFORE its arguments reach mutability.rs: callers model that
     by substituting [EPoison] / [SOther]. *)
From PV Require Import Base.Common.

Definition E_SILENT : code := 0%N.
Definition E352 : code := 352%N.
Definition E510 : code := 510%N.
Definition E511 : code := 511%N.
Definition E512 : code := 512%N.
Definition E513 : code := 513%N.
Definition E530 : code := 530%N.
Definition E531 : code := 531%N.
Definition E532 : code := 532%N.
Definition E533 : code := 533%N.

(* ---- Types ---------------------------------------------------------------- *)

(* Primitive tags (declaration order of ValueType). *)
Definition prim_void : N := 0%N.
Definition prim_i32 : N := 3%N.
Definition prim_u8 : N := 6%N.
Definition prim_usize : N := 11%N.
Definition prim_char8 : N := 12%N.
Definition prim_bool : N := 13%N.

Inductive mty : Type :=
| MPrim (k : N)
| MArray (e : mty) (len : N)
| MArrayNamed (e : mty) (len : name)
| MSlice (e : mty)              (* []T as parameter / [:]T : view of an array *)
| MSlicePointer (e : mty)       (* &[]T *)
| MEndless (e : mty)            (* [...]T *)
| MArraylike (e : mty)          (* []T before fix_type_for_flags *)
| MStruct (id : name)
| MWord (id : name)
| MUnresolved
| MPointer (t : mty)            (* &T *)
| MView (t : mty).              (* (T) *)

(* Option<Poisonable<ValueType>> *)
Inductive pty : Type := PNone | PErr | POk (t : mty).

Fixpoint mty_eqb (a b : mty) {struct a} : bool :=
  match a, b with
  | MPrim x, MPrim y => N.eqb x y
  | MArray x n, MArray y m => N.eqb n m && mty_eqb x y
  | MArrayNamed x n, MArrayNamed y m => N.eqb n m && mty_eqb x y
  | MSlice x, MSlice y => mty_eqb x y
  | MSlicePointer x, MSlicePointer y => mty_eqb x y
  | MEndless x, MEndless y => mty_eqb x y
  | MArraylike x, MArraylike y => mty_eqb x y
  | MStruct x, MStruct y => N.eqb x y
  | MWord x, MWord y => N.eqb x y
  | MUnresolved, MUnresolved => true
  | MPointer x, MPointer y => mty_eqb x y
  | MView x, MView y => mty_eqb x y
  | _, _ => false
  end.

Definition prim_alias (x y : N) : bool :=
  (N.eqb x prim_char8 && N.eqb y prim_u8) || (N.eqb x prim_u8 && N.eqb y prim_char8).

Fixpoint ty_equals (a b : mty) {struct a} : bool :=
  match a, b with
  | MPrim x, MPrim y => N.eqb x y || prim_alias x y
  | MArray x n, MArray y m => N.eqb n m && ty_equals x y
  | MArrayNamed x n, MArrayNamed y m => N.eqb n m && ty_equals x y
  | MSlice x, MSlice y => ty_equals x y
  | MSlicePointer x, MSlicePointer y => ty_equals x y
  | MEndless x, MEndless y => ty_equals x y
  | MArraylike x, MArraylike y => ty_equals x y
  | MStruct x, MStruct y => N.eqb x y
  | MWord x, MWord y => N.eqb x y
  | MUnresolved, MUnresolved => true
  | MPointer x, MPointer y => ty_equals x y
  | MView x, MView y => ty_equals x y
  | _, _ => false
  end.

Definition is_void (t : mty) : bool :=
  match t with MPrim k => N.eqb k prim_void | _ => false end.

Definition can_be_element (t : mty) : bool :=
  match t with
  | MPrim k => negb (N.eqb k prim_void)
  | MSlice _ | MSlicePointer _ | MEndless _ | MView _ => false
  | _ => true
  end.

Fixpoint is_wellformed_inner (t : mty) : bool :=
  match t with
  | MPrim k => negb (N.eqb k prim_void)
  | MArray e _ | MArrayNamed e _ | MEndless e | MArraylike e =>
      can_be_element e && is_wellformed_inner e
  | MSlice _ | MSlicePointer _ | MView _ => false
  | MPointer d => is_wellformed_inner d
  | MStruct _ | MWord _ | MUnresolved => true
  end.

Definition is_wellformed (t : mty) : bool :=
  match t with
  | MArray e _ | MArrayNamed e _ | MSlice e | MSlicePointer e | MEndless e | MArraylike e =>
      can_be_element e && is_wellformed_inner e
  | MPointer d | MView d => is_wellformed_inner d
  | MPrim _ | MStruct _ | MWord _ | MUnresolved => true
  end.

Definition can_be_variable (t : mty) : bool :=
  match t with
  | MSlicePointer _ | MEndless _ | MArraylike _ | MView _ => false
  | _ => negb (is_void t) && is_wellformed t
  end.

Definition can_be_parameter (t : mty) : bool :=
  match t with
  | MArray _ _ | MArrayNamed _ _ | MEndless _ | MArraylike _ | MStruct _ => false
  | _ => negb (is_void t) && is_wellformed t
  end.

Definition can_be_struct_member (t : mty) : bool :=
  match t with
  | MSlice _ | MSlicePointer _ | MEndless _ | MArraylike _ | MView _ => false
  | _ => negb (is_void t) && is_wellformed t
  end.

Fixpoint pointer_depth (t : mty) : nat :=
  match t with
  | MPointer d => S (pointer_depth d)
  | MSlicePointer _ => 1
  | _ => 0
  end.

Definition can_coerce_address_into (a p : mty) : bool :=
  match a with
  | MArray x _ | MArrayNamed x _ =>
      match p with
      | MSlicePointer y => ty_equals x y
      | MPointer (MEndless y) => ty_equals x y
      | _ => false
      end
  | _ => false
  end.

(* ---- Syntax --------------------------------------------------------------- *)

Inductive expr : Type :=
| ELeaf                                  (* literals, StringLiteral, SizeOf *)
| EBinary (l r : expr)
| EUnary (e : expr)
| EArrayLit (es : list expr)
| EStructural (es : list expr)           (* member expressions in source order *)
| EParen (e : expr)
| EAutocoerce (e : expr)
| ECast (e : expr)                       (* BitCast, TypeCast *)
| EDeref (r : reference) (t : pty)       (* deref_type *)
| ELengthOf (r : reference)
| ECall (f : name) (args : list expr)    (* FunctionCall, builtin or not *)
| EPoison
with reference : Type :=
| Ref (base : option name) (steps : list rstep) (ad : N)  (* None: poisoned base *)
with rstep : Type :=
| Element (arg : expr)
| Member (m : name)
| Autoderef
| Autoview
| AutodesliceByView
| AutodesliceByPointer
| AutodesliceLength.

Definition r_base (r : reference) : option name := match r with Ref b _ _ => b end.
Definition r_steps (r : reference) : list rstep := match r with Ref _ s _ => s end.
Definition r_ad (r : reference) : N := match r with Ref _ _ a => a end.

Inductive stmt : Type :=
| SDeclaration (x : name) (value : option expr) (t : pty)
| SAssignment (r : reference) (value : expr)
| SMethodCall (f : name) (args : list expr)
| SIf (cl cr : expr) (th : stmt) (el : option stmt)
| SBlock (b : list stmt)
| SOther.                                 (* Loop, Goto, Label, Poison *)

Record param : Type := { p_name : option name; p_type : option mty }.

Record fbody : Type := { fb_statements : list stmt; fb_return : option expr }.

Inductive decl : Type :=
| DConstant (x : name) (t : option mty)
| DFunction (ps : list param) (body : option fbody)
| DFunctionHead (ps : list param)
| DStructure (members : list (option name))
| DOther.                                 (* Import, Poison *)

(* ---- mutability.rs -------------------------------------------------------- *)

Definition menv := list (name * bool).

Fixpoint lookup (v : menv) (x : name) : option bool :=
  match v with
  | [] => None
  | (y, m) :: rest => if N.eqb x y then Some m else lookup rest x
  end.

Definition declare_variable (v : menv) (x : name) (is_mutable : bool) : menv :=
  (x, is_mutable) :: v.

Inductive uv_result : Type := UvOk | UvError (c : code) | UvPoisoned.

Definition use_variable (v : menv) (base : option name) (is_mutated : bool) : uv_result :=
  match base with
  | Some x =>
      match lookup v x with
      | Some is_mutable => if is_mutated && negb is_mutable then UvError E530 else UvOk
      | None => UvPoisoned
      end
  | None => UvOk
  end.

Definition uv_codes (u : uv_result) : list code :=
  match u with UvOk => [] | UvError c => [c] | UvPoisoned => [E_SILENT] end.

Fixpoint needs_outer_mutability (ss : list rstep) : bool :=
  match ss with
  | [] => true
  | Autoderef :: _ => false
  | AutodesliceByPointer :: _ => false
  | _ :: rest => needs_outer_mutability rest
  end.

(* `is_mutable` of Statement::Declaration. *)
Definition var_is_mutable (t : pty) : bool :=
  match t with
  | POk (MSlice _) | POk (MSlicePointer _) | POk (MView _) => false
  | _ => true
  end.

Definition check_assignment (v : menv) (r : reference) : list code :=
  uv_codes (use_variable v (r_base r) (needs_outer_mutability (r_steps r))).

Definition is_addressed (r : reference) : bool :=
  N.ltb 0 (r_ad r) && needs_outer_mutability (r_steps r).

Definition check_address_taken (v : menv) (r : reference) : list code :=
  uv_codes (use_variable v (r_base r) (is_addressed r)).

Fixpoint mut_expr (v : menv) (e : expr) {struct e} : list code :=
  match e with
  | ELeaf | EPoison => []
  | EBinary l r => mut_expr v l ++ mut_expr v r
  | EUnary x | EParen x | EAutocoerce x | ECast x => mut_expr v x
  | EArrayLit es | EStructural es | ECall _ es =>
      (fix go (l : list expr) : list code :=
         match l with [] => [] | x :: xs => mut_expr v x ++ go xs end) es
  | EDeref r _ => mut_ref v r (is_addressed r)
  | ELengthOf r => mut_ref v r false
  end
with mut_ref (v : menv) (r : reference) (is_mutated : bool) {struct r} : list code :=
  match r with
  | Ref b ss _ =>
      match use_variable v b is_mutated with
      | UvOk =>
          (fix go (l : list rstep) : list code :=
             match l with [] => [] | s :: xs => mut_step v s ++ go xs end) ss
      | UvError c => [c]
      | UvPoisoned => [E_SILENT]
      end
  end
with mut_step (v : menv) (s : rstep) {struct s} : list code :=
  match s with
  | Element a => mut_expr v a
  | _ => []
  end.

Fixpoint mut_exprs (v : menv) (es : list expr) : list code :=
  match es with [] => [] | x :: xs => mut_expr v x ++ mut_exprs v xs end.

Fixpoint mut_steps (v : menv) (ss : list rstep) : list code :=
  match ss with [] => [] | s :: xs => mut_step v s ++ mut_steps v xs end.

Fixpoint mut_stmt (v : menv) (s : stmt) {struct s} : menv * list code :=
  match s with
  | SDeclaration x value t =>
      let c := match value with Some e => mut_expr v e | None => [] end in
      (declare_variable v x (var_is_mutable t), c)
  | SAssignment r value =>
      (v, match use_variable v (r_base r) (needs_outer_mutability (r_steps r)) with
          | UvOk => mut_expr v value ++ mut_steps v (r_steps r)
          | UvError c => [c]
          | UvPoisoned => [E_SILENT]
          end)
  | SMethodCall _ args => (v, mut_exprs v args)
  | SIf cl cr th el =>
      let c0 := mut_expr v cl ++ mut_expr v cr in
      let '(v1, c1) := mut_stmt v th in
      match el with
      | Some e => let '(v2, c2) := mut_stmt v1 e in (v2, c0 ++ c1 ++ c2)
      | None => (v1, c0 ++ c1)
      end
  | SBlock b =>
      (fix go (v : menv) (l : list stmt) : menv * list code :=
         match l with
         | [] => (v, [])
         | s :: rest =>
             let '(v1, c1) := mut_stmt v s in
             let '(v2, c2) := go v1 rest in (v2, c1 ++ c2)
         end) v b
  | SOther => (v, [])
  end.

Fixpoint mut_stmts (v : menv) (l : list stmt) : menv * list code :=
  match l with
  | [] => (v, [])
  | s :: rest =>
      let '(v1, c1) := mut_stmt v s in
      let '(v2, c2) := mut_stmts v1 rest in (v2, c1 ++ c2)
  end.

Definition mut_body (v : menv) (b : fbody) : menv * list code :=
  let '(v1, c1) := mut_stmts v (fb_statements b) in
  (v1, c1 ++ match fb_return b with Some e => mut_expr v1 e | None => [] end).

(* impl Analyzable for Parameter: `false || is_error`. *)
Definition declare_param (v : menv) (p : param) : menv :=
  match p_name p with
  | Some x => declare_variable v x (match p_type p with None => true | Some _ => false end)
  | None => v
  end.

Fixpoint declare_params (v : menv) (ps : list param) : menv :=
  match ps with [] => v | p :: rest => declare_params (declare_param v p) rest end.

(* impl Analyzable for Member: struct members are declared "mutable". *)
Fixpoint declare_members (v : menv) (ms : list (option name)) : menv :=
  match ms with
  | [] => v
  | Some x :: rest => declare_members (declare_variable v x true) rest
  | None :: rest => declare_members v rest
  end.

Definition mut_decl (v : menv) (d : decl) : menv * list code :=
  match d with
  | DConstant x t =>
      (declare_variable v x (match t with None => true | Some _ => false end), [])
  | DFunction ps body =>
      let v0 := declare_params v ps in
      match body with Some b => mut_body v0 b | None => (v0, []) end
  | DFunctionHead ps => (declare_params v ps, [])
  | DStructure ms => (declare_members v ms, [])
  | DOther => (v, [])
  end.

(* One Analyzer serves a whole module: the map is never cleared. *)
Fixpoint mut_program (v : menv) (ds : list decl) : menv * list code :=
  match ds with
  | [] => (v, [])
  | d :: rest =>
      let '(v1, c1) := mut_decl v d in
      let '(v2, c2) := mut_program v1 rest in (v2, c1 ++ c2)
  end.

(* ---- function_calls.rs ---------------------------------------------------- *)

Definition check_value_use (is_immediate_function_argument : bool) (t : pty) : list code :=
  match t with
  | POk (MArray _ _) | POk (MEndless _) =>
      if is_immediate_function_argument then [] else [E531]
  | POk (MSlice _) | POk (MSlicePointer _) | POk (MArraylike _) =>
      if is_immediate_function_argument then [] else [E532]
  | POk (MStruct _) =>
      if is_immediate_function_argument then [] else [E533]
  | _ => []
  end.

(* [imm] is Analyzer.is_immediate_function_argument on entry; the result carries its
   value on exit. *)
Fixpoint fc_expr (imm : bool) (e : expr) {struct e} : bool * list code :=
  match e with
  | ELeaf | EPoison => (imm, [])
  | EBinary l r =>
      let '(i1, c1) := fc_expr false l in
      let '(i2, c2) := fc_expr i1 r in (i2, c1 ++ c2)
  | EUnary x => fc_expr false x
  | EArrayLit es =>
      (fix go (i : bool) (l : list expr) : bool * list code :=
         match l with
         | [] => (i, [])
         | x :: xs =>
             let '(i1, c1) := fc_expr i x in
             let '(i2, c2) := go i1 xs in (i2, c1 ++ c2)
         end) false es
  | EStructural es =>
      (fix go (i : bool) (l : list expr) : bool * list code :=
         match l with
         | [] => (i, [])
         | x :: xs =>
             let '(i1, c1) := fc_expr i x in
             let '(i2, c2) := go i1 xs in (i2, c1 ++ c2)
         end) false es            (* the flag is cleared as for an array literal (repair of D79; the pinned
                                     commit passed [imm] on: a whole array was copied into a structure
                                     literal that is an argument) *)
  | EParen x | EAutocoerce x | ECast x => fc_expr imm x
  | EDeref r t =>
      let '(i1, c1) := fc_ref imm r in (i1, check_value_use imm t ++ c1)
  | ELengthOf r => fc_ref imm r
  | ECall _ args =>
      (false,
       (fix go (l : list expr) : list code :=
          match l with [] => [] | x :: xs => snd (fc_expr true x) ++ go xs end) args)
  end
with fc_ref (imm : bool) (r : reference) {struct r} : bool * list code :=
  match r with
  | Ref _ ss _ =>
      (fix go (i : bool) (l : list rstep) : bool * list code :=
         match l with
         | [] => (i, [])
         | s :: xs =>
             let '(i1, c1) := fc_step i s in
             let '(i2, c2) := go i1 xs in (i2, c1 ++ c2)
         end) imm ss
  end
with fc_step (imm : bool) (s : rstep) {struct s} : bool * list code :=
  match s with
  | Element a => fc_expr false a
  | _ => (imm, [])
  end.

Fixpoint fc_seq (imm : bool) (es : list expr) : bool * list code :=
  match es with
  | [] => (imm, [])
  | x :: xs =>
      let '(i1, c1) := fc_expr imm x in
      let '(i2, c2) := fc_seq i1 xs in (i2, c1 ++ c2)
  end.

Fixpoint fc_args (es : list expr) : list code :=
  match es with [] => [] | x :: xs => snd (fc_expr true x) ++ fc_args xs end.

Fixpoint fc_steps (imm : bool) (ss : list rstep) : bool * list code :=
  match ss with
  | [] => (imm, [])
  | s :: xs =>
      let '(i1, c1) := fc_step imm s in
      let '(i2, c2) := fc_steps i1 xs in (i2, c1 ++ c2)
  end.

(* Statement::Declaration: a declared/inferred type that cannot be a variable is
   replaced by Err(IllegalVariableType) BEFORE mutability.rs looks at it. *)
Definition fc_decl_type (t : pty) : pty * list code :=
  match t with
  | POk vt => if can_be_variable vt then (t, []) else (PErr, [E352])
  | _ => (t, [])
  end.

(* Every statement starts by clearing the flag; the result is the flag on exit. *)
Fixpoint fc_stmt (s : stmt) {struct s} : bool * list code :=
  match s with
  | SDeclaration _ value t =>
      let c0 := snd (fc_decl_type t) in
      match value with
      | Some e => let '(i1, c1) := fc_expr false e in (i1, c0 ++ c1)
      | None => (false, c0)
      end
  | SAssignment r value =>
      let '(i1, c1) := fc_ref false r in
      let '(i2, c2) := fc_expr i1 value in (i2, c1 ++ c2)
  | SMethodCall _ args => (false, fc_args args)
  | SIf cl cr th el =>
      let '(i1, c1) := fc_expr false cl in
      let '(i2, c2) := fc_expr i1 cr in
      let '(i3, c3) := fc_stmt th in
      match el with
      | Some e => let '(i4, c4) := fc_stmt e in (i4, c1 ++ c2 ++ c3 ++ c4)
      | None => (i3, c1 ++ c2 ++ c3)
      end
  | SBlock b =>
      (fix go (i : bool) (l : list stmt) : bool * list code :=
         match l with
         | [] => (i, [])
         | s :: rest =>
             let '(i1, c1) := fc_stmt s in
             let '(i2, c2) := go i1 rest in (i2, c1 ++ c2)
         end) false b
  | SOther => (false, [])
  end.

Fixpoint fc_stmts (imm : bool) (l : list stmt) : bool * list code :=
  match l with
  | [] => (imm, [])
  | s :: rest =>
      let '(i1, c1) := fc_stmt s in
      let '(i2, c2) := fc_stmts i1 rest in (i2, c1 ++ c2)
  end.

Definition fc_body (b : fbody) : list code :=
  let '(i1, c1) := fc_stmts false (fb_statements b) in
  c1 ++ match fb_return b with Some e => snd (fc_expr i1 e) | None => [] end.

(* The type mutability.rs sees for `var x: t`, function_calls.rs having run first. *)
Definition var_is_mutable_in_pipeline (t : pty) : bool :=
  var_is_mutable (fst (fc_decl_type t)).

(* use_function: per-argument decision.  [arg_is_deref]: the argument expression is
   an Expression::Deref (a bare `x`, `x[i]`, `x.m`, `&x`); [a]: its value_type(). *)
Definition can_hint_missing_address (arg_is_deref : bool) (a p : mty) : bool :=
  if arg_is_deref then
    match p with
    | MPointer d => if mty_eqb d a then true else can_coerce_address_into a p
    | _ => can_coerce_address_into a p
    end
  else false.

Definition argument_code (p : param) (arg_is_deref : bool) (a : pty) : option code :=
  match p_type p, a with
  | Some pt, POk at_ =>
      if mty_eqb pt at_ then None
      else match p_name p with
           | Some _ => if can_hint_missing_address arg_is_deref at_ pt
                       then Some E513 else Some E512
           | None => None
           end
  | _, _ => None
  end.

Fixpoint zip_argument_codes (ps : list param) (args : list (bool * pty)) : option code :=
  match ps, args with
  | p :: ps', (d, a) :: args' =>
      match argument_code p d a with
      | Some c => Some c
      | None => zip_argument_codes ps' args'
      end
  | _, _ => None
  end.

Definition use_function (ps : list param) (args : list (bool * pty)) : option code :=
  if Nat.ltb (length args) (length ps) then Some E510
  else if Nat.ltb (length ps) (length args) then Some E511
  else zip_argument_codes ps args.

(* ---- Specification: a small permission system ----------------------------- *)

Definition is_pointer_step (s : rstep) : bool :=
  match s with Autoderef | AutodesliceByPointer => true | _ => false end.

Definition is_view_step (s : rstep) : bool :=
  match s with Autoview | AutodesliceByView => true | _ => false end.

Definition crosses_pointer (ss : list rstep) : bool := existsb is_pointer_step ss.

(* The write lands in the storage of the base binding itself (needs that binding to be
   mutable) or behind a pointer VALUE read on the way (does not). *)
Definition writable (v : menv) (r : reference) : bool :=
  match r_base r with
  | Some x =>
      match lookup v x with
      | Some is_mutable => is_mutable || crosses_pointer (r_steps r)
      | None => false
      end
  | None => false
  end.

(* Stricter reading: what counts is the LAST indirection that is crossed. *)
Inductive access : Type := Direct | ViaPointer | ViaView.

Fixpoint final_access (a : access) (ss : list rstep) : access :=
  match ss with
  | [] => a
  | s :: rest =>
      final_access (if is_pointer_step s then ViaPointer
                    else if is_view_step s then ViaView else a) rest
  end.

Definition writable_strict (v : menv) (r : reference) : bool :=
  match r_base r with
  | Some x =>
      match lookup v x with
      | Some is_mutable =>
          match final_access Direct (r_steps r) with
          | Direct => is_mutable
          | ViaPointer => true
          | ViaView => false
          end
      | None => false
      end
  | None => false
  end.

(* Typing of elaborated chains.  [mtab]: member identifier -> declared member type
   (typer.get_symbol(member)). *)
Definition mtab := list (name * mty).

Fixpoint member_type (mt : mtab) (m : name) : option mty :=
  match mt with
  | [] => None
  | (y, t) :: rest => if N.eqb m y then Some t else member_type rest m
  end.

Definition step_type (mt : mtab) (t : mty) (s : rstep) : option mty :=
  match s with
  | Element _ =>
      match t with
      | MArray e _ | MArrayNamed e _ | MEndless e | MArraylike e => Some e
      | _ => None
      end
  | Member m =>
      match t with MStruct _ | MWord _ => member_type mt m | _ => None end
  | Autoderef => match t with MPointer d => Some d | _ => None end
  | Autoview => match t with MView d => Some d | _ => None end
  | AutodesliceByView => match t with MSlice e => Some (MArraylike e) | _ => None end
  | AutodesliceByPointer => match t with MSlicePointer e => Some (MArraylike e) | _ => None end
  | AutodesliceLength =>
      match t with MSlice _ | MSlicePointer _ => Some (MPrim prim_usize) | _ => None end
  end.

Fixpoint chain_type (mt : mtab) (t : mty) (ss : list rstep) : option mty :=
  match ss with
  | [] => Some t
  | s :: rest =>
      match step_type mt t s with
      | Some t' => chain_type mt t' rest
      | None => None
      end
  end.

Definition is_pointer_type (t : mty) : bool :=
  match t with MPointer _ | MSlicePointer _ => true | _ => false end.

Definition is_view_type (t : mty) : bool :=
  match t with MView _ | MSlice _ => true | _ => false end.

Definition mtab_ok (mt : mtab) : bool :=
  forallb (fun xt => can_be_struct_member (snd xt)) mt.

(* Types from which no well-typed chain can reach a pointer: no pointer and no
   struct/word (whose members are not inspected here). *)
Fixpoint pointer_free (t : mty) : bool :=
  match t with
  | MPrim _ => true
  | MArray e _ | MArrayNamed e _ | MSlice e | MEndless e | MArraylike e => pointer_free e
  | MView d => pointer_free d
  | MSlicePointer _ | MPointer _ | MStruct _ | MWord _ | MUnresolved => false
  end.

(* Reference sites of a syntax tree, for the whole-function statements. *)
Fixpoint deref_sites (e : expr) {struct e} : list reference :=
  match e with
  | ELeaf | EPoison => []
  | EBinary l r => deref_sites l ++ deref_sites r
  | EUnary x | EParen x | EAutocoerce x | ECast x => deref_sites x
  | EArrayLit es | EStructural es | ECall _ es =>
      (fix go (l : list expr) : list reference :=
         match l with [] => [] | x :: xs => deref_sites x ++ go xs end) es
  | EDeref r _ => r :: ref_sites r
  | ELengthOf r => ref_sites r
  end
with ref_sites (r : reference) {struct r} : list reference :=
  match r with
  | Ref _ ss _ =>
      (fix go (l : list rstep) : list reference :=
         match l with [] => [] | s :: xs => step_sites s ++ go xs end) ss
  end
with step_sites (s : rstep) {struct s} : list reference :=
  match s with
  | Element a => deref_sites a
  | _ => []
  end.

Fixpoint deref_sites_list (es : list expr) : list reference :=
  match es with [] => [] | x :: xs => deref_sites x ++ deref_sites_list xs end.

Fixpoint steps_sites (ss : list rstep) : list reference :=
  match ss with [] => [] | s :: xs => step_sites s ++ steps_sites xs end.

(* A site: the analyzer state at that point, whether it is an assignment target
   (true) or a Deref expression (false), and the reference. *)
Definition site := (menv * bool * reference)%type.

Definition expr_sites (v : menv) (e : expr) : list site :=
  map (fun r => (v, false, r)) (deref_sites e).

Fixpoint stmt_sites (v : menv) (s : stmt) {struct s} : menv * list site :=
  match s with
  | SDeclaration x value t =>
      (declare_variable v x (var_is_mutable t),
       match value with Some e => expr_sites v e | None => [] end)
  | SAssignment r value =>
      (v, (v, true, r) :: expr_sites v value
            ++ map (fun r' => (v, false, r')) (ref_sites r))
  | SMethodCall _ args => (v, map (fun r => (v, false, r)) (deref_sites_list args))
  | SIf cl cr th el =>
      let s0 := expr_sites v cl ++ expr_sites v cr in
      let '(v1, s1) := stmt_sites v th in
      match el with
      | Some e => let '(v2, s2) := stmt_sites v1 e in (v2, s0 ++ s1 ++ s2)
      | None => (v1, s0 ++ s1)
      end
  | SBlock b =>
      (fix go (v : menv) (l : list stmt) : menv * list site :=
         match l with
         | [] => (v, [])
         | s :: rest =>
             let '(v1, s1) := stmt_sites v s in
             let '(v2, s2) := go v1 rest in (v2, s1 ++ s2)
         end) v b
  | SOther => (v, [])
  end.

Fixpoint stmts_sites (v : menv) (l : list stmt) : menv * list site :=
  match l with
  | [] => (v, [])
  | s :: rest =>
      let '(v1, s1) := stmt_sites v s in
      let '(v2, s2) := stmts_sites v1 rest in (v2, s1 ++ s2)
  end.

Definition body_sites (v : menv) (b : fbody) : list site :=
  let '(v1, s1) := stmts_sites v (fb_statements b) in
  s1 ++ match fb_return b with Some e => expr_sites v1 e | None => [] end.

(* What the analyzer is supposed to guarantee at a site. *)
Definition site_ok (s : site) : bool :=
  let '(v, is_assignment, r) := s in
  match r_base r with
  | None => true                         (* poisoned base: reported elsewhere *)
  | Some _ => if is_assignment || N.ltb 0 (r_ad r) then writable v r else true
  end.

(* The code the aggregate-copy rule attaches to a type. *)
Definition aggregate_code (t : mty) : option code :=
  match t with
  | MArray _ _ | MEndless _ => Some E531
  | MSlice _ | MSlicePointer _ | MArraylike _ => Some E532
  | MStruct _ => Some E533
  | _ => None
  end.

(* The `var`s a statement declares, with their mutability, LAST declared first
   (the order in which they sit in front of the analyzer state afterwards). *)
Fixpoint declared_vars (s : stmt) {struct s} : menv :=
  match s with
  | SDeclaration x _ t => [(x, var_is_mutable t)]
  | SIf _ _ th el =>
      match el with Some e => declared_vars e | None => [] end ++ declared_vars th
  | SBlock b =>
      (fix go (l : list stmt) : menv :=
         match l with [] => [] | s :: rest => go rest ++ declared_vars s end) b
  | _ => []
  end.

Fixpoint declared_vars_list (l : list stmt) : menv :=
  match l with [] => [] | s :: rest => declared_vars_list rest ++ declared_vars s end.

Definition site_env (s : site) : menv := fst (fst s).

(* ---- typer.rs: how assignment chains are produced ------------------------------ *)

(* src/alpha/typer.rs analyze_assignment_steps: the loops
   `for _i in 0..MAX_ADDRESS_DEPTH { Pointer => push Autoderef | View => push Autoview }`. *)
Definition max_address_depth : nat := 127.

Fixpoint strip_indirections (fuel : nat) (t : mty) : list rstep * mty :=
  match fuel with
  | O => ([], t)
  | S f =>
      match t with
      | MPointer d => let '(ss, t') := strip_indirections f d in (Autoderef :: ss, t')
      | MView d => let '(ss, t') := strip_indirections f d in (Autoview :: ss, t')
      | _ => ([], t)
      end
  end.

(* ValueType::get_element_type *)
Definition get_element_type (t : mty) : option mty :=
  match t with
  | MArray e _ | MArrayNamed e _ | MSlice e | MSlicePointer e | MEndless e | MArraylike e =>
      Some e
  | _ => None
  end.

(* The main loop; [None] stands for the `unreachable!()` arms.  Returns the new steps
   and `current_type`.  [fuel] is the bound of the two stripping loops (the code uses
   MAX_ADDRESS_DEPTH; a parameter here so that proofs do not unfold 127). *)
Fixpoint assignment_steps_fuel (fuel : nat) (mt : mtab) (t : mty) (prev : list rstep)
  {struct prev} : option (list rstep * mty) :=
  match prev with
  | [] => Some ([], t)
  | Element a :: rest =>
      let '(pre, ct) := strip_indirections fuel t in
      let deslice := match ct with
                     | MSlice _ => [AutodesliceByView]
                     | MSlicePointer _ => [AutodesliceByPointer]
                     | _ => []
                     end in
      match get_element_type ct with
      | Some e =>
          match assignment_steps_fuel fuel mt e rest with
          | Some (ss, t') => Some (pre ++ deslice ++ Element a :: ss, t')
          | None => None
          end
      | None => None
      end
  | Member m :: rest =>
      let '(pre, ct) := strip_indirections fuel t in
      match member_type mt m with
      | Some tm =>
          match assignment_steps_fuel fuel mt tm rest with
          | Some (ss, t') => Some (pre ++ Member m :: ss, t')
          | None => None
          end
      | None => None
      end
  | Autoderef :: rest =>
      match t with
      | MPointer d =>
          match assignment_steps_fuel fuel mt d rest with
          | Some (ss, t') => Some (Autoderef :: ss, t')
          | None => None
          end
      | _ => None
      end
  | Autoview :: rest =>
      match t with
      | MView d =>
          match assignment_steps_fuel fuel mt d rest with
          | Some (ss, t') => Some (Autoview :: ss, t')
          | None => None
          end
      | _ => None
      end
  | AutodesliceByView :: rest =>
      match assignment_steps_fuel fuel mt t rest with
      | Some (ss, t') => Some (AutodesliceByView :: ss, t')
      | None => None
      end
  | AutodesliceByPointer :: rest =>
      match assignment_steps_fuel fuel mt t rest with
      | Some (ss, t') => Some (AutodesliceByPointer :: ss, t')
      | None => None
      end
  | AutodesliceLength :: rest =>
      match assignment_steps_fuel fuel mt (MPrim prim_usize) rest with
      | Some (ss, t') => Some (AutodesliceLength :: ss, t')
      | None => None
      end
  end.

Definition assignment_steps : mtab -> mty -> list rstep -> option (list rstep * mty) :=
  assignment_steps_fuel max_address_depth.

(* The tail of analyze_assignment_steps: `x = v` with x of pointer depth pd and
   address depth ad writes through pd - ad pointers.  Result: steps, final type,
   excess address depth. *)
Definition elaborate_assignment (mt : mtab) (t : mty) (prev : list rstep) (ad : nat)
  : option (list rstep * mty * nat) :=
  match assignment_steps mt t prev with
  | Some (ss, ct) =>
      let pd := pointer_depth ct in
      if Nat.leb ad pd then Some (ss ++ repeat Autoderef (pd - ad), ct, O)
      else Some (ss, ct, Nat.min (ad - pd) max_address_depth)
  | None => None
  end.

(* Source-level sanity of a parsed chain (only Element / Member steps), as established
   by Typer::get_type_of_reference before analyze_assignment is reached. *)
Fixpoint source_chain_ok_fuel (fuel : nat) (mt : mtab) (t : mty) (prev : list rstep)
  {struct prev} : bool :=
  match prev with
  | [] => true
  | Element _ :: rest =>
      match get_element_type (snd (strip_indirections fuel t)) with
      | Some e => source_chain_ok_fuel fuel mt e rest
      | None => false
      end
  | Member m :: rest =>
      match snd (strip_indirections fuel t) with
      | MStruct _ | MWord _ =>
          match member_type mt m with
          | Some tm => source_chain_ok_fuel fuel mt tm rest
          | None => false
          end
      | _ => false
      end
  | _ => false
  end.

Definition source_chain_ok : mtab -> mty -> list rstep -> bool :=
  source_chain_ok_fuel max_address_depth.
