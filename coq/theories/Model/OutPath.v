(* Where `penne emit/build/run --out-dir D` writes the IR of a module (property C18).

   src/main.rs  compile_to_ir_using_alpha:
       let mut path = out_dir.to_path_buf();
       path.extend(filepath.components().filter(|x| !matches!(x, Prefix(_) | RootDir)));
       path.set_extension("pn.ll");
   (at the pinned commit: `path.push(filepath.clone())` - D17, `push_pinned` below)
   std::path::PathBuf::push       an absolute argument REPLACES the path, a relative one is appended
   PathBuf::extend                pushes the components one by one; without the root they are all relative
   std::path::PathBuf::set_extension  replaces the extension of the file name (the part after its last
                                  '.', unless that '.' is the first character), appends one when there is none

   A path is its list of components (file names as character codes) and whether it is absolute;
   `.` / `..` components are ordinary names here (PathBuf does not normalise them either).
   Executable definitions only. *)
From PV Require Import Base.Common.
Open Scope N_scope.

Definition name := list N.
Record path := mkpath { absolute : bool; comps : list name }.

Definition DOT : N := 46.

(* PathBuf::push *)
Definition push_pinned (base p : path) : path :=
  if absolute p then p else mkpath (absolute base) (comps base ++ comps p).
(* PathBuf::extend with the components other than the root *)
Definition push (base p : path) : path := mkpath (absolute base) (comps base ++ comps p).

(* position of the last DOT of a name, counted from the end: the suffix after it *)
Fixpoint has_dot (n : name) : bool :=
  match n with [] => false | c :: r => N.eqb c DOT || has_dot r end.

(* the name up to (excluding) its last '.', when there is one that is not the first character *)
Fixpoint stem_tail (n : name) : name :=
  match n with
  | [] => []
  | c :: r => if N.eqb c DOT && negb (has_dot r) then [] else c :: stem_tail r
  end.
Definition file_stem (n : name) : name :=
  match n with
  | [] => []
  | c :: r => if has_dot r then c :: stem_tail r else n
  end.

(* "pn.ll" *)
Definition PN_LL : name := [112; 110; 46; 108; 108].
Definition PN : name := [112; 110].

(* PathBuf::set_extension("pn.ll") on the last component *)
Definition set_ext_name (n : name) : name := file_stem n ++ DOT :: PN_LL.

Fixpoint set_ext_comps (cs : list name) : list name :=
  match cs with
  | [] => []                                   (* no file name: set_extension does nothing *)
  | [n] => [set_ext_name n]
  | c :: r => c :: set_ext_comps r
  end.

Definition ll_path (out_dir module : path) : path :=
  let p := push out_dir module in mkpath (absolute p) (set_ext_comps (comps p)).
Definition ll_path_pinned (out_dir module : path) : path :=
  let p := push_pinned out_dir module in mkpath (absolute p) (set_ext_comps (comps p)).

(* a module file named `<something>.pn` *)
Fixpoint list_eqb (a b : name) : bool :=
  match a, b with
  | [], [] => true
  | x :: a', y :: b' => N.eqb x y && list_eqb a' b'
  | _, _ => false
  end.
Fixpoint ends_with (suffix n : name) : bool :=
  list_eqb n suffix || match n with [] => false | _ :: r => ends_with suffix r end.
Definition is_pn_name (n : name) : bool :=
  match n with [] => false | c :: r => ends_with (DOT :: PN) r end.     (* at least one character before ".pn" *)
Definition is_pn_module (m : path) : bool :=
  match rev (comps m) with n :: _ => is_pn_name n | [] => false end.
