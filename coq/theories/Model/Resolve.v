(* The type GATE of the first-generation compiler: the checks that the resolver
   (src/alpha/resolver.rs) and the call analyzer (src/alpha/analyzer/function_calls.rs)
   perform on the typed tree, whatever the type inference engine (typer.rs) produced.

   Mirrors, definition by definition:
     value_type                  typer.rs      impl Typed for Expression
     poison_codes                error.rs      impl From<Poison> for Errors
     combine2                    resolver.rs   impl Resolvable for (T1, T2)
     resolve_list                resolver.rs   impl Resolvable for Vec<T>
     get_type_of_operand         resolver.rs   get_type_of_operand
     match_type_of_operands      resolver.rs   match_type_of_operands
     valid_operand,
     analyze_operand_type        resolver.rs   analyze_operand_type
     resolve_binary_op_type      resolver.rs   resolve_binary_op_type (current, with VALID_TYPES_FOR_OFFSET)
     resolve_binary_op_type_pinned,
     resolve_binary_pinned       resolver.rs   the same function / the Binary arm at the pinned commit
     resolve_unary_op_type       resolver.rs   resolve_unary_op_type
     resolve_compared_type       resolver.rs   resolve_compared_type
     is_valid_bit_cast           resolver.rs   is_valid_bit_cast
     prim_conversion             resolver.rs   is_valid_primitive_conversion (on ValueType)
     analyze_bit_cast            resolver.rs   analyze_bit_cast_and_get_coerced_type
     analyze_primitive_cast      resolver.rs   analyze_primitive_cast_and_get_value_type
     resolve_expr                resolver.rs   impl Resolvable for Expression
     resolve_cmp                 resolver.rs   impl Resolvable for Comparison
     check_args, check_call_gen  function_calls.rs  Analyzer::use_function
     analyze_call                function_calls.rs  impl Analyzable for Expression, FunctionCall arm
     hint_arg, hint_args         typer.rs      Typer::analyze_hinted_arguments / analyze_function_arguments
   The operator type classes and the cast table are the GENERATED tables of
   Gen/ResolverTables.v and Gen/TypeTables.v.

   Abstractions: locations and values are dropped (the checks never look at them);
   value types other than primitives are opaque identifiers compared by equality,
   pointers are recognisable (OperandValueType::Pointer matches any pointer);
   ValueType::resolve is total (its only failing arm is unreachable!()).
   rtype, operand_of, in_class, well_typed, well_typed_cmp are SPECIFICATIONS
   (they mirror nothing in the Rust code). *)
From PV Require Import Base.Common Base.IR Gen.TypeTables Gen.ResolverTables.

(* error.rs Error::code *)
Definition E510 : code := 510%N. (* TooFewArguments *)
Definition E511 : code := 511%N. (* TooManyArguments *)
Definition E512 : code := 512%N. (* ArgumentTypeMismatch *)
Definition E513 : code := 513%N. (* ArgumentMissingAddress *)
Definition E550 : code := 550%N. (* InvalidOperandType *)
Definition E551 : code := 551%N. (* MismatchedOperandTypes *)
Definition E552 : code := 552%N. (* InvalidPrimitiveConversion *)
Definition E553 : code := 553%N. (* InvalidBitCast *)
Definition E580 : code := 580%N. (* AmbiguousType *)
Definition E582 : code := 582%N. (* AmbiguousTypeOfNakedIntegerLiteral *)
Definition E583 : code := 583%N. (* AmbiguousTypeOfArrayLiteral *)

(* ---------- value types ---------- *)

Inductive vtype :=
| VPrim (p : prim)
| VPointer (id : N)   (* ValueType::Pointer { deref_type }: id stands for the pointee *)
| VOther (id : N).    (* Void, arrays, slices, views, structs, words, ... *)

Definition vtype_eqb (a b : vtype) : bool :=
  match a, b with
  | VPrim x, VPrim y => prim_eqb x y
  | VPointer x, VPointer y => N.eqb x y
  | VOther x, VOther y => N.eqb x y
  | _, _ => false
  end.

Definition is_pointer (t : vtype) : bool :=
  match t with VPointer _ => true | _ => false end.

(* ---------- annotations ---------- *)

(* error.rs: enum Poison { Error(Error), Poisoned } *)
Inductive poison := Poisoned | PError (c : code).

Definition poison_codes (p : poison) : list code :=
  match p with Poisoned => [] | PError c => [c] end.

(* Poisonable<T> = Result<T, Poison> *)
Inductive result (A : Type) := ROk (a : A) | RPoison (p : poison).
Arguments ROk {A}. Arguments RPoison {A}.

(* Option<Poisonable<ValueType>>: None = nothing inferred *)
Definition ann := option (result vtype).

(* ---------- typed expressions ---------- *)

(* Which expression a leaf stands for only matters for the code of its own
   "no type" error and for the E513 hint of the call analyzer. *)
Inductive leafkind :=
| LInteger    (* SignedIntegerLiteral / BitIntegerLiteral: None -> E582 *)
| LArrayLit   (* ArrayLiteral: None -> E583 *)
| LDeref      (* Deref: None -> E580 *)
| LOther.     (* BooleanLiteral, StringLiteral, Structural, LengthOfArray, SizeOf:
                 the annotation is never None (modelled as E580) *)

Definition ambiguity_code (k : leafkind) : code :=
  match k with LInteger => E582 | LArrayLit => E583 | LDeref => E580 | LOther => E580 end.

Inductive texpr :=
| TLeaf (k : leafkind) (a : ann)
| TPoison (p : poison)                          (* Expression::Poison *)
| TBinary (op : binop) (l r : texpr)
| TUnary (op : unop) (e : texpr)
| TParen (e : texpr)
| TAutocoerce (e : texpr) (target : vtype)
| TTypeCast (e : texpr) (target : vtype)        (* `e as T`: coerced_type is a plain ValueType *)
| TBitCast (e : texpr) (a : ann)                (* `cast e`: coerced_type is inferred *)
| TCall (callee : N) (args : list texpr) (a : ann).

Inductive tcmp := TCmp (op : cmpop) (l r : texpr).

(* typer.rs impl Typed for Expression *)
Fixpoint value_type (e : texpr) : ann :=
  match e with
  | TLeaf _ a => a
  | TPoison _ => Some (RPoison Poisoned)
  | TBinary _ l _ => value_type l
  | TUnary _ x => value_type x
  | TParen x => value_type x
  | TAutocoerce _ t => Some (ROk t)
  | TTypeCast _ t => Some (ROk t)
  | TBitCast _ a => a
  | TCall _ _ a => a
  end.

(* ---------- results ---------- *)

(* Result<T, Errors> *)
Inductive res (A : Type) := Ok (a : A) | Err (es : list code).
Arguments Ok {A}. Arguments Err {A}.

Definition bind {A B : Type} (r : res A) (f : A -> res B) : res B :=
  match r with Ok a => f a | Err es => Err es end.

(* impl Resolvable for (T1, T2) *)
Definition combine2 {A B : Type} (a : res A) (b : res B) : res (A * B) :=
  match a, b with
  | Ok x, Ok y => Ok (x, y)
  | Ok _, Err es => Err es
  | Err es, Ok _ => Err es
  | Err es, Err more => Err (es ++ more)
  end.

Definition of_ann (amb : code) (a : ann) : res vtype :=
  match a with
  | Some (ROk t) => Ok t
  | Some (RPoison p) => Err (poison_codes p)
  | None => Err [amb]
  end.

(* ---------- the checks ---------- *)

Definition get_type_of_operand (e : texpr) : res vtype := of_ann E580 (value_type e).

Definition match_type_of_operands (l r : texpr) : res vtype :=
  match value_type l, value_type r with
  | Some (RPoison p), Some (RPoison q) => Err (poison_codes p ++ poison_codes q)
  | Some (RPoison p), _ => Err (poison_codes p)
  | _, Some (RPoison q) => Err (poison_codes q)
  | None, _ => Err [E580]
  | _, None => Err [E580]
  | Some (ROk lvt), Some (ROk rvt) => if vtype_eqb rvt lvt then Ok lvt else Err [E551]
  end.

(* the closure of analyze_operand_type's `any` *)
Definition valid_operand (t : vtype) (valid : list operand_type) : bool :=
  existsb (fun o => match o with
                    | OPrim p => vtype_eqb (VPrim p) t
                    | OPointer => is_pointer t
                    end) valid.

Definition analyze_operand_type (t : vtype) (valid : list operand_type) : res vtype :=
  if valid_operand t valid then Ok t else Err [E550].

Definition is_advance (op : binop) : bool :=
  match op with AdvancePointer => true | _ => false end.

(* current code: the offset of AdvancePointer must be a usize (VALID_TYPES_FOR_OFFSET),
   checked before the pointer operand is looked at *)
Definition resolve_binary_op_type (op : binop) (l r : texpr) : res vtype :=
  bind (if is_advance op
        then bind (get_type_of_operand r) (fun offset_type =>
             bind (analyze_operand_type offset_type valid_types_for_offset) (fun _ =>
             get_type_of_operand l))
        else match_type_of_operands l r)
       (fun vt => analyze_operand_type vt (binop_valid_types op)).

(* the pinned commit: the right operand of AdvancePointer was never looked at *)
Definition resolve_binary_op_type_pinned (op : binop) (l r : texpr) : res vtype :=
  bind (if is_advance op then get_type_of_operand l else match_type_of_operands l r)
       (fun vt => analyze_operand_type vt (binop_valid_types op)).

Definition resolve_unary_op_type (op : unop) (e : texpr) : res vtype :=
  bind (get_type_of_operand e) (fun vt => analyze_operand_type vt (unop_valid_types op)).

Definition resolve_compared_type (op : cmpop) (l r : texpr) : res vtype :=
  bind (match_type_of_operands l r) (fun vt => analyze_operand_type vt (cmpop_valid_types op)).

(* the Word arms end in `&& can_be_generated` with can_be_generated = false *)
Definition is_valid_bit_cast (s d : vtype) : bool :=
  vtype_eqb s d || (is_pointer s && is_pointer d).

(* is_integral is false outside the primitive types *)
Definition prim_conversion (s d : vtype) : bool :=
  match s, d with
  | VPrim a, VPrim b => is_valid_primitive_conversion a b (vt_is_integral a) (vt_is_integral b)
  | _, _ => false
  end.

Definition analyze_bit_cast (e : texpr) (coerced : ann) : res vtype :=
  bind (of_ann E580 (value_type e)) (fun vt =>
  bind (of_ann E580 coerced) (fun ct =>
  if is_valid_bit_cast vt ct then Ok ct else Err [E553])).

(* Ok None = type hint, no code generated *)
Definition analyze_primitive_cast (e : texpr) (coerced : vtype) : res (option vtype) :=
  bind (of_ann E580 (value_type e)) (fun vt =>
  if vtype_eqb vt coerced then Ok None
  else if prim_conversion vt coerced then Ok (Some vt)
  else Err [E552]).   (* both the is_valid_bit_cast arm and the last arm *)

(* ---------- resolved expressions ---------- *)

Inductive rexpr :=
| RLeaf (t : vtype)
| RBinary (op : binop) (l r : rexpr) (t : vtype)      (* Binary { value_type } *)
| RUnary (op : unop) (e : rexpr) (t : vtype)          (* Unary { value_type } *)
| RParen (e : rexpr)
| RAutocoerce (e : rexpr) (t : vtype)
| RPrimCast (e : rexpr) (src dst : vtype)            (* PrimitiveCast { expression_type, coerced_type } *)
| RBitCast (e : rexpr) (t : vtype)
| RCall (callee : N) (args : list rexpr) (t : vtype).

Inductive rcmp := RCmp (op : cmpop) (l r : rexpr) (t : vtype). (* Comparison { compared_type } *)

(* impl Resolvable for Vec<T>: the fold concatenates the errors of all elements
   in order; written as a right recursion *)
Section resolve_list.
  Variable f : texpr -> res rexpr.
  Fixpoint resolve_list (xs : list texpr) : res (list rexpr) :=
    match xs with
    | [] => Ok []
    | x :: rest =>
        match f x, resolve_list rest with
        | Ok y, Ok ys => Ok (y :: ys)
        | Ok _, Err es => Err es
        | Err es, Ok _ => Err es
        | Err es, Err more => Err (es ++ more)
        end
    end.
End resolve_list.

Fixpoint resolve_expr (e : texpr) : res rexpr :=
  match e with
  | TLeaf k a => bind (of_ann (ambiguity_code k) a) (fun t => Ok (RLeaf t))
  | TPoison p => Err (poison_codes p)
  | TBinary op l r =>
      let op_type := resolve_binary_op_type op l r in
      bind (combine2 (resolve_expr l) (resolve_expr r)) (fun lr =>
      bind op_type (fun t => Ok (RBinary op (fst lr) (snd lr) t)))
  | TUnary op x =>
      let op_type := resolve_unary_op_type op x in
      bind (resolve_expr x) (fun x' =>
      bind op_type (fun t => Ok (RUnary op x' t)))
  | TParen x => bind (resolve_expr x) (fun x' => Ok (RParen x'))
  | TAutocoerce x t => bind (resolve_expr x) (fun x' => Ok (RAutocoerce x' t))
  | TTypeCast x target =>
      let expression_type := analyze_primitive_cast x target in
      bind (resolve_expr x) (fun x' =>
      bind expression_type (fun et =>
      match et with
      | Some src => Ok (RPrimCast x' src target)
      | None => Ok x'
      end))
  | TBitCast x a =>
      let coerced_type := analyze_bit_cast x a in
      bind (resolve_expr x) (fun x' =>
      bind coerced_type (fun ct => Ok (RBitCast x' ct)))
  | TCall f args a =>
      bind (resolve_list resolve_expr args) (fun args' =>
      bind (of_ann E580 a) (fun rt => Ok (RCall f args' rt)))
  end.

Definition resolve_cmp (c : tcmp) : res rcmp :=
  match c with
  | TCmp op l r =>
      let compared_type := resolve_compared_type op l r in
      bind (combine2 (resolve_expr l) (resolve_expr r)) (fun lr =>
      bind compared_type (fun t => Ok (RCmp op (fst lr) (snd lr) t)))
  end.

(* the Binary arm of the pinned commit (operands resolved by the current code, which
   differs from the pinned one only in this arm) *)
Definition resolve_binary_pinned (op : binop) (l r : texpr) : res rexpr :=
  let op_type := resolve_binary_op_type_pinned op l r in
  bind (combine2 (resolve_expr l) (resolve_expr r)) (fun lr =>
  bind op_type (fun t => Ok (RBinary op (fst lr) (snd lr) t))).

(* ---------- the call check ---------- *)

Record param := mk_param {
  p_named : bool;            (* parameter.name is Ok(_) *)
  p_type : result vtype      (* parameter.value_type *)
}.

Record arg := mk_arg {
  a_deref : bool;            (* the argument is an Expression::Deref *)
  a_type : ann               (* argument.value_type() *)
}.

Definition arg_of (e : texpr) : arg :=
  mk_arg (match e with TLeaf LDeref _ => true | _ => false end) (value_type e).

Section call.
  (* can_hint_missing_address for a Deref argument: the parameter is a pointer to the
     argument type, or argument_type.can_coerce_address_into(parameter_type) *)
  Variable addr_hint : vtype -> vtype -> bool.

  (* the for loop of use_function: returns at the first reported mismatch *)
  Fixpoint check_args (ps : list param) (xs : list arg) : list code :=
    match ps, xs with
    | p :: ps', x :: xs' =>
        match p_type p, a_type x with
        | ROk pt, Some (ROk at_) =>
            if negb (vtype_eqb pt at_) && p_named p
            then (if a_deref x && addr_hint at_ pt then [E513] else [E512])
            else check_args ps' xs'
        | _, _ => check_args ps' xs'
        end
    | _, _ => []
    end.

  Definition check_call_gen (ps : list param) (xs : list arg) : list code :=
    if Nat.ltb (length xs) (length ps) then [E510]
    else if Nat.ltb (length ps) (length xs) then [E511]
    else check_args ps xs.

  (* FunctionCall arm of the analyzer: a rejected call is replaced by a poison
     expression that carries the error *)
  Definition analyze_call (ps : list param) (callee : N) (args : list texpr) (a : ann) : texpr :=
    match check_call_gen ps (map arg_of args) with
    | [] => TCall callee args a
    | c :: _ => TPoison (PError c)
    end.
End call.

(* fully declared parameters, fully typed non-reference arguments *)
Definition check_call (params args : list vtype) : list code :=
  check_call_gen (fun _ _ => false)
                 (map (fun t => mk_param true (ROk t)) params)
                 (map (fun t => mk_arg false (Some (ROk t))) args).

Section hints.
  (* ValueType::can_coerce_into *)
  Variable coerces : vtype -> vtype -> bool.

  (* analyze_hinted_arguments, after the argument itself has been analyzed *)
  Definition hint_arg (e : texpr) (hint : option (result vtype)) : texpr :=
    match value_type e, hint with
    | Some (ROk vt), Some (ROk pt) =>
        if vtype_eqb vt pt then e
        else if coerces vt pt then TAutocoerce e pt
        else e
    | _, _ => e
    end.

  (* analyze_function_arguments: parameter types chained with repeat(Err(Poisoned)) *)
  Fixpoint hint_args (ps : list (result vtype)) (args : list texpr) : list texpr :=
    match args with
    | [] => []
    | e :: rest =>
        match ps with
        | p :: ps' => hint_arg e (Some p) :: hint_args ps' rest
        | [] => hint_arg e (Some (RPoison Poisoned)) :: hint_args [] rest
        end
    end.
End hints.

(* ---------- specification ---------- *)

Fixpoint rtype (r : rexpr) : vtype :=
  match r with
  | RLeaf t => t
  | RBinary _ _ _ t => t
  | RUnary _ _ t => t
  | RParen e => rtype e
  | RAutocoerce _ t => t
  | RPrimCast _ _ dst => dst
  | RBitCast _ t => t
  | RCall _ _ t => t
  end.

Definition operand_of (t : vtype) : option operand_type :=
  match t with
  | VPrim p => Some (OPrim p)
  | VPointer _ => Some OPointer
  | VOther _ => None
  end.

Definition in_class (t : vtype) (valid : list operand_type) : bool :=
  match operand_of t with Some o => mem_operand o valid | None => false end.

(* what the gate guarantees: both operands of a binary operator have the node's type,
   except AdvancePointer whose left operand (a pointer) has the node's type and whose
   right operand is a usize *)
Fixpoint well_typed (r : rexpr) : bool :=
  match r with
  | RLeaf _ => true
  | RBinary op a b t =>
      well_typed a && well_typed b
      && vtype_eqb (rtype a) t
      && vtype_eqb (rtype b) (if is_advance op then VPrim Usize else t)
      && in_class t (binop_valid_types op)
  | RUnary op a t =>
      well_typed a && vtype_eqb (rtype a) t && in_class t (unop_valid_types op)
  | RParen a => well_typed a
  | RAutocoerce a _ => well_typed a
  | RPrimCast a src dst =>
      well_typed a && vtype_eqb (rtype a) src && prim_conversion src dst
  | RBitCast a t =>
      well_typed a && is_valid_bit_cast (rtype a) t
  | RCall _ args _ => forallb well_typed args
  end.

Definition well_typed_cmp (c : rcmp) : bool :=
  match c with
  | RCmp op a b t =>
      well_typed a && well_typed b
      && vtype_eqb (rtype a) t && vtype_eqb (rtype b) t
      && in_class t (cmpop_valid_types op)
  end.
