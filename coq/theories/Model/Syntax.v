(* Model of src/alpha/analyzer/syntax.rs (E800/E801/E840) and of the branch/loop
   part of src/alpha/linter.rs (L1800)  — property C06.
   Executable definitions only. *)
From PV Require Import Base.Common.

Inductive stmt : Type :=
| SSimple            (* declaration, assignment, call, label *)
| SGoto
| SLoop
| SPoison            (* statement poisoned by an earlier stage *)
| SIf (t : stmt) (e : option stmt)
| SBlock (b : list stmt).

Definition E800 : code := 800%N.
Definition E801 : code := 801%N.
Definition E840 : code := 840%N.
Definition L1800 : code := 1800%N.

Record flags := { nt : bool; ne : bool; ib : bool }.
Definition set_nt f b := {| nt := b; ne := ne f; ib := ib f |}.
Definition set_ne f b := {| nt := nt f; ne := b; ib := ib f |}.
Definition set_ib f b := {| nt := nt f; ne := ne f; ib := b |}.

Definition is_loop (s : stmt) := match s with SLoop => true | _ => false end.

(* [fixed = true]: the analyzer of the current tree (the `If` arm clears
   is_naked_else_branch before it analyzes its then-branch).
   [fixed = false]: the analyzer as it was on the pinned commit (finding D1). *)
Section Model.
Variable fixed : bool.

(* Returns the flags after the statement, the codes, and whether the analyzed
   statement is still a Loop statement (needed by Block for E800). *)
Fixpoint an_stmt (s : stmt) (f : flags) {struct s} : flags * list code * bool :=
  let naked_ok :=
    match s with
    | SGoto => true | SBlock _ => true | SPoison => true
    | SIf _ _ => ne f
    | _ => false
    end in
  if (nt f || ne f) && negb naked_ok then (f, [E840], false) else
  match s with
  | SSimple => (f, [], false)
  | SGoto => (f, [], false)
  | SPoison => (f, [], false)
  | SLoop => if ib f then (f, [], true) else (f, [E801], false)
  | SIf t e =>
      let f := set_ib f false in
      let f := if fixed then set_ne f false else f in
      let f := set_nt f true in
      let '(f, c1, _) := an_stmt t f in
      let f := set_nt f false in
      match e with
      | Some e' =>
          let f := set_ne f true in
          let '(f, c2, _) := an_stmt e' f in
          (set_ne f false, c1 ++ c2, false)
      | None => (f, c1, false)
      end
  | SBlock b =>
      let f := set_ne (set_nt f false) false in
      let fix an_block (ss : list stmt) (f : flags) : flags * list code :=
        match ss with
        | [] => (f, [])
        | [last] =>
            let '(f, c, _) := an_stmt last (set_ib f true) in
            (set_ib f false, c)
        | s :: rest =>
            let '(f, c, still_loop) := an_stmt s (set_ib f true) in
            let c := if still_loop then [E800] else c in
            let '(f, cr) := an_block rest f in
            (f, c ++ cr)
        end in
      let '(f, c) := an_block b f in (f, c, false)
  end.

Fixpoint an_body (ss : list stmt) (f : flags) : flags * list code :=
  match ss with
  | [] => (f, [])
  | s :: rest =>
      let '(f, c, _) := an_stmt s f in
      let '(f, cr) := an_body rest f in
      (f, c ++ cr)
  end.
End Model.

Definition init_flags := {| nt := false; ne := false; ib := false |}.

(* impl Analyzable for FunctionBody: is_in_block := false, statements in order.
   A fresh Analyzer is made per declaration. *)
Definition body_codes (fixed : bool) (body : list stmt) : list code :=
  snd (an_body fixed body init_flags).

(* ---- Linter: L1800 ---------------------------------------------------------
   State: is_naked_branch (Some/None), is_first_statement_of_branch. *)
Record lstate := { nb : bool; fs : bool }.

Fixpoint lint_stmt (s : stmt) (st : lstate) {struct s} : lstate * list code :=
  match s with
  | SSimple | SGoto | SPoison => (st, [])
  | SLoop => if fs st then ({| nb := nb st; fs := false |}, [L1800]) else (st, [])
  | SIf t e =>
      let st := {| nb := true; fs := false |} in
      let '(st, c1) := lint_stmt t st in
      match e with
      | Some e' =>
          let '(st, c2) := lint_stmt e' {| nb := true; fs := fs st |} in
          ({| nb := false; fs := fs st |}, c1 ++ c2)
      | None => ({| nb := false; fs := fs st |}, c1)
      end
  | SBlock b =>
      match b with
      | [] => (st, [])
      | first :: others =>
          let st := {| nb := false; fs := nb st |} in
          let '(st, c1) := lint_stmt first st in
          let st := {| nb := nb st; fs := false |} in
          let fix lint_list (ss : list stmt) (st : lstate) : lstate * list code :=
            match ss with
            | [] => (st, [])
            | s :: rest =>
                let '(st, c) := lint_stmt s st in
                let '(st, cr) := lint_list rest st in
                (st, c ++ cr)
            end in
          let '(st, c2) := lint_list others st in
          (st, c1 ++ c2)
      end
  end.

Fixpoint lint_list (ss : list stmt) (st : lstate) : lstate * list code :=
  match ss with
  | [] => (st, [])
  | s :: rest =>
      let '(st, c) := lint_stmt s st in
      let '(st, cr) := lint_list rest st in
      (st, c ++ cr)
  end.

(* One Linter per module: state persists from one function to the next. *)
Definition lint_body (body : list stmt) : list code :=
  snd (lint_list body {| nb := false; fs := false |}).

(* ---- Specification --------------------------------------------------------- *)
Inductive ctx := CBody | COther | CLast | CThen | CElse.

Fixpoint spec_stmt (c : ctx) (s : stmt) {struct s} : list code :=
  match s with
  | SSimple => match c with CThen | CElse => [E840] | _ => [] end
  | SGoto => []
  | SPoison => []
  | SLoop => match c with
             | CBody => [E801] | COther => [E800] | CLast => []
             | CThen | CElse => [E840] end
  | SIf t e =>
      match c with
      | CThen => [E840]
      | _ => spec_stmt CThen t ++ match e with Some e' => spec_stmt CElse e' | None => [] end
      end
  | SBlock b =>
      let fix spec_block (ss : list stmt) : list code :=
        match ss with
        | [] => []
        | [last] => spec_stmt CLast last
        | s :: rest => spec_stmt COther s ++ spec_block rest
        end in
      spec_block b
  end.

Fixpoint spec_block (ss : list stmt) : list code :=
  match ss with
  | [] => []
  | [last] => spec_stmt CLast last
  | s :: rest => spec_stmt COther s ++ spec_block rest
  end.

Definition spec_body (body : list stmt) : list code := flat_map (spec_stmt CBody) body.

(* L1800: exactly once for each branch of an `if` that is a braced block whose
   first statement is `loop`. *)
Definition first_is_loop (s : stmt) : bool :=
  match s with SBlock (SLoop :: _) => true | _ => false end.

Fixpoint lint_spec (s : stmt) {struct s} : list code :=
  match s with
  | SIf t e =>
      (if first_is_loop t then [L1800] else []) ++ lint_spec t ++
      match e with
      | Some e' => (if first_is_loop e' then [L1800] else []) ++ lint_spec e'
      | None => []
      end
  | SBlock b =>
      (fix go (ss : list stmt) : list code :=
         match ss with [] => [] | s :: r => lint_spec s ++ go r end) b
  | _ => []
  end.

Definition lint_spec_body (body : list stmt) : list code := flat_map lint_spec body.
