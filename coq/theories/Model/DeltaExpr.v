(* The EXPRESSION part of the second-generation parser, /repo/src/delta/parser.rs
   (a recursive-descent / precedence-climbing parser that emits a flat node array),
   with the node-array emission folded into the construction of the reference tree
   [RefParser.expr].

   Executable definitions only.  Correspondence with the Rust code (line numbers of
   src/delta/parser.rs at the pinned commit):

     parse_inner_type ....... parse_inner_type (501-574) and parse_type (478-499): the
                              CompositeValueType / EndOfSpan wrapper of parse_type carries
                              no information; NO well-formedness check (the first
                              generation rejects ill-formed types in the parser)
     parse_type ............. parse_type (478-499)
     parse_expression ....... parse_expression (951-957)
     parse_addition ......... parse_addition (959-998), first operand (964)
     add_loop ............... parse_addition, the loop (966-997); its bitwise arm inlines the
                              head of parse_rest_of_bitwise_expression (1006-1020), its shift
                              arm is parse_rest_of_bitshift_operation (1048-1081).  The
                              "left operand must not be an unparenthesized binary expression"
                              check of the first generation is a TODO there (1022-1023,
                              1069-1070): NOT performed
     bit_loop ............... parse_rest_of_bitwise_expression, the loop (1025-1045)
     parse_multiplication ... parse_multiplication (1083-1111), first operand (1088)
     mul_loop ............... parse_multiplication, the loop (1090-1110): the right operand is
                              parse_singular_expression (1102)
     parse_singular ......... parse_singular_expression (1113-1143): optional `cast` (1118-1131)
     as_loop ................ parse_singular_expression, `while consume_optional(As)` (1133-1140)
     parse_unary ............ parse_unary_expression (1145-1204); `-` keeps Unary(Negative, _)
                              whatever the operand (1184-1201, see the TODO at 1190)
     parse_primary .......... parse_primary_expression (1206-1403)
     amp_loop ............... the `while consume_optional(Ampersand)` loops (1277-1289 with the
                              counter starting at 1; 1411-1421 with the counter starting at 0):
                              the counter is incremented FIRST and then compared with
                              MAX_ADDRESS_DEPTH (u8; it never exceeds 128, no overflow)
     parse_addressed ........ the Ampersand arm of parse_primary_expression up to the Deref
                              node (1277-1298); the first `&` is already taken
     parse_reference ........ parse_reference (1405-1434), used by `|x|`
     steps_loop ............. parse_deref_steps_list (1436-1467) AFTER THE REPAIR of line 1443:
                              `for _ in 0..=MAX_REFERENCE_DEPTH` (128 iterations); [k] is the
                              number of iterations already done; after 127 steps the 128th
                              iteration finds no further step and returns Ok; a 128th step is
                              consumed and then the loop ends in MaximumParseDepthExceeded
                              (127 accepted, 128 rejected, as in the first generation)
     steps_loop_pinned, parse_expression_pinned_res ... the same code BEFORE the repair
                              (`for _ in 0..MAX_REFERENCE_DEPTH`, the pinned commit): when the
                              127 iterations are used up the function fails WITHOUT looking at
                              the next token, so at most 126 steps are accepted
     expr_list .............. parse_rest_of_arguments (815-843) for br = false; the array arm
                              of parse_primary_expression (1359-1383) for br = true (its
                              leading `if !consume_optional(BracketRight)` is subsumed by the
                              first iteration of the loop).  Consumes the closing token
     members_loop ........... parse_rest_of_structural (845-893).  Consumes the closing brace
     cut_reserved ........... Tokens::with_reservation (parser/tokens.rs 43-60) with the
                              predicate of parse_statement (643-645): the token span is CUT
                              at the first `{` or `;` (or end of source)
     parse_comparison ....... parse_comparison (915-949) as called from the `if` arm of
                              parse_statement (638-647): runs on the cut span; when the
                              reservation is dropped the cursor is where the cut span was
                              left, i.e. the rest is (rest of the cut span) ++ (what was cut)

   How the node array is folded into the tree.  [buffer.push(X)] appends node X; children
   are referenced POSITIONALLY: "nodes[-k]" is the node k places before X, "nodes[..-k]"
   is the subtree ENDING k places before X (a subtree is addressed by its LAST node, its
   root; [expect_most_recent_node(n)] asserts that n is the node just pushed).  A child
   that is not adjacent is referenced through an [Item {at}] node ([push_older_node]),
   lists through [List {first}] -> [ListItem {next}]* -> [NoMoreItems], each ListItem
   sitting right after the subtree of its element (parse_node.rs, comments of each kind).
   Mapping of node kinds to constructors (for a converter from the real array):

     Binary{token}: nodes[-1] = BinaryOp(op), nodes[-2] = Item{at: LEFT}, nodes[..-3] = RIGHT
                                            -> EBinary op LEFT RIGHT
     Unary{token}: nodes[-1] = UnaryOp(op), nodes[..-2] = operand      -> EUnary op operand
     BitCast: nodes[..-1] = operand                                    -> EBitCast operand
     TypeCast: nodes[-1] = Item{at: operand}, nodes[..-2] = type       -> ETypeCast operand type
     Parenthesized: nodes[..-1]                                        -> EParen inner
     SizeOf: nodes[..-1] = type                                        -> ESizeOf type
     LengthOf: nodes[..-1] = Deref                                     -> ELength reference
     Deref: nodes[-1] = DerefAddressDepth{depth}, nodes[-2] = Identifier, nodes[-3] = List steps
                                            -> EDeref (Ref depth base steps)
     DerefStepElement: nodes[..-1] = argument -> RsElement; DerefStepMember{field} -> RsMember
     FunctionCall{is_builtin}: nodes[-1] = Identifier, nodes[-2] = List -> ECall is_builtin name args
     ArrayLiteral{num_elements}: nodes[-1] = List                      -> EArray elements
     Structural{name}: nodes[-1] = List of IdentifierAndExpression{identifier} (value = nodes[..-1])
                                            -> EStructural name [(member, value)]
     UntypedIntegerLiteral{literal}, TypedIntegerLiteral{literal} (+ SimpleValueType at nodes[-1]),
     CharLiteral, BooleanLiteral            -> [literal_of token] (the first generation's
                                               classification into ESigned / EBits / EBool)
     SimpleStringLiteral{literal}           -> EString (bytes of the token)
     CompositeStringLiteral{start} + EndOfSpan{end} -> EString (concatenation of the fragments)
     SimpleValueType / UnresolvedStructOrWordVT / PointerVT / ViewVT / ArrayVT{fixed_length} /
     ArrayWithNamedLengthVT / SliceVT / EndlessArrayVT / ArraylikeVT (element = nodes[-1]),
     CompositeValueType (nodes[..-2])       -> ty (TArray takes the token value mod 2^64 as the
                                               first generation does)
     Comparison{token}: nodes[-1] = ComparisonOp(op), nodes[-2] = Item{at: LEFT}, nodes[..-3] = RIGHT
                                            -> (op, LEFT, RIGHT)

   Conventions: tokens, lookahead ([hdk]: KError = "nothing to see") and token
   classification are those of Model/RefParser.v.  The second-generation lexer has a
   `return` keyword (KReturn): it is NOT an identifier here, no expression starts with
   it.  Results are three-valued: [Ok], [Err] (the Rust function returns Err(..): the
   kind tells UnexpectedToken from MaximumParseDepthExceeded) and [Fuel] (out of fuel,
   says nothing about the Rust code).  Every function takes one unit of fuel per call,
   exactly like its counterpart in RefParser.v, so the two can be compared at EQUAL
   fuel.  The Rust recursion itself is unbounded (no depth limit: deeply nested
   parentheses / `&&&..T` types overflow the stack). *)
From PV Require Import Base.Common Base.IR Base.Tok Model.RefParser.

Inductive perr := UnexpectedToken | DepthExceeded.

Inductive res (A : Type) :=
| Ok (a : A)
| Err (e : perr)
| Fuel.
Arguments Ok {A} a.
Arguments Err {A} e.
Arguments Fuel {A}.

Definition bind {A B : Type} (r : res A) (k : A -> res B) : res B :=
  match r with
  | Ok a => k a
  | Err e => Err e
  | Fuel => Fuel
  end.

Definition of_opt {A : Type} (e : perr) (o : option A) : res A :=
  match o with Some a => Ok a | None => Err e end.

Definition to_opt {A : Type} (r : res A) : option A :=
  match r with Ok a => Some a | _ => None end.

(* tokens.consume(expected) *)
Definition expect_r (p : tkind -> bool) (ts : list tok) : res (list tok) :=
  of_opt UnexpectedToken (expect p ts).

(* cursor + tokens.consume(Identifier) *)
Definition expect_id_r (ts : list tok) : res (name * list tok) :=
  of_opt UnexpectedToken (expect_id ts).

(* ------------------------------------------------------------------------- *)
(* Types                                                                      *)
(* ------------------------------------------------------------------------- *)

Fixpoint parse_inner_type (f : nat) (ts : list tok) {struct f} : res (ty * list tok) :=
  match f with
  | O => Fuel
  | S f =>
    match ts with
    | [] => Err UnexpectedToken
    | t :: ts1 =>
      match kind t with
      | KType =>
          match vtype t with
          | Some TyVoid => Ok (TVoid, ts1)
          | Some (TyPrim p) => Ok (TPrim p, ts1)
          | None => Err UnexpectedToken
          end
      | KIdentifier => Ok (TNamed (tok_name t), ts1)
      | KAmpersand =>
          bind (parse_inner_type f ts1) (fun '(d, ts2) => Ok (TPointer d, ts2))
      | KParenLeft =>
          bind (parse_inner_type f ts1) (fun '(d, ts2) =>
          bind (expect_r isParenRight ts2) (fun ts3 => Ok (TView d, ts3)))
      | KBracketLeft =>
          match ts1 with
          | [] => Err UnexpectedToken
          | t1 :: ts2 =>
            match kind t1 with
            | KBracketRight =>
                bind (parse_inner_type f ts2) (fun '(e, ts3) => Ok (TArraylike e, ts3))
            | KColon =>
                bind (expect_r isBracketRight ts2) (fun ts3 =>
                bind (parse_inner_type f ts3) (fun '(e, ts4) => Ok (TSlice e, ts4)))
            | KDots =>
                bind (expect_r isBracketRight ts2) (fun ts3 =>
                bind (parse_inner_type f ts3) (fun '(e, ts4) => Ok (TEndless e, ts4)))
            | KNakedDecimal =>
                bind (expect_r isBracketRight ts2) (fun ts3 =>
                bind (parse_inner_type f ts3) (fun '(e, ts4) =>
                  Ok (TArray (Z.modulo (value t1) usize_lim) e, ts4)))
            | KIdentifier =>
                bind (expect_r isBracketRight ts2) (fun ts3 =>
                bind (parse_inner_type f ts3) (fun '(e, ts4) =>
                  Ok (TArrayNamed (tok_name t1) e, ts4)))
            | _ => Err UnexpectedToken
            end
          end
      | _ => Err UnexpectedToken
      end
    end
  end.

Definition parse_type (f : nat) (ts : list tok) : res (ty * list tok) :=
  parse_inner_type f ts.

(* ------------------------------------------------------------------------- *)
(* Expressions                                                                *)
(* ------------------------------------------------------------------------- *)

(* `while consume_optional(As) { parse_type; TypeCast }` *)
Fixpoint as_loop (f : nat) (acc : expr) (ts : list tok) {struct f} : res (expr * list tok) :=
  match f with
  | O => Fuel
  | S f =>
    if isAs (hdk ts) then
      bind (parse_type f (tl ts)) (fun '(t, ts1) => as_loop f (ETypeCast acc t) ts1)
    else Ok (acc, ts)
  end.

(* `while consume_optional(Ampersand) { depth += 1; if depth > MAX_ADDRESS_DEPTH { Err } }`;
   None = MaximumParseDepthExceeded *)
Fixpoint amp_loop (d : N) (ts : list tok) : option (N * list tok) :=
  match ts with
  | t :: r =>
      if isAmpersand (kind t) then
        if (MAX_ADDRESS_DEPTH <? d + 1)%N then None else amp_loop (d + 1)%N r
      else Some (d, ts)
  | [] => Some (d, ts)
  end.

(* The whole mutual block takes [lim], the number of iterations the `for` loop of
   parse_deref_steps_list can make: MAX_REFERENCE_DEPTH + 1 = 128 for the REPAIRED code
   (`for _ in 0..=MAX_REFERENCE_DEPTH`), MAX_REFERENCE_DEPTH = 127 for the code at the
   pinned commit (`for _ in 0..MAX_REFERENCE_DEPTH`).  Nothing else depends on it. *)
Fixpoint parse_addition_g (lim : nat) (f : nat) (ts : list tok) {struct f} : res (expr * list tok) :=
  match f with
  | O => Fuel
  | S f => bind (parse_multiplication_g lim f ts) (fun '(e, ts1) => add_loop_g lim f e ts1)
  end

with add_loop_g (lim : nat) (f : nat) (acc : expr) (ts : list tok) {struct f} : res (expr * list tok) :=
  match f with
  | O => Fuel
  | S f =>
    match bitop_of (hdk ts) with
    | Some op => bit_loop_g lim f op acc (tl ts)
    | None =>
      match shiftop_of (hdk ts) with
      | Some op =>
          bind (parse_unary_g lim f (tl ts)) (fun '(r, ts1) => Ok (EBinary op acc r, ts1))
      | None =>
        match addop_of (hdk ts) with
        | Some op =>
            bind (parse_multiplication_g lim f (tl ts)) (fun '(r, ts1) =>
              add_loop_g lim f (EBinary op acc r) ts1)
        | None => Ok (acc, ts)
        end
      end
    end
  end

with bit_loop_g (lim : nat) (f : nat) (op : binop) (acc : expr) (ts : list tok) {struct f}
  : res (expr * list tok) :=
  match f with
  | O => Fuel
  | S f =>
    bind (parse_unary_g lim f ts) (fun '(r, ts1) =>
      if same_bitop op (hdk ts1) then bit_loop_g lim f op (EBinary op acc r) (tl ts1)
      else Ok (EBinary op acc r, ts1))
  end

with parse_multiplication_g (lim : nat) (f : nat) (ts : list tok) {struct f} : res (expr * list tok) :=
  match f with
  | O => Fuel
  | S f => bind (parse_singular_g lim f ts) (fun '(e, ts1) => mul_loop_g lim f e ts1)
  end

with mul_loop_g (lim : nat) (f : nat) (acc : expr) (ts : list tok) {struct f} : res (expr * list tok) :=
  match f with
  | O => Fuel
  | S f =>
    match mulop_of (hdk ts) with
    | Some op =>
        bind (parse_singular_g lim f (tl ts)) (fun '(r, ts1) => mul_loop_g lim f (EBinary op acc r) ts1)
    | None => Ok (acc, ts)
    end
  end

with parse_singular_g (lim : nat) (f : nat) (ts : list tok) {struct f} : res (expr * list tok) :=
  match f with
  | O => Fuel
  | S f =>
    if isCast (hdk ts) then
      bind (parse_unary_g lim f (tl ts)) (fun '(e, ts1) => as_loop f (EBitCast e) ts1)
    else
      bind (parse_unary_g lim f ts) (fun '(e, ts1) => as_loop f e ts1)
  end

with parse_unary_g (lim : nat) (f : nat) (ts : list tok) {struct f} : res (expr * list tok) :=
  match f with
  | O => Fuel
  | S f =>
    match hdk ts with
    | KPipeForType =>
        bind (parse_type f (tl ts)) (fun '(t, ts1) =>
        bind (expect_r isPipe ts1) (fun ts2 => Ok (ESizeOf t, ts2)))
    | KPipe =>
        bind (parse_reference_g lim f (tl ts)) (fun '(r, ts1) =>
        bind (expect_r isPipe ts1) (fun ts2 => Ok (ELength r, ts2)))
    | KExclamation =>
        bind (parse_primary_g lim f (tl ts)) (fun '(e, ts1) => Ok (EUnary BitwiseComplement e, ts1))
    | KMinus =>
        bind (parse_primary_g lim f (tl ts)) (fun '(e, ts1) => Ok (EUnary Negative e, ts1))
    | _ => parse_primary_g lim f ts
    end
  end

with parse_primary_g (lim : nat) (f : nat) (ts : list tok) {struct f} : res (expr * list tok) :=
  match f with
  | O => Fuel
  | S f =>
    match ts with
    | [] => Err UnexpectedToken
    | t :: ts1 =>
      match kind t with
      | KNakedDecimal | KBitInteger | KSuffixedInteger | KCharLiteral | KBool =>
          match literal_of t with
          | Some e => Ok (e, ts1)
          | None => Err UnexpectedToken
          end
      | KStringLiteral =>
          let '(bs, ts2) := take_strings ts1 in Ok (EString (bytes t ++ bs), ts2)
      | KAmpersand =>
          bind (parse_addressed_g lim f ts1) (fun '(r, ts2) =>
            if isDots (hdk ts2) then
              bind (parse_addition_g lim f (tl ts2)) (fun '(off, ts3) =>
                Ok (EBinary AdvancePointer (EDeref r) off, ts3))
            else Ok (EDeref r, ts2))
      | KIdentifier =>
          if isParenLeft (hdk ts1) then
            bind (expr_list_g lim f false (tl ts1)) (fun '(args, ts2) =>
              Ok (ECall false (tok_name t) args, ts2))
          else if isBraceLeft (hdk ts1) then
            bind (members_loop_g lim f (tl ts1)) (fun '(ms, ts2) =>
              Ok (EStructural (tok_name t) ms, ts2))
          else
            bind (steps_loop_g lim f O ts1) (fun '(steps, ts2) =>
              Ok (EDeref (Ref 0%N (tok_name t) steps), ts2))
      | KBuiltin =>
          bind (expect_r isParenLeft ts1) (fun ts2 =>
          bind (expr_list_g lim f false ts2) (fun '(args, ts3) =>
            Ok (ECall true (tok_name t) args, ts3)))
      | KBracketLeft =>
          bind (expr_list_g lim f true ts1) (fun '(es, ts2) => Ok (EArray es, ts2))
      | KParenLeft =>
          bind (parse_addition_g lim f ts1) (fun '(e, ts2) =>
          bind (expect_r isParenRight ts2) (fun ts3 => Ok (EParen e, ts3)))
      | _ => Err UnexpectedToken
      end
    end
  end

(* parse_rest_of_arguments / the array loop: the closing token IS consumed. *)
with expr_list_g (lim : nat) (f : nat) (br : bool) (ts : list tok) {struct f} : res (list expr * list tok) :=
  match f with
  | O => Fuel
  | S f =>
    if is_close br (hdk ts) then Ok ([], tl ts)
    else
      bind (parse_addition_g lim f ts) (fun '(e, ts1) =>
        if isComma (hdk ts1) then
          bind (expr_list_g lim f br (tl ts1)) (fun '(es, ts2) => Ok (e :: es, ts2))
        else
          bind (expect_r (is_close br) ts1) (fun ts2 => Ok ([e], ts2)))
  end

(* parse_rest_of_structural: the closing brace IS consumed. *)
with members_loop_g (lim : nat) (f : nat) (ts : list tok) {struct f}
  : res (list (name * expr) * list tok) :=
  match f with
  | O => Fuel
  | S f =>
    if isBraceRight (hdk ts) then Ok ([], tl ts)
    else
      bind (expect_id_r ts) (fun '(n, ts1) =>
      bind (if isColon (hdk ts1) then parse_addition_g lim f (tl ts1)
            else Ok (EDeref (Ref 0%N n []), ts1)) (fun '(e, ts2) =>
        if isComma (hdk ts2) then
          bind (members_loop_g lim f (tl ts2)) (fun '(ms, ts3) => Ok ((n, e) :: ms, ts3))
        else
          bind (expect_r isBraceRight ts2) (fun ts3 => Ok ([(n, e)], ts3))))
  end

(* The Ampersand arm of parse_primary_expression, first `&` taken: depth starts at 1. *)
with parse_addressed_g (lim : nat) (f : nat) (ts : list tok) {struct f} : res (reference * list tok) :=
  match f with
  | O => Fuel
  | S f =>
    match amp_loop 1%N ts with
    | None => Err DepthExceeded
    | Some (d, ts1) =>
        bind (expect_id_r ts1) (fun '(b, ts2) =>
        bind (steps_loop_g lim f O ts2) (fun '(steps, ts3) => Ok (Ref d b steps, ts3)))
    end
  end

(* parse_reference_g lim: depth starts at 0. *)
with parse_reference_g (lim : nat) (f : nat) (ts : list tok) {struct f} : res (reference * list tok) :=
  match f with
  | O => Fuel
  | S f =>
    match amp_loop 0%N ts with
    | None => Err DepthExceeded
    | Some (d, ts1) =>
        bind (expect_id_r ts1) (fun '(b, ts2) =>
        bind (steps_loop_g lim f O ts2) (fun '(steps, ts3) => Ok (Ref d b steps, ts3)))
    end
  end

(* parse_deref_steps_list; [k] iterations of the `for` loop are already done, [lim] is the
   number of iterations the loop can make. *)
with steps_loop_g (lim : nat) (f : nat) (k : nat) (ts : list tok) {struct f} : res (list step * list tok) :=
  match f with
  | O => Fuel
  | S f =>
    if (lim <=? k)%nat then Err DepthExceeded
    else if isBracketLeft (hdk ts) then
      bind (parse_addition_g lim f (tl ts)) (fun '(e, ts1) =>
      bind (expect_r isBracketRight ts1) (fun ts2 =>
      bind (steps_loop_g lim f (S k) ts2) (fun '(ss, ts3) => Ok (RsElement e :: ss, ts3))))
    else if isDot (hdk ts) then
      bind (expect_id_r (tl ts)) (fun '(m, ts1) =>
      bind (steps_loop_g lim f (S k) ts1) (fun '(ss, ts2) => Ok (RsMember m :: ss, ts2)))
    else Ok ([], ts)
  end.

(* `for _ in 0..=MAX_REFERENCE_DEPTH` (the repair) / `for _ in 0..MAX_REFERENCE_DEPTH` (pinned) *)
Definition REPAIRED_ITERATIONS : nat := S MAX_REFERENCE_DEPTH.
Definition PINNED_ITERATIONS : nat := MAX_REFERENCE_DEPTH.

(* THE MODEL: the repaired code. *)
Definition parse_addition := parse_addition_g REPAIRED_ITERATIONS.
Definition add_loop := add_loop_g REPAIRED_ITERATIONS.
Definition bit_loop := bit_loop_g REPAIRED_ITERATIONS.
Definition parse_multiplication := parse_multiplication_g REPAIRED_ITERATIONS.
Definition mul_loop := mul_loop_g REPAIRED_ITERATIONS.
Definition parse_singular := parse_singular_g REPAIRED_ITERATIONS.
Definition parse_unary := parse_unary_g REPAIRED_ITERATIONS.
Definition parse_primary := parse_primary_g REPAIRED_ITERATIONS.
Definition expr_list := expr_list_g REPAIRED_ITERATIONS.
Definition members_loop := members_loop_g REPAIRED_ITERATIONS.
Definition parse_addressed := parse_addressed_g REPAIRED_ITERATIONS.
Definition parse_reference := parse_reference_g REPAIRED_ITERATIONS.
Definition steps_loop := steps_loop_g REPAIRED_ITERATIONS.

(* The parser BEFORE the repair (pinned commit): at most 126 steps per reference. *)
Definition steps_loop_pinned := steps_loop_g PINNED_ITERATIONS.
Definition parse_expression_pinned_res (f : nat) (ts : list tok) : res (expr * list tok) :=
  parse_addition_g PINNED_ITERATIONS f ts.
Definition parse_expression_pinned (f : nat) (ts : list tok) : option (expr * list tok) :=
  to_opt (parse_expression_pinned_res f ts).

Definition parse_expression_res (f : nat) (ts : list tok) : res (expr * list tok) :=
  parse_addition f ts.

(* The executable interface: None = rejected or out of fuel. *)
Definition parse_expression (f : nat) (ts : list tok) : option (expr * list tok) :=
  to_opt (parse_expression_res f ts).

(* Tokens::with_reservation(|t| matches!(t, BraceLeft | Semicolon)) *)
Definition is_reserved (k : tkind) : bool := isBraceLeft k || isSemicolon k.

Fixpoint cut_reserved (ts : list tok) : list tok * list tok :=
  match ts with
  | [] => ([], [])
  | t :: r =>
      if is_reserved (kind t) then ([], ts)
      else let '(p, s) := cut_reserved r in (t :: p, s)
  end.

(* parse_comparison under the reservation of the `if` arm of parse_statement *)
Definition parse_comparison (f : nat) (ts : list tok)
  : res ((cmpop * expr * expr) * list tok) :=
  let '(p, s) := cut_reserved ts in
  bind (parse_addition f p) (fun '(l, p1) =>
    match cmpop_of (hdk p1) with
    | Some op =>
        bind (parse_addition f (tl p1)) (fun '(r, p2) => Ok ((op, l, r), p2 ++ s))
    | None => Err UnexpectedToken
    end).

(* ------------------------------------------------------------------------- *)
(* Specification side (no Rust counterpart in src/delta)                      *)
(* ------------------------------------------------------------------------- *)

(* What the first generation does in parse_unary_expression and the second leaves to
   a later stage: the sign of a negated literal is folded into the literal
   (RefParser.parse_unary, KMinus arm).  Bottom-up. *)
Definition fold_neg (e : expr) : expr :=
  match e with
  | ESigned v t =>
      if (0 <? v)%Z then ESigned (- v) t else EUnary Negative (ESigned v t)
  | EBits v t =>
      if (v =? i128_min_abs)%Z then ESigned (- i128_min_abs) t
      else EUnary Negative (EBits v t)
  | e' => EUnary Negative e'
  end.

Fixpoint fold_negative_literals (e : expr) : expr :=
  match e with
  | EBinary op l r => EBinary op (fold_negative_literals l) (fold_negative_literals r)
  | EUnary Negative e1 => fold_neg (fold_negative_literals e1)
  | EUnary BitwiseComplement e1 => EUnary BitwiseComplement (fold_negative_literals e1)
  | EBool _ | ESigned _ _ | EBits _ _ | EString _ | ESizeOf _ => e
  | EArray es => EArray (map fold_negative_literals es)
  | EStructural n ms =>
      EStructural n (map (fun me => (fst me, fold_negative_literals (snd me))) ms)
  | EParen e1 => EParen (fold_negative_literals e1)
  | EDeref r => EDeref (fold_ref r)
  | EBitCast e1 => EBitCast (fold_negative_literals e1)
  | ETypeCast e1 t => ETypeCast (fold_negative_literals e1) t
  | ELength r => ELength (fold_ref r)
  | ECall b n args => ECall b n (map fold_negative_literals args)
  end
with fold_ref (r : reference) : reference :=
  match r with
  | Ref d b steps => Ref d b (map fold_step steps)
  end
with fold_step (s : step) : step :=
  match s with
  | RsElement e => RsElement (fold_negative_literals e)
  | RsMember m => RsMember m
  end.

Definition is_bitop (op : binop) : bool :=
  match op with BitwiseAnd | BitwiseOr | BitwiseXor => true | _ => false end.
Definition is_shiftop (op : binop) : bool :=
  match op with ShiftLeft | ShiftRight => true | _ => false end.
Definition head_is (op : binop) (e : expr) : bool :=
  match e with EBinary op' _ _ => binop_eqb op op' | _ => false end.

(* Left operand of a bitwise / shift operator as the first generation wants it: not
   an unparenthesized binary expression, except the chain `a & b & c` itself. *)
Definition left_ok (op : binop) (l : expr) : bool :=
  if is_bitop op then negb (is_binary l) || head_is op l
  else if is_shiftop op then negb (is_binary l)
  else true.

(* [admissible e]: a tree built by the second generation that the first generation
   builds as well: every cast / size-of type is well-formed and no bitwise / shift
   operator has an unparenthesized binary left operand. *)
Fixpoint admissible (e : expr) : bool :=
  match e with
  | EBinary op l r => admissible l && admissible r && left_ok op l
  | EUnary _ e1 => admissible e1
  | EBool _ | ESigned _ _ | EBits _ _ | EString _ => true
  | EArray es => forallb admissible es
  | EStructural _ ms => forallb (fun me => admissible (snd me)) ms
  | EParen e1 => admissible e1
  | EDeref r => adm_ref r
  | EBitCast e1 => admissible e1
  | ETypeCast e1 t => admissible e1 && ty_wellformed t
  | ELength r => adm_ref r
  | ESizeOf t => ty_wellformed t
  | ECall _ _ args => forallb admissible args
  end
with adm_ref (r : reference) : bool :=
  match r with Ref _ _ steps => forallb adm_step steps end
with adm_step (s : step) : bool :=
  match s with RsElement e => admissible e | RsMember _ => true end.

(* [steps_ok_g lim e]: every reference of the tree has fewer than [lim] steps.
   [steps_ok] (lim = MAX_REFERENCE_DEPTH): what the PINNED second generation accepts
   (it rejects exactly 127 steps); every tree of the first generation satisfies
   [steps_ok_g REPAIRED_ITERATIONS]. *)
Fixpoint steps_ok_g (lim : nat) (e : expr) : bool :=
  match e with
  | EBinary _ l r => steps_ok_g lim l && steps_ok_g lim r
  | EUnary _ e1 => steps_ok_g lim e1
  | EBool _ | ESigned _ _ | EBits _ _ | EString _ | ESizeOf _ => true
  | EArray es => forallb (steps_ok_g lim) es
  | EStructural _ ms => forallb (fun me => steps_ok_g lim (snd me)) ms
  | EParen e1 => steps_ok_g lim e1
  | EDeref r => steps_ok_ref_g lim r
  | EBitCast e1 => steps_ok_g lim e1
  | ETypeCast e1 _ => steps_ok_g lim e1
  | ELength r => steps_ok_ref_g lim r
  | ECall _ _ args => forallb (steps_ok_g lim) args
  end
with steps_ok_ref_g (lim : nat) (r : reference) : bool :=
  match r with
  | Ref _ _ steps => (length steps <? lim)%nat && forallb (steps_ok_step_g lim) steps
  end
with steps_ok_step_g (lim : nat) (s : step) : bool :=
  match s with RsElement e => steps_ok_g lim e | RsMember _ => true end.

Definition steps_ok := steps_ok_g MAX_REFERENCE_DEPTH.
Definition steps_ok_ref := steps_ok_ref_g MAX_REFERENCE_DEPTH.
Definition steps_ok_step := steps_ok_step_g MAX_REFERENCE_DEPTH.

(* ------------------------------------------------------------------------- *)
(* Seeded mutants: NOT the code.  Each is the mutated function on top of the  *)
(* unmutated functions below it (enough for inputs without nesting).         *)
(* ------------------------------------------------------------------------- *)

(* Mutant 1: the right operand of `*` `/` `%` parsed by parse_multiplication. *)
Fixpoint mut1_parse_multiplication (f : nat) (ts : list tok) {struct f} : res (expr * list tok) :=
  match f with
  | O => Fuel
  | S f => bind (parse_singular f ts) (fun '(e, ts1) => mut1_mul_loop f e ts1)
  end
with mut1_mul_loop (f : nat) (acc : expr) (ts : list tok) {struct f} : res (expr * list tok) :=
  match f with
  | O => Fuel
  | S f =>
    match mulop_of (hdk ts) with
    | Some op =>
        bind (mut1_parse_multiplication f (tl ts)) (fun '(r, ts1) =>
          mut1_mul_loop f (EBinary op acc r) ts1)
    | None => Ok (acc, ts)
    end
  end.

(* parse_addition over the mutated multiplication (additive operators only) *)
Fixpoint mut1_add_loop (f : nat) (acc : expr) (ts : list tok) {struct f} : res (expr * list tok) :=
  match f with
  | O => Fuel
  | S f =>
    match addop_of (hdk ts) with
    | Some op =>
        bind (mut1_parse_multiplication f (tl ts)) (fun '(r, ts1) =>
          mut1_add_loop f (EBinary op acc r) ts1)
    | None => Ok (acc, ts)
    end
  end.

Definition mut1_parse_expression (f : nat) (ts : list tok) : res (expr * list tok) :=
  bind (mut1_parse_multiplication f ts) (fun '(e, ts1) => mut1_add_loop f e ts1).

(* Mutant 2: `while consume_optional(As)` became `if`. *)
Definition mut2_as_once (f : nat) (acc : expr) (ts : list tok) : res (expr * list tok) :=
  if isAs (hdk ts) then
    bind (parse_type f (tl ts)) (fun '(t, ts1) => Ok (ETypeCast acc t, ts1))
  else Ok (acc, ts).

Definition mut2_parse_singular (f : nat) (ts : list tok) : res (expr * list tok) :=
  if isCast (hdk ts) then
    bind (parse_unary f (tl ts)) (fun '(e, ts1) => mut2_as_once f (EBitCast e) ts1)
  else
    bind (parse_unary f ts) (fun '(e, ts1) => mut2_as_once f e ts1).

Definition mut2_parse_expression (f : nat) (ts : list tok) : res (expr * list tok) :=
  bind (mut2_parse_singular f ts) (fun '(e, ts1) =>
  bind (mul_loop f e ts1) (fun '(e', ts2) => add_loop f e' ts2)).

(* Mutant 3: the address depth of `&x` counted from 0 instead of 1. *)
Definition mut3_parse_addressed (f : nat) (ts : list tok) : res (reference * list tok) :=
  match amp_loop 0%N ts with
  | None => Err DepthExceeded
  | Some (d, ts1) =>
      bind (expect_id_r ts1) (fun '(b, ts2) =>
      bind (steps_loop f O ts2) (fun '(steps, ts3) => Ok (Ref d b steps, ts3)))
  end.

Definition mut3_parse_expression (f : nat) (ts : list tok) : res (expr * list tok) :=
  match ts with
  | t :: ts1 =>
      if isAmpersand (kind t) then
        bind (mut3_parse_addressed f ts1) (fun '(r, ts2) =>
          if isDots (hdk ts2) then
            bind (parse_addition f (tl ts2)) (fun '(off, ts3) =>
              Ok (EBinary AdvancePointer (EDeref r) off, ts3))
          else Ok (EDeref r, ts2))
      else parse_addition f ts
  | [] => parse_addition f ts
  end.
