(* Model of diagnostic locations of the first-generation front end.

   Executable definitions only.

     loc                  /repo/src/alpha/lexer.rs  struct Location (lines 106-113) without
                          [source_filename]: span.start, span.end (CHARACTER offsets),
                          line_number, line_offset.  All theorems are about ONE source, where
                          the file name is a constant; see the remark on file names below.
     loc_of_tok           the Location that lexer::lex_line attaches to a token
                          (lexer.rs 197-202 and 777-780; string errors 598-603, 662-667,
                          676-681, 691-696, 722-727, 743-747), read off Model/LexAlpha.v [mk]
     combined_with        Location::combined_with, lexer.rs lines 117-137 (CURRENT code):
                            [combined_with self other] is [self.combined_with(&other)]
                            line 119      end = max(self.span.end, other.span.end)
                            line 120      if other.span.start < self.span.start
                            lines 123-128   span other.start..end, line fields of OTHER, ..self
                            lines 132-135 else span self.start..end, ..self
     combined_with_pinned NOT THE CODE: Location::combined_with of the pinned commit
                          (git show 192b0da:src/alpha/lexer.rs, lines 117-125):
                          start = min, end = max, everything else [..self]  (defect D44)
     comparison_key       Location::comparison_key, lexer.rs lines 139-142, without the
                          file name: (line_number, line_offset)
     key_leb              [<=] of the derived lexicographic Ord of Rust tuples
                          (what [a.cmp(&b) != Greater] means for the key)
     insert_by, sort_by   a stable insertion sort standing for the [errors.sort_by(..)] of
                          Errors::sorted, /repo/src/alpha/error.rs lines 93-103.  Rust's
                          slice::sort_by is documented to be a STABLE sort; the proofs use
                          nothing about it but (a) the result is a permutation, (b) it is
                          sorted by the key, (c) elements with equal keys keep their order.
                          Any such function returns the same list (LocProofs.sorted_unique).
     insert_loc, sort_locs, sort_diags
                          the instances for locations and for (code, location) pairs
     take, count_lf, tail_len, line_start, line_at, col_at, anchoredb, anchored_lexb
                          SPECIFICATION side, executable so that it can be run against
                          real token locations: line and column of a character offset
                          computed from the source text alone.

   File names.  [combined_with] keeps [self.source_filename] in BOTH arms ([..self]), so
   combining locations of two files would give the span and line of the other file under
   the name of the receiver; the parser only combines locations of the tokens of one call
   of lexer::lex (one file).  [comparison_key] compares the file name first (str order),
   so Errors::sorted groups diagnostics by file; within one file the key is the pair
   modelled here.

   No fuel is needed: every function is structurally recursive on a list. *)
From PV Require Import Base.Common Base.Tok.

Local Open Scope N_scope.

Record loc := { l_start : N; l_end : N; l_line : N; l_offset : N }.

Definition loc_of_tok (t : tok) : loc :=
  {| l_start := tstart t; l_end := tend t; l_line := line t; l_offset := lstart t |}.

(* self.combined_with(&other) *)
Definition combined_with (self other : loc) : loc :=
  let e := N.max (l_end self) (l_end other) in
  if l_start other <? l_start self then
    {| l_start := l_start other; l_end := e; l_line := l_line other; l_offset := l_offset other |}
  else
    {| l_start := l_start self; l_end := e; l_line := l_line self; l_offset := l_offset self |}.

(* NOT THE CODE (pinned commit 192b0da) *)
Definition combined_with_pinned (self other : loc) : loc :=
  {| l_start := N.min (l_start self) (l_start other);
     l_end := N.max (l_end self) (l_end other);
     l_line := l_line self; l_offset := l_offset self |}.

Definition comparison_key (l : loc) : N * N := (l_line l, l_offset l).

Definition key_leb (a b : N * N) : bool :=
  (fst a <? fst b) || ((fst a =? fst b) && (snd a <=? snd b)).

Definition key_eqb (a b : N * N) : bool := (fst a =? fst b) && (snd a =? snd b).

(* [x] was in front of all of [l]: it goes in front of the elements with an equal key. *)
Fixpoint insert_by {A : Type} (key : A -> N * N) (x : A) (l : list A) : list A :=
  match l with
  | [] => [x]
  | y :: r => if key_leb (key x) (key y) then x :: y :: r else y :: insert_by key x r
  end.

Fixpoint sort_by {A : Type} (key : A -> N * N) (l : list A) : list A :=
  match l with
  | [] => []
  | x :: r => insert_by key x (sort_by key r)
  end.

Definition insert_loc : loc -> list loc -> list loc := insert_by comparison_key.
Definition sort_locs : list loc -> list loc := sort_by comparison_key.

(* A diagnostic: its code and its location (Error::code, Error::location). *)
Definition diag_key (d : code * loc) : N * N := comparison_key (snd d).
Definition sort_diags : list (code * loc) -> list (code * loc) := sort_by diag_key.

(* ------------------------------------------------------------------ *)
(* Specification side: positions computed from the source text. *)

Definition slen (cs : list N) : N := N.of_nat (length cs).

(* The first [k] characters. *)
Fixpoint take (k : N) (cs : list N) : list N :=
  match cs with
  | [] => []
  | c :: r => if k =? 0 then [] else c :: take (N.pred k) r
  end.

(* Number of LF characters. *)
Definition count_lf (s : list N) : N := slen (filter (N.eqb 10) s).

(* Number of characters after the last LF ([acc] more if there is none). *)
Fixpoint tail_len_go (p : list N) (acc : N) : N :=
  match p with
  | [] => acc
  | c :: r => tail_len_go r (if c =? 10 then 0 else acc + 1)
  end.
Definition tail_len (p : list N) : N := tail_len_go p 0.

(* 1 + number of LF among the first k characters. *)
Definition line_at (src : list N) (k : N) : N := 1 + count_lf (take k src).

(* Offset just after the last LF among the first k characters (0 if there is none). *)
Definition line_start (src : list N) (k : N) : N :=
  slen (take k src) - tail_len (take k src).

(* 0-based column, in characters. *)
Definition col_at (src : list N) (k : N) : N := k - line_start src k.

Definition anchoredb (src : list N) (l : loc) : bool :=
  (l_start l <=? l_end l) && (l_end l <=? slen src + 1) &&
  (l_line l =? line_at src (l_start l)) && (l_offset l =? col_at src (l_start l)).

(* The reported column lies within the span (string errors, see LocProofs). *)
Definition anchored_lexb (src : list N) (l : loc) : bool :=
  (l_start l <=? l_end l) && (l_end l <=? slen src + 1) &&
  (l_line l =? line_at src (l_start l)) &&
  (col_at src (l_start l) <=? l_offset l) &&
  (l_offset l <=? col_at src (l_start l) + (l_end l - l_start l)).
