(* Model of the control-flow lowering of src/alpha/generator.rs (first-generation
   LLVM generator) — properties "loop and goto are lowered to basic blocks
   correctly" and "every successful compilation yields valid IR" (control-flow
   part).  Executable definitions only.

   Mirrors:
     [append_block]      LLVMAppendBasicBlockInContext (block ids = creation order)
     [emit_at]/[emit]    LLVMPositionBuilderAtEnd + LLVMBuild* (ALWAYS appends at the
                         end of the block, whether or not it already has a terminator)
     [find_or_append]    fn find_or_append_labeled_block
     [lower_stmt]        impl Generatable for Statement (arms Goto, Label, If, Loop,
                         Block; every other statement is an abstract action [SAct])
                         and impl Generatable for Block (the SBlock arm)
     [lower_body]        impl Generatable for Declaration (the "entry" block) +
                         impl Generatable for FunctionBody (statements, then `ret`)
   The structured semantics [exec]/[exec_block]/[exec_list]/[jump_target] is the
   control-flow skeleton of Model/Sem.v with abstract actions and conditions.

   Abstraction: a statement that is not control flow is an action id [a]; the
   comparison of an `if` is a condition id [c] (its instructions are emitted in
   the current block: [ICmp c]); expression generation never creates blocks. *)
From PV Require Import Base.Common.

(* ---- structured statements ---------------------------------------------------- *)
Inductive stmt : Type :=
| SAct (a : N)
| SGoto (l : N)                  (* l = resolution id of the label *)
| SLabel (l : N)
| SIf (c : N) (t : stmt) (e : option stmt)
| SBlock (b : list stmt)
| SLoop.

Definition is_loop (s : stmt) : bool := match s with SLoop => true | _ => false end.
Definition is_nil {A} (l : list A) : bool := match l with [] => true | _ => false end.

(* `if let Some(&Statement::Loop { .. }) = self.statements.last()` *)
Fixpoint ends_in_loop (ss : list stmt) : bool :=
  match ss with
  | [] => false
  | s :: r => match r with [] => is_loop s | _ => ends_in_loop r end
  end.

(* the statements a Block generates one by one: all of them, or all but the
   final `loop` *)
Definition strip_loop (ss : list stmt) : list stmt :=
  if ends_in_loop ss then removelast ss else ss.

(* ---- control-flow graphs ------------------------------------------------------ *)
Inductive tag :=
| Entry          (* "entry" *)
| Looped         (* "looped-block" *)
| AfterLooped    (* "after-looped-block" *)
| Unreachable    (* "unreachable-after-goto" *)
| Lbl (l : N)    (* the label's own name *)
| Then_          (* "then" *)
| Else_          (* "else" *)
| After.         (* "after" *)

Inductive instr :=
| IAct (a : N)                   (* the instructions of one non-control statement *)
| ICmp (c : N)                   (* the instructions computing an `if` condition *)
| IBr (b : N)
| ICondBr (c : N) (b1 b2 : N)
| IRet.

Record block := { btag : tag; binstrs : list instr }.

(* builder state: the function's blocks in creation order, the insertion block,
   llvm.local_labeled_blocks *)
Record bstate := { blocks : list block; cur : N; lmap : list (N * N) }.

Definition next_id (bs : list block) : N := N.of_nat (length bs).
Definition get_block (bs : list block) (i : N) : option block := nth_error bs (N.to_nat i).

Fixpoint emit_nth (n : nat) (x : instr) (bs : list block) {struct bs} : list block :=
  match bs with
  | [] => []
  | b :: r =>
      match n with
      | O => {| btag := btag b; binstrs := binstrs b ++ [x] |} :: r
      | S n' => b :: emit_nth n' x r
      end
  end.

Definition emit_at (i : N) (x : instr) (s : bstate) : bstate :=
  {| blocks := emit_nth (N.to_nat i) x (blocks s); cur := cur s; lmap := lmap s |}.

Definition emit (x : instr) (s : bstate) : bstate := emit_at (cur s) x s.

Definition set_cur (i : N) (s : bstate) : bstate :=
  {| blocks := blocks s; cur := i; lmap := lmap s |}.

Definition append_block (t : tag) (s : bstate) : N * bstate :=
  (next_id (blocks s),
   {| blocks := blocks s ++ [{| btag := t; binstrs := [] |}]; cur := cur s; lmap := lmap s |}).

Fixpoint lookup_label (l : N) (m : list (N * N)) : option N :=
  match m with
  | [] => None
  | (l', i) :: r => if N.eqb l l' then Some i else lookup_label l r
  end.

Definition find_or_append (l : N) (s : bstate) : N * bstate :=
  match lookup_label l (lmap s) with
  | Some i => (i, s)
  | None =>
      let '(i, s1) := append_block (Lbl l) s in
      (i, {| blocks := blocks s1; cur := cur s1; lmap := (l, i) :: lmap s1 |})
  end.

(* [None] = the generator panics at `Statement::Loop { .. } => unreachable!()` *)
Fixpoint lower_stmt (s : stmt) (b : bstate) {struct s} : option bstate :=
  match s with
  | SAct a => Some (emit (IAct a) b)
  | SLoop => None
  | SGoto l =>
      let c0 := cur b in
      let '(u, b1) := append_block Unreachable b in
      let '(lb, b2) := find_or_append l b1 in
      Some (set_cur u (emit_at c0 (IBr lb) b2))
  | SLabel l =>
      let c0 := cur b in
      let '(lb, b1) := find_or_append l b in
      Some (set_cur lb (emit_at c0 (IBr lb) b1))
  | SIf c t e =>
      let b0 := emit (ICmp c) b in
      let cb := cur b0 in
      let '(th, b1) := append_block Then_ b0 in
      match lower_stmt t (set_cur th b1) with
      | None => None
      | Some b2 =>
          let te := cur b2 in
          match e with
          | None =>
              let '(af, b3) := append_block After b2 in
              Some (set_cur af (emit_at cb (ICondBr c th af) (emit_at te (IBr af) b3)))
          | Some e' =>
              let '(el, b3) := append_block Else_ b2 in
              match lower_stmt e' (set_cur el b3) with
              | None => None
              | Some b4 =>
                  let ee := cur b4 in
                  let '(af, b5) := append_block After b4 in
                  Some (set_cur af
                         (emit_at cb (ICondBr c th el)
                           (emit_at ee (IBr af) (emit_at te (IBr af) b5))))
              end
          end
      end
  | SBlock ss =>
      (* generates [strip_loop ss]: a final `loop` is left to the Block code *)
      let fix go (ss : list stmt) (b : bstate) {struct ss} : option bstate :=
        match ss with
        | [] => Some b
        | s :: r =>
            if is_loop s && is_nil r then Some b else
            match lower_stmt s b with
            | None => None
            | Some b1 => go r b1
            end
        end in
      if ends_in_loop ss then
        let '(lp, b1) := append_block Looped b in
        match go ss (set_cur lp (emit_at (cur b) (IBr lp) b1)) with
        | None => None
        | Some b2 =>
            let b3 := emit (IBr lp) b2 in
            let '(al, b4) := append_block AfterLooped b3 in
            Some (set_cur al b4)
        end
      else go ss b
  end.

Fixpoint lower_list (ss : list stmt) (b : bstate) : option bstate :=
  match ss with
  | [] => Some b
  | s :: r => match lower_stmt s b with None => None | Some b1 => lower_list r b1 end
  end.

Definition init_state : bstate :=
  {| blocks := [{| btag := Entry; binstrs := [] |}]; cur := 0%N; lmap := [] |}.

(* the builder state after the whole function body, `ret` included *)
Definition lower_body_state (body : list stmt) : option bstate :=
  match lower_list body init_state with
  | None => None
  | Some b => Some (emit IRet b)
  end.

Definition cfg := list block.

Definition lower_body (body : list stmt) : option cfg :=
  match lower_body_state body with None => None | Some b => Some (blocks b) end.

(* ---- printing / checking a CFG ------------------------------------------------ *)
Inductive term := TBr (b : N) | TCondBr (c : N) (b1 b2 : N) | TRet | TNone.

Definition is_term (i : instr) : bool :=
  match i with IBr _ | ICondBr _ _ _ | IRet => true | _ => false end.

(* action ids before the first terminator *)
Fixpoint acts_of (l : list instr) : list N :=
  match l with
  | [] => []
  | IAct a :: r => a :: acts_of r
  | ICmp _ :: r => acts_of r
  | _ => []
  end.

(* the first terminator *)
Fixpoint term_of (l : list instr) : term :=
  match l with
  | [] => TNone
  | IBr b :: _ => TBr b
  | ICondBr c b1 b2 :: _ => TCondBr c b1 b2
  | IRet :: _ => TRet
  | _ :: r => term_of r
  end.

Definition view_block (b : block) : tag * list N * term :=
  (btag b, acts_of (binstrs b), term_of (binstrs b)).

Definition cfg_view (g : cfg) : list (tag * list N * term) := map view_block g.

Definition target_ok (n : N) (i : instr) : bool :=
  match i with
  | IBr b => N.ltb b n
  | ICondBr _ b1 b2 => N.ltb b1 n && N.ltb b2 n
  | _ => true
  end.

(* non-terminators followed by exactly one terminator whose targets exist *)
Fixpoint instrs_wfb (n : N) (l : list instr) : bool :=
  match l with
  | [] => false
  | i :: r =>
      match r with
      | [] => is_term i && target_ok n i
      | _ => negb (is_term i) && instrs_wfb n r
      end
  end.

Definition tag_eqb (a b : tag) : bool :=
  match a, b with
  | Entry, Entry | Looped, Looped | AfterLooped, AfterLooped | Unreachable, Unreachable
  | Then_, Then_ | Else_, Else_ | After, After => true
  | Lbl x, Lbl y => N.eqb x y
  | _, _ => false
  end.

Definition count_tag (t : tag) (g : cfg) : nat :=
  length (filter (fun b => tag_eqb (btag b) t) g).

Definition cfg_wfb (g : cfg) : bool :=
  forallb (fun b => instrs_wfb (next_id g) (binstrs b)) g &&
  match g with b :: _ => tag_eqb (btag b) Entry | [] => false end &&
  Nat.eqb (count_tag Entry g) 1.

(* ---- structural predicates on bodies ------------------------------------------ *)
(* label declarations / goto targets, in generation order *)
Fixpoint labels_of (s : stmt) : list N :=
  match s with
  | SLabel l => [l]
  | SIf _ t e => labels_of t ++ match e with Some e' => labels_of e' | None => [] end
  | SBlock ss => (fix go (ss : list stmt) : list N :=
                    match ss with [] => [] | s :: r => labels_of s ++ go r end) ss
  | _ => []
  end.

Fixpoint labels_list (ss : list stmt) : list N :=
  match ss with [] => [] | s :: r => labels_of s ++ labels_list r end.

Fixpoint gotos_of (s : stmt) : list N :=
  match s with
  | SGoto l => [l]
  | SIf _ t e => gotos_of t ++ match e with Some e' => gotos_of e' | None => [] end
  | SBlock ss => (fix go (ss : list stmt) : list N :=
                    match ss with [] => [] | s :: r => gotos_of s ++ go r end) ss
  | _ => []
  end.

Fixpoint gotos_list (ss : list stmt) : list N :=
  match ss with [] => [] | s :: r => gotos_of s ++ gotos_list r end.

(* `loop` occurs only as the last statement of a block (E800/E801/E840) *)
Fixpoint loops_ok (s : stmt) : bool :=
  match s with
  | SLoop => false
  | SIf _ t e => loops_ok t && match e with Some e' => loops_ok e' | None => true end
  | SBlock ss =>
      (fix go (ss : list stmt) : bool :=
         match ss with
         | [] => true
         | s :: r => if is_loop s && is_nil r then true else loops_ok s && go r
         end) ss
  | _ => true
  end.

Fixpoint loops_ok_list (ss : list stmt) : bool :=
  match ss with [] => true | s :: r => loops_ok s && loops_ok_list r end.

Fixpoint nodupb (l : list N) : bool :=
  match l with [] => true | x :: r => negb (mem_name x r) && nodupb r end.

(* labels that are DIRECT children of a statement list *)
Fixpoint direct_labels (ss : list stmt) : list N :=
  match ss with
  | [] => []
  | SLabel l :: r => l :: direct_labels r
  | _ :: r => direct_labels r
  end.

(* every goto names a label that comes later in the same or an enclosing
   statement list ([V] = the labels visible from outside); this is
   Model/LabelScope.v [spec_stmt] without the E420 part, for bodies in which no
   label is the naked branch of an `if` (E840) *)
Fixpoint legal_stmt (s : stmt) (V : list N) {struct s} : bool :=
  match s with
  | SGoto l => mem_name l V
  | SIf _ t e => legal_stmt t V && match e with Some e' => legal_stmt e' V | None => true end
  | SBlock ss =>
      (fix go (ss : list stmt) : bool :=
         match ss with
         | [] => true
         | s :: r => legal_stmt s (direct_labels r ++ V) && go r
         end) ss
  | _ => true
  end.

Fixpoint legal_list (ss : list stmt) (V : list N) : bool :=
  match ss with
  | [] => true
  | s :: r => legal_stmt s (direct_labels r ++ V) && legal_list r V
  end.

(* the acceptance conditions of the earlier stages, as far as control flow goes *)
Definition accepted (body : list stmt) : bool :=
  nodupb (labels_list body) && legal_list body [] && loops_ok_list body.

(* ---- semantics ------------------------------------------------------------------ *)
Inductive outcome := ONormal | OJump (l : N).

Inductive res (A : Type) := Ok (a : A) | Stuck | OutOfFuel.
Arguments Ok {A}. Arguments Stuck {A}. Arguments OutOfFuel {A}.

(* Model/Sem.v [jump_target] *)
Fixpoint jump_target (l : N) (ss : list stmt) {struct ss} : option (list stmt) :=
  match ss with
  | [] => None
  | s :: r =>
      match s with
      | SLabel l' => if N.eqb l l' then Some r else jump_target l r
      | _ => jump_target l r
      end
  end.

Section Run.
Variable St : Type.
Variable act : N -> St -> St.
Variable cond : N -> St -> bool.

(* Model/Sem.v [exec] / [exec_block] / [exec_list] restricted to control flow *)
Fixpoint exec (fuel : nat) (s : stmt) (st : St) {struct fuel} : res (outcome * St) :=
  match fuel with
  | O => OutOfFuel
  | S f =>
      match s with
      | SAct a => Ok (ONormal, act a st)
      | SGoto l => Ok (OJump l, st)
      | SLabel _ => Ok (ONormal, st)
      | SIf c t e =>
          if cond c st then exec f t st
          else match e with Some e' => exec f e' st | None => Ok (ONormal, st) end
      | SBlock b => exec_block f b b st
      | SLoop => Stuck
      end
  end

with exec_block (fuel : nat) (whole rest : list stmt) (st : St) {struct fuel} : res (outcome * St) :=
  match fuel with
  | O => OutOfFuel
  | S f =>
      match rest with
      | [] => Ok (ONormal, st)
      | s :: r =>
          if is_loop s && is_nil r then exec_block f whole whole st else
          match exec f s st with
          | Ok (ONormal, st1) => exec_block f whole r st1
          | Ok (OJump l, st1) =>
              match jump_target l r with
              | Some r' => exec_block f whole r' st1
              | None => Ok (OJump l, st1)
              end
          | Stuck => Stuck
          | OutOfFuel => OutOfFuel
          end
      end
  end.

Fixpoint exec_list (fuel : nat) (ss : list stmt) (st : St) {struct fuel} : res (outcome * St) :=
  match fuel with
  | O => OutOfFuel
  | S f =>
      match ss with
      | [] => Ok (ONormal, st)
      | s :: r =>
          match exec f s st with
          | Ok (ONormal, st1) => exec_list f r st1
          | Ok (OJump l, st1) =>
              match jump_target l r with
              | Some r' => exec_list f r' st1
              | None => Ok (OJump l, st1)
              end
          | Stuck => Stuck
          | OutOfFuel => OutOfFuel
          end
      end
  end.

(* a function body: a jump that leaves the body is stuck (Model/Sem.v [call]) *)
Definition run_body (fuel : nat) (body : list stmt) (st : St) : res St :=
  match exec_list fuel body st with
  | Ok (ONormal, st') => Ok st'
  | Ok (OJump _, _) => Stuck
  | Stuck => Stuck
  | OutOfFuel => OutOfFuel
  end.

(* CFG execution: one unit of fuel per instruction; position = (block, index) *)
Inductive cres := CRet (st : St) | CStuck | COutOfFuel.

Fixpoint run_from (fuel : nat) (g : cfg) (b : N) (k : nat) (st : St) {struct fuel} : cres :=
  match fuel with
  | O => COutOfFuel
  | S f =>
      match get_block g b with
      | None => CStuck
      | Some blk =>
          match nth_error (binstrs blk) k with
          | None => CStuck                       (* fell off an unterminated block *)
          | Some (IAct a) => run_from f g b (S k) (act a st)
          | Some (ICmp _) => run_from f g b (S k) st
          | Some (IBr b') => run_from f g b' O st
          | Some (ICondBr c b1 b2) => run_from f g (if cond c st then b1 else b2) O st
          | Some IRet => CRet st
          end
      end
  end.

Definition run_cfg (fuel : nat) (g : cfg) (st : St) : cres := run_from fuel g 0%N O st.
End Run.

Arguments CRet {St}. Arguments CStuck {St}. Arguments COutOfFuel {St}.

(* ---- traces: the same runs over states that record the executed actions ------ *)
Definition tact {St} (act : N -> St -> St) (a : N) (p : list N * St) : list N * St :=
  (fst p ++ [a], act a (snd p)).
Definition tcond {St} (cond : N -> St -> bool) (c : N) (p : list N * St) : bool :=
  cond c (snd p).

Definition trace_body {St} act cond (fuel : nat) (body : list stmt) (st : St) : res (list N * St) :=
  run_body (list N * St) (tact act) (tcond cond) fuel body ([], st).

Definition trace_cfg {St} act cond (fuel : nat) (g : cfg) (st : St) : cres (list N * St) :=
  run_cfg (list N * St) (tact act) (tcond cond) fuel g ([], st).
