(* Model of the header extraction of the second-generation ("delta") parser.

   Executable definitions only.  Mirrors

     src/delta/parser/parse_node.rs
       enum ParseNode                      -> [node] (abstracted, see below)
       ParseNode::is_declaration           -> [is_declaration]
       ParseNode::convert_for_head         -> [adjust], [convert]
     src/delta/parser/parse_tree.rs
       ParseTree::build_header_nodes       -> [build], [build_header]
       ParseTree::build_header (the `declarations` vector) -> [decl_indices]
       ParseBuffer::push                   -> [push]
       ParseBuffer::patch_list_item / finish_impl /
       ParseBuffer::patch_start_of_private_zone -> [patch]
       ParseBuffer::set_private            -> [set_private]
       ParseBuffer::set_public             -> [set_public]
     src/delta/parser.rs
       parse (5 padding nodes), parse_declaration, parse_function_declaration
                                           -> the op lists in [ex_ops] (examples only)

   ABSTRACTION OF ParseNode.  `convert_for_head` and `build_header_nodes` look at
   the variant, at the NodeId carried by ten variants, and at the Public bit of
   DeclarationFlags; everything else is copied.  So a node is
     NPlain tag payload   any of the 53 variants that `convert_for_head` returns
                          unchanged (`=> self`); [tag] is the position of the
                          variant in the enum (NoMoreItems = 0, ...,
                          UnpatchedListItem = 52, Then = 53), [payload] the
                          TokenId / u8 / bool / operator fields, opaque here.
     NFlags is_pub rest   DeclarationFlags(set): Public bit, and the other bits
                          (External, Main, Forward, OpaqueStruct) as a number.
     NRef k target        ThenElse{then} If{comparison} Block{first} Item{at}
                          List{first} ListItem{next}: the six variants whose
                          NodeId goes through `adjust`.  All six are treated
                          identically by the code, [k] only remembers which.
     NImpl body           FunctionImpl{body}: becomes NoMoreItems, id dropped.
     NStart e / NEnd s / NEndless
                          StartPrivateZone{end} / EndPrivateZone{start} /
                          EndlessPrivateZone.
   NodeId is a U24; it is modelled by an unbounded N (the model assumes stored
   ids are < 2^24, which `From<U24>` guarantees).

   ARITHMETIC.  Release-build semantics.  `adjust` computes
   `U24::new(i - num_skipped_nodes)`; the debug_assert `i >= num_skipped_nodes`
   vanishes in release builds, the usize subtraction wraps and U24::new keeps the
   low 24 bits: [adjust] returns (i - s) mod 2^24 in that case.  The zone jump
   `num_skipped_nodes += end + 1 - i` wraps when end + 1 < i (debug: panic);
   the model does not follow the code into that territory and returns [Wrapped].
   Neither case arises for arrays satisfying [zones_wfb]/[refs_localb]
   (HeaderProofs: adjust_exact_on_wf, header_is_filter). *)
From PV Require Import Base.Common.

Local Open Scope N_scope.

(* ---- ParseNode ----------------------------------------------------------- *)

Inductive refkind : Type :=
| RThenElse   (* ThenElse { then }     backward: the then-statement          *)
| RIf         (* If { comparison }     backward: the Comparison node         *)
| RBlock      (* Block { first }       backward: first ListItem / NoMoreItems *)
| RItem       (* Item { at }           backward: an older node               *)
| RList       (* List { first }        backward: first ListItem / NoMoreItems *)
| RListItem.  (* ListItem { next }     FORWARD: next ListItem / NoMoreItems  *)

Inductive node : Type :=
| NPlain (tag : N) (payload : list N)
| NFlags (is_pub : bool) (rest : N)
| NRef (k : refkind) (target : N)
| NImpl (body : N)            (* FORWARD: FunctionBody node of the function *)
| NStart (end_ : N)           (* FORWARD: the matching EndPrivateZone *)
| NEnd (start : N)            (* backward: the matching StartPrivateZone *)
| NEndless.

(* Tags of the variants the model has to name (position in the enum). *)
Definition T_NoMoreItems : N := 0.
Definition T_FunctionDeclaration : N := 2.
Definition T_ConstantDeclaration : N := 3.
Definition T_StructureDeclaration : N := 4.
Definition T_ImportDeclaration : N := 5.
Definition T_UnpatchedListItem : N := 52.

Definition NoMoreItems : node := NPlain T_NoMoreItems [].
Definition UnpatchedListItem : node := NPlain T_UnpatchedListItem [].

Definition is_marker (n : node) : bool :=
  match n with
  | NStart _ | NEnd _ | NEndless => true
  | _ => false
  end.

(* ParseNode::is_declaration *)
Definition is_declaration (n : node) : bool :=
  match n with
  | NPlain t _ =>
      (t =? T_FunctionDeclaration) || (t =? T_ConstantDeclaration)
      || (t =? T_StructureDeclaration) || (t =? T_ImportDeclaration)
  | _ => false
  end.

(* ---- convert_for_head ---------------------------------------------------- *)

Definition U24_MOD : N := 16777216.

(* the closure `adjust` inside convert_for_head (release semantics) *)
Definition adjust (skipped i : N) : N :=
  if skipped <=? i then i - skipped
  else (U24_MOD - (skipped - i) mod U24_MOD) mod U24_MOD.

Definition convert (skipped : N) (n : node) : node :=
  match n with
  | NPlain _ _ => n
  | NFlags _ rest => NFlags false rest
  | NRef k t => NRef k (adjust skipped t)
  | NImpl _ => NoMoreItems
  | NStart _ | NEnd _ | NEndless => n   (* debug_assert!(false); release: self *)
  end.

(* ---- build_header_nodes -------------------------------------------------- *)

Definition get (ns : list node) (i : N) : option node := nth_error ns (N.to_nat i).
Definition len (ns : list node) : N := N.of_nat (length ns).

Inductive outcome : Type :=
| Done (header : list node)
| OutOfFuel       (* the Rust loop does not terminate (a zone that ends before it starts) *)
| Wrapped.        (* `end + 1 - i` would wrap (debug builds panic) *)

(* `while i < self.nodes.len() { match self.nodes[i] ... }`.
   One unit of fuel per loop iteration; the exit test costs nothing, so
   [length ns] units suffice for every terminating run (the next index is a
   function of the current index alone, so a terminating run visits no index
   twice).  [acc] is the output buffer, most recent node first. *)
Fixpoint build (ns : list node) (fuel : nat) (i skipped : N) (acc : list node)
  : outcome :=
  match get ns i with
  | None => Done (rev acc)                       (* i >= len: loop exit *)
  | Some n =>
      match fuel with
      | O => OutOfFuel
      | S fuel' =>
          match n with
          | NStart e =>
              if i <=? e + 1
              then build ns fuel' (e + 1) (skipped + (e + 1 - i)) acc
              else Wrapped
          | NEnd _ => Done (rev acc)             (* debug_assert!(false); break *)
          | NEndless => Done (rev acc)           (* break *)
          | _ => build ns fuel' (i + 1) skipped (convert skipped n :: acc)
          end
      end
  end.

Definition build_header (ns : list node) : outcome := build ns (length ns) 0 0 [].

(* ---- positions ----------------------------------------------------------- *)

Fixpoint indexed (p : N) (l : list node) : list (N * node) :=
  match l with
  | [] => []
  | n :: r => (p, n) :: indexed (p + 1) r
  end.

(* ParseTree::build_header: `declarations` of the new tree = positions of the
   declaration nodes of the new node array. *)
Definition decl_indices (ns : list node) : list N :=
  map fst (filter (fun jn => is_declaration (snd jn)) (indexed 0 ns)).

(* ---- specification: the public interface --------------------------------- *)

(* Position [i] is covered by the zone marker [snd sn] standing at [fst sn]. *)
Definition covers (i : N) (sn : N * node) : bool :=
  match snd sn with
  | NStart e => (fst sn <=? i) && (i <=? e)
  | NEndless => fst sn <=? i
  | _ => false
  end.

(* [i] lies in a private zone (markers included): between a StartPrivateZone
   and the end it names, or at/after an EndlessPrivateZone. *)
Definition privateb (ns : list node) (i : N) : bool :=
  existsb (covers i) (indexed 0 ns).

(* number of private positions among the positions p, p+1, ... of [l] *)
Definition count_private (all : list node) (p : N) (l : list node) : N :=
  N.of_nat (length (filter (fun jn => privateb all (fst jn)) (indexed p l))).

(* number of private positions before [i] *)
Definition skipped_before (ns : list node) (i : N) : N :=
  count_private ns 0 (firstn (N.to_nat i) ns).

(* the public nodes of [l] (which occupies positions p, p+1, ... of [all]),
   in order, each converted with the number of private nodes before it *)
Definition public_part (all : list node) (p : N) (l : list node) : list node :=
  map (fun jn => convert (skipped_before all (fst jn)) (snd jn))
      (filter (fun jn => negb (privateb all (fst jn))) (indexed p l)).

Definition header_spec (ns : list node) : list node := public_part ns 0 ns.

(* where public position [i] ends up in the header *)
Definition image (ns : list node) (i : N) : N := i - skipped_before ns i.

(* ---- executable well-formedness checks ----------------------------------- *)

Definition slice (ns : list node) (from to_excl : N) : list node :=
  firstn (N.to_nat (to_excl - from)) (skipn (N.to_nat from) ns).

(* Zone markers are paired and zones are not nested:
   StartPrivateZone{end:e} at s  =>  s < e, nodes[e] = EndPrivateZone{start:s},
                                     no marker strictly between s and e;
   EndPrivateZone{start:s} at e  =>  s < e, nodes[s] = StartPrivateZone{end:e}. *)
Definition zone_ok (ns : list node) (sn : N * node) : bool :=
  match snd sn with
  | NStart e =>
      (fst sn <? e)
      && match get ns e with
         | Some (NEnd s') => s' =? fst sn
         | _ => false
         end
      && forallb (fun n => negb (is_marker n)) (slice ns (fst sn + 1) e)
  | NEnd s =>
      (s <? fst sn)
      && match get ns s with
         | Some (NStart e') => e' =? fst sn
         | _ => false
         end
  | _ => true
  end.

Definition zones_wfb (ns : list node) : bool := forallb (zone_ok ns) (indexed 0 ns).

(* Reference locality: an adjusted NodeId of a public node stays inside the
   array and no zone marker stands between the node and its target. *)
Definition ref_ok (ns : list node) (jn : N * node) : bool :=
  match snd jn with
  | NRef _ t =>
      privateb ns (fst jn)
      || ((t <? len ns)
          && forallb (fun n => negb (is_marker n))
               (slice ns (N.min (fst jn) t) (N.max (fst jn) t + 1)))
  | _ => true
  end.

Definition refs_localb (ns : list node) : bool := forallb (ref_ok ns) (indexed 0 ns).

(* ---- ParseBuffer: the generator side ------------------------------------- *)

Record buffer : Type := mkBuffer {
  b_nodes : list node;              (* nodes[..num_nodes] *)
  b_active : option N               (* active_private_zone *)
}.

Definition empty_buffer : buffer := mkBuffer [] None.

(* ParseBuffer::push (capacity panic not modelled) *)
Definition push (b : buffer) (n : node) : buffer * N :=
  (mkBuffer (b_nodes b ++ [n]) (b_active b), len (b_nodes b)).

Fixpoint set_nth (i : nat) (n : node) (l : list node) : list node :=
  match l, i with
  | [], _ => []
  | _ :: r, O => n :: r
  | x :: r, S i' => x :: set_nth i' n r
  end.

(* patch_list_item / patch_start_of_private_zone: `assert!(i < self.num_nodes)`,
   then overwrite (the debug_assert on the old content is not checked here, it is
   a premise of [ops_ok]).  None = the assert fails. *)
Definition patch (b : buffer) (i : N) (n : node) : option buffer :=
  if i <? len (b_nodes b)
  then Some (mkBuffer (set_nth (N.to_nat i) n (b_nodes b)) (b_active b))
  else None.

Definition set_private (b : buffer) : buffer :=
  match b_active b with
  | None => let '(b', id) := push b NEndless in mkBuffer (b_nodes b') (Some id)
  | Some _ => b
  end.

Definition set_public (b : buffer) : option buffer :=
  match b_active b with
  | Some start =>
      let '(b', e) := push (mkBuffer (b_nodes b) None) (NEnd start) in
      patch b' start (NStart e)
  | None => Some b
  end.

(* What the parser does to the buffer. *)
Inductive op : Type :=
| OPush (n : node)              (* push, push_undeclared, push_older_node, push_list, ... *)
| OPatch (i : N) (n : node)     (* patch_list_item, finish_impl *)
| OPrivate                      (* set_private *)
| OPublic.                      (* set_public *)

Definition run_op (b : buffer) (o : op) : option buffer :=
  match o with
  | OPush n => Some (fst (push b n))
  | OPatch i n => patch b i n
  | OPrivate => Some (set_private b)
  | OPublic => set_public b
  end.

Fixpoint run_ops (b : buffer) (ops : list op) : option buffer :=
  match ops with
  | [] => Some b
  | o :: r => match run_op b o with Some b' => run_ops b' r | None => None end
  end.

(* The parser's discipline: it never pushes a zone marker itself, and it only
   patches nodes that hold UnpatchedListItem (the debug_assert of
   patch_list_item) with a non-marker. *)
Definition op_ok (b : buffer) (o : op) : bool :=
  match o with
  | OPush n => negb (is_marker n)
  | OPatch i n =>
      negb (is_marker n)
      && match get (b_nodes b) i with
         | Some (NPlain t _) => t =? T_UnpatchedListItem
         | _ => false
         end
  | OPrivate | OPublic => true
  end.

Fixpoint ops_ok (b : buffer) (ops : list op) : bool :=
  match ops with
  | [] => true
  | o :: r =>
      op_ok b o && match run_op b o with Some b' => ops_ok b' r | None => false end
  end.

(* ---- a realistic module --------------------------------------------------- *)

(*  pub const A: i32 = 1;
    const B: i32 = 2;
    pub fn f(x: i32) -> i32 { return: x }
    fn g() {}
    (the last declaration is private: its zone is never closed) *)
Definition P (tag : N) : node := NPlain tag [].
Definition ex_ops : list op :=
  (* parse(): MAX_PARSE_NODE_CONTEXT padding nodes *)
  [OPush NoMoreItems; OPush NoMoreItems; OPush NoMoreItems; OPush NoMoreItems;
   OPush NoMoreItems;
   (* pub const A: i32 = 1; *)
   OPublic;
   OPush (P 41);                 (*  5 SimpleValueType i32 *)
   OPush (P 27);                 (*  6 UntypedIntegerLiteral *)
   OPush (NRef RItem 5);         (*  7 Item{at: value_type} *)
   OPush (P 8);                  (*  8 Identifier *)
   OPush (NFlags true 0);        (*  9 DeclarationFlags(Public) *)
   OPush (P 3);                  (* 10 ConstantDeclaration *)
   (* const B: i32 = 2; *)
   OPrivate;                     (* 11 EndlessPrivateZone -> StartPrivateZone{18} *)
   OPush (P 41); OPush (P 27); OPush (NRef RItem 12); OPush (P 8);
   OPush (NFlags false 0);       (* 12..16 *)
   OPush (P 3);                  (* 17 ConstantDeclaration *)
   (* pub fn f(x: i32) -> i32 { return: x } *)
   OPublic;                      (* 18 EndPrivateZone{11} *)
   OPush (P 41);                 (* 19 SimpleValueType i32 (parameter type) *)
   OPush (P 9);                  (* 20 IdentifierAndType x *)
   OPush UnpatchedListItem;      (* 21 -> ListItem{next: 22} *)
   OPush NoMoreItems;            (* 22 end of parameter list *)
   OPatch 21 (NRef RListItem 22);
   OPush (P 41);                 (* 23 return type *)
   OPush UnpatchedListItem;      (* 24 -> FunctionImpl{body: 39} *)
   OPush (NRef RItem 23);        (* 25 Item{at: return_type} *)
   OPush (NRef RList 21);        (* 26 List{first: parameters} *)
   OPush (P 8);                  (* 27 Identifier f *)
   OPush (NFlags true 0);        (* 28 DeclarationFlags(Public) *)
   OPush (P 2);                  (* 29 FunctionDeclaration *)
   OPrivate;                     (* 30 EndlessPrivateZone -> StartPrivateZone{40} *)
   OPush NoMoreItems;            (* 31 end of statement list *)
   OPush NoMoreItems;            (* 32 end of deref steps *)
   OPush (NRef RList 32);        (* 33 List{first: steps} *)
   OPush (P 8);                  (* 34 Identifier x *)
   OPush (P 34);                 (* 35 DerefAddressDepth *)
   OPush (P 33);                 (* 36 Deref *)
   OPush (NRef RItem 36);        (* 37 Item{at: return_value} *)
   OPush (NRef RList 31);        (* 38 List{first: statements} *)
   OPush (P 6);                  (* 39 FunctionBody *)
   OPublic;                      (* 40 EndPrivateZone{30} *)
   OPatch 24 (NImpl 39);
   (* fn g() {} *)
   OPrivate;                     (* 41 EndlessPrivateZone, never patched *)
   OPush NoMoreItems;            (* 42 end of parameter list *)
   OPush (P 41);                 (* 43 SimpleValueType void *)
   OPush UnpatchedListItem;      (* 44 -> FunctionImpl{body: 53} *)
   OPush (NRef RItem 43); OPush (NRef RList 42); OPush (P 8);
   OPush (NFlags false 0); OPush (P 2);          (* 45..49 *)
   OPush NoMoreItems;            (* 50 end of statement list *)
   OPush NoMoreItems;            (* 51 no return value *)
   OPush (NRef RList 50);        (* 52 List{first: statements} *)
   OPush (P 6);                  (* 53 FunctionBody *)
   OPatch 44 (NImpl 53)].

Definition ex_nodes : list node :=
  match run_ops empty_buffer ex_ops with
  | Some b => b_nodes b
  | None => []
  end.
