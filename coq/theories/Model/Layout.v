(* Model of the two layout computations behind `|:T|` (property C10).

   (A) the type checker's word layout
       src/alpha/value_type.rs  MAXIMUM_ALIGNMENT, known_size_in_bytes_as_word_member
       src/alpha/typer.rs       fn align, Typer::align_struct (E380 WordSizeMismatch)
   (B) LLVM's layout of the non-packed struct types the generator emits
       src/alpha/generator.rs   DEFAULT_DATA_LAYOUT "e-m:e-p:64:64-i64:64-n8:16:32:64-S64",
                                impl Generatable for ValueType (which LLVM type a
                                Penne type becomes), Generator::size_in_bits
                                (LLVMSizeOfTypeInBits = DataLayout::getTypeSizeInBits)
                                and the two Expression::SizeOf arms.
       llvm/lib/IR/DataLayout.cpp  StructLayout::StructLayout, getTypeSizeInBits,
                                getTypeStoreSize, getTypeAllocSize, getABITypeAlign,
                                getIntegerAlignment.

   Executable definitions only; all sizes are in bytes unless the name says bits. *)
From PV Require Import Base.Common.
Open Scope Z_scope.

Definition E380 : code := 380%N.

(* ---- (A) type checker ------------------------------------------------------ *)

(* value_type.rs: pub const MAXIMUM_ALIGNMENT: usize = 8; *)
Definition MAXIMUM_ALIGNMENT : Z := 8.

(* typer.rs: fn align(current_size, alignment)
     alignment * ((current_size + alignment - 1) / alignment)
   (usize division = floor division on non-negative numbers).  The same function
   models llvm::alignTo. *)
Definition align_up (x a : Z) : Z := a * ((x + a - 1) / a).

(* usize::next_power_of_two: the smallest power of two >= x; 0 and 1 give 1. *)
Definition next_pow2 (x : Z) : Z := if x <=? 1 then 1 else 2 ^ Z.log2_up x.

(* align_struct: size_in_bytes.next_power_of_two().min(MAXIMUM_ALIGNMENT) *)
Definition member_alignment (size : Z) : Z := Z.min (next_pow2 size) MAXIMUM_ALIGNMENT.

(* The Penne value types as far as known_size_in_bytes_as_word_member
   distinguishes them.  [PWord d] is ValueType::Word { size_in_bytes: d };
   [POther] stands for every variant that answers None (Void, Usize, arrays,
   slices, Struct, pointers, views, ...). *)
Inductive pvt : Type :=
| PInt8 | PInt16 | PInt32 | PInt64 | PInt128
| PUint8 | PUint16 | PUint32 | PUint64 | PUint128
| PChar8 | PBool
| PWord (declared : Z)
| POther.

Definition known_size_in_bytes_as_word_member (v : pvt) : option Z :=
  match v with
  | PInt8 | PUint8 | PChar8 | PBool => Some 1
  | PInt16 | PUint16 => Some 2
  | PInt32 | PUint32 => Some 4
  | PInt64 | PUint64 => Some 8
  | PInt128 | PUint128 => Some 16
  | PWord d => Some d
  | POther => None
  end.

(* The loop of align_struct over the member sizes, state
   (total_size_in_bytes, total_alignment). *)
Fixpoint typer_loop (members : list Z) (size al : Z) : Z * Z :=
  match members with
  | [] => (size, al)
  | s :: rest =>
      let a := member_alignment s in
      let size1 := align_up size a + s in
      let al1 := if al <? a then a else al in
      typer_loop rest size1 al1
  end.

(* aligned_size_in_bytes: the loop starts at size 0, alignment 1. *)
Definition typer_aligned_size (members : list Z) : Z :=
  let '(size, al) := typer_loop members 0 1 in align_up size al.

(* if aligned_size_in_bytes <= declared_size_in_bytes { Ok } else { E380 } *)
Definition word_accepted (declared : Z) (members : list Z) : bool :=
  typer_aligned_size members <=? declared.

(* align_struct on the members of a `wordN` declaration.  Members answering None
   are skipped by the loop (inside a word they cannot occur: can_be_word_member
   has poisoned them before, and a poisoned member makes align_struct return
   Poisoned without E380; that case is not modelled). *)
Fixpoint known_sizes (members : list pvt) : list Z :=
  match members with
  | [] => []
  | m :: rest =>
      match known_size_in_bytes_as_word_member m with
      | Some s => s :: known_sizes rest
      | None => known_sizes rest
      end
  end.

Definition align_struct_word (declared : Z) (members : list pvt) : list code :=
  if word_accepted declared (known_sizes members) then [] else [E380].

(* ---- (B) LLVM -------------------------------------------------------------- *)

(* The LLVM types the generator emits.  [TInt b] is the integer type of 8*b bits,
   b in {1,2,4,8,16} (usize is i64 = TInt 8); [TBool] is i1. *)
Inductive ty : Type :=
| TInt (bytes : Z)
| TBool
| TPtr
| TArr (n : Z) (t : ty)
| TStruct (ms : list ty).

(* DataLayout::getIntegerAlignment under "i64:64" plus the defaults i1:8 i8:8
   i16:16 i32:32: the first entry at least as wide as the type, otherwise the
   largest entry (i64:64) -- so i128 is aligned to 8. *)
Definition int_abi_align (bytes : Z) : Z :=
  if bytes <=? 1 then 1 else if bytes <=? 2 then 2 else if bytes <=? 4 then 4 else 8.

(* StructLayout::StructLayout on (alloc size, ABI alignment) pairs; state
   (StructSize, StructAlignment); result (member offsets, size, alignment) before
   the final padding. *)
Fixpoint layout_loop (ms : list (Z * Z)) (size al : Z) : list Z * Z * Z :=
  match ms with
  | [] => ([], size, al)
  | (sz, a) :: rest =>
      let off := align_up size a in
      let '(offs, size1, al1) := layout_loop rest (off + sz) (Z.max a al) in
      (off :: offs, size1, al1)
  end.

Definition layout_offsets (ms : list (Z * Z)) : list Z :=
  let '(offs, _, _) := layout_loop ms 0 1 in offs.
Definition layout_align (ms : list (Z * Z)) : Z :=
  let '(_, _, al) := layout_loop ms 0 1 in al.
(* StructSize = alignTo(StructSize, StructAlignment) *)
Definition layout_size (ms : list (Z * Z)) : Z :=
  let '(_, size, al) := layout_loop ms 0 1 in align_up size al.

(* getABITypeAlign *)
Fixpoint llvm_align (t : ty) : Z :=
  match t with
  | TInt b => int_abi_align b
  | TBool => 1
  | TPtr => 8
  | TArr _ e => llvm_align e
  | TStruct ms =>
      (fix go (l : list ty) : Z :=
         match l with
         | [] => 1
         | m :: rest => Z.max (llvm_align m) (go rest)
         end) ms
  end.

Fixpoint llvm_align_list (l : list ty) : Z :=
  match l with
  | [] => 1
  | m :: rest => Z.max (llvm_align m) (llvm_align_list rest)
  end.

(* getTypeAllocSize = alignTo(getTypeStoreSize, ABI align),
   getTypeStoreSize = ceil(getTypeSizeInBits / 8). *)
Definition alloc_of (bits al : Z) : Z := align_up ((bits + 7) / 8) al.

(* getTypeSizeInBits (what LLVMSizeOfTypeInBits returns). *)
Fixpoint llvm_size_bits (t : ty) : Z :=
  match t with
  | TInt b => 8 * b
  | TBool => 1
  | TPtr => 64
  | TArr n e => n * (8 * alloc_of (llvm_size_bits e) (llvm_align e))
  | TStruct ms =>
      8 * layout_size
            ((fix go (l : list ty) : list (Z * Z) :=
                match l with
                | [] => []
                | m :: rest => (alloc_of (llvm_size_bits m) (llvm_align m), llvm_align m) :: go rest
                end) ms)
  end.

Definition llvm_alloc_size (t : ty) : Z := alloc_of (llvm_size_bits t) (llvm_align t).

Fixpoint member_layouts (l : list ty) : list (Z * Z) :=
  match l with
  | [] => []
  | m :: rest => (llvm_alloc_size m, llvm_align m) :: member_layouts rest
  end.

(* Offsets of the members of the struct type {ms} (StructLayout::getElementOffset). *)
Definition struct_offsets (ms : list ty) : list Z := layout_offsets (member_layouts ms).

(* size_in_bits / 8 of the general SizeOf arm. *)
Definition llvm_size_bytes (t : ty) : Z := llvm_size_bits t / 8.

(* Expression::SizeOf: `|:bool|` is the constant 1, every other type takes
   size_in_bits / 8 after assert_eq!(size_in_bits % 8, 0). *)
Definition penne_sizeof (t : ty) : Z :=
  match t with
  | TBool => 1
  | _ => llvm_size_bytes t
  end.

Definition sizeof_assert_ok (t : ty) : bool :=
  match t with
  | TBool => true
  | _ => llvm_size_bits t mod 8 =? 0
  end.

(* The types that can occur. *)
Definition valid_size (b : Z) : bool :=
  (b =? 1) || (b =? 2) || (b =? 4) || (b =? 8) || (b =? 16).

Fixpoint wf_ty (t : ty) : bool :=
  match t with
  | TInt b => valid_size b
  | TBool => true
  | TPtr => true
  | TArr n e => (0 <=? n) && wf_ty e
  | TStruct ms =>
      (fix go (l : list ty) : bool :=
         match l with
         | [] => true
         | m :: rest => wf_ty m && go rest
         end) ms
  end.

Fixpoint wf_ty_list (l : list ty) : bool :=
  match l with
  | [] => true
  | m :: rest => wf_ty m && wf_ty_list rest
  end.

(* ---- words nested in words -------------------------------------------------- *)

(* A member of a word: a primitive of the given size, or a word with a declared
   size and its own members. *)
Inductive wmember : Type :=
| Prim (size : Z)
| Nested (declared : Z) (ms : list wmember).

(* What align_struct sees of the member. *)
Definition typer_size_of (m : wmember) : Z :=
  match m with
  | Prim s => s
  | Nested d _ => d
  end.

Fixpoint typer_sizes (ms : list wmember) : list Z :=
  match ms with
  | [] => []
  | m :: rest => typer_size_of m :: typer_sizes rest
  end.

(* What the generator emits for the member: ValueType::Word generates the named
   (non-packed) struct type of the word's own members. *)
Fixpoint wmember_ty (m : wmember) : ty :=
  match m with
  | Prim s => TInt s
  | Nested _ ms =>
      TStruct ((fix go (l : list wmember) : list ty :=
                  match l with
                  | [] => []
                  | x :: rest => wmember_ty x :: go rest
                  end) ms)
  end.

Fixpoint wmember_tys (l : list wmember) : list ty :=
  match l with
  | [] => []
  | x :: rest => wmember_ty x :: wmember_tys rest
  end.

(* Every nested word declaration has a legal declared size and passed E380. *)
Fixpoint wmember_accepted (m : wmember) : bool :=
  match m with
  | Prim s => valid_size s
  | Nested d ms =>
      valid_size d
      && word_accepted d (typer_sizes ms)
      && (fix go (l : list wmember) : bool :=
            match l with
            | [] => true
            | x :: rest => wmember_accepted x && go rest
            end) ms
  end.

Fixpoint wmembers_accepted (l : list wmember) : bool :=
  match l with
  | [] => true
  | x :: rest => wmember_accepted x && wmembers_accepted rest
  end.
