(* The traversal of the linter (property C09: "the linter reaches every integer
   literal").  Faithful model of /repo/src/alpha/linter.rs over a reduced copy
   of the common AST of /repo/src/alpha/common.rs.  Executable definitions only;
   the proofs are in Proofs/LintWalkProofs.v.

   AST (one constructor per Rust variant, payloads reduced to what linter.rs
   looks at; locations are position ids [N], types are opaque tags [tytag]):
     expr      <- common.rs  enum Expression        (17 variants, same order)
     unop      <- common.rs  enum UnaryOp           (2 variants, same order)
     member    <- common.rs  struct MemberExpression (only .expression)
     refstep   <- common.rs  enum ReferenceStep     (5 variants, same order)
     reference <- common.rs  struct Reference       (only .steps)
     comparison<- common.rs  struct Comparison      (left, right, location)
     stmt      <- common.rs  enum Statement         (9 variants, same order)
     els       <- common.rs  struct Else            (branch, location_of_else)
     block     <- common.rs  struct Block           (statements, location)
     fbody     <- common.rs  struct FunctionBody    (statements, return_value)
     decl      <- common.rs  enum Declaration       (6 variants; Function's
                  [body : Poisonable<FunctionBody>] is [option fbody], None = Err)
   A literal's [value_type : Option<Poisonable<ValueType>>] is [option tytag]:
   [Some t] = Some(Ok(t)); [None] = None or Some(Err(_)) - linter.rs treats these
   two alike (catch-all arms at linter.rs:345-349 and 366-370).

   Linter state and output:
     lstate    <- linter.rs  struct Linter: is_naked_branch (NakedBranch =
                  location_of_condition), is_first_statement_of_branch (Branch =
                  location_of_condition, location_of_block).  The field [lints] is
                  modelled by the returned event list (writer style): every
                  function returns the events it appends, in order.
     litkind   <- which arm of impl Lintable for Expression looks at a literal:
                  KSigned = the SignedIntegerLiteral arms, KBit = the
                  BitIntegerLiteral arms, KNegBit = the first arm of the inner match
                  of the Unary arm (a typed bit literal that is DIRECTLY the operand
                  of UnaryOp::Negative).
     lintev    <- EvLiteral: the arm named by the kind was entered for the literal
                  at this position; with [Some t] the range test of that arm against
                  t is evaluated there and Lint::IntegerLiteralTruncation (L1142) is
                  pushed iff it fails; with [None] nothing is tested.
                  EvLoopFirst: Lint::LoopAsFirstStatement (L1800) pushed.

   Functions:
     lint_expr / lint_member / lint_refstep / lint_reference / lint_option
               <- impl Lintable for Expression / (loop body of the Structural arm)
                  / ReferenceStep / Reference / Option<T>
     lint_stmt / lint_block / lint_stmts
               <- impl Lintable for Statement / Block / the [for statement in ..]
                  loops of Block and FunctionBody
     lint_fbody, lint_decl
               <- impl Lintable for FunctionBody / Declaration, started from
                  Linter::default() (alpha.rs add_module; every [If] arm and every
                  non-empty [Block] leaves both state fields None again, see
                  [lint_stmt_final_state] in the proofs, so starting each
                  declaration from the default state loses nothing)
     lint_decls_in, lint_module
               <- alpha.rs analyze_and_resolve_sorted: self.linter.lint(&declaration)
                  for every declaration of a module on one Linter
     lint_visits, lint_events, lint_checked, lint_positions, visit_positions,
     l1142, l1800
               <- projections of the event list (the executable interface)
     range_test
               <- the three range tests of linter.rs (Signed arm, Bit arm, negated
                  bit literal in the Unary arm) over a table (is_signed(), min_i128(),
                  Linter::max_u128()) of the opaque type tags: the intended
                  instance of the parameter [out_of_range] of [l1142]
   Specification (NOT the code): occs_*, literals_of_decl, l1800_spec_*, first_loop.
   Broken variants (NOT the code): walk_*_with, noparen_*, lint_decl_pinned,
     lint_decl_noparen, oldneg_*, lint_decl_oldneg, plain_kind, range_test_oldneg. *)
From PV Require Import Base.Common.

Definition tytag := N.

(* ------------------------------------------------------------------ AST *)

Inductive unop :=                                  (* enum UnaryOp *)
| UNegative                                        (* Negative *)
| UBitwiseComplement.                              (* BitwiseComplement *)

Inductive expr :=
| EBinary (left right : expr)                      (* Binary { left, right } *)
| EUnary (op : unop) (e : expr)                    (* Unary { op, expression } *)
| EBool                                            (* BooleanLiteral *)
| ESigned (v : Z) (ty : option tytag) (p : N)      (* SignedIntegerLiteral { value, value_type, location } *)
| EBit (v : Z) (ty : option tytag) (p : N)         (* BitIntegerLiteral { value, value_type, location } *)
| EString                                          (* StringLiteral *)
| EArray (elements : list expr)                    (* ArrayLiteral { array.elements } *)
| EStructural (members : list member)              (* Structural { members } *)
| EParen (inner : expr)                            (* Parenthesized { inner } *)
| EDeref (steps : list refstep)                    (* Deref { reference } *)
| EAutocoerce (e : expr)                           (* Autocoerce { expression } *)
| EBitCast (e : expr)                              (* BitCast { expression } *)
| ETypeCast (e : expr)                             (* TypeCast { expression } *)
| ELengthOfArray (steps : list refstep)            (* LengthOfArray { reference } *)
| ESizeOf                                          (* SizeOf { queried_type } *)
| ECall (arguments : list expr)                    (* FunctionCall { arguments } *)
| EPoison                                          (* Poison *)
with member :=
| MkMember (e : expr)                              (* MemberExpression { expression } *)
with refstep :=
| RElement (argument : expr)                       (* Element { argument } *)
| RMember                                          (* Member *)
| RAutodeslice                                     (* Autodeslice *)
| RAutoderef                                       (* Autoderef *)
| RAutoview.                                       (* Autoview *)

Definition reference := list refstep.              (* Reference { steps } *)

Record comparison := MkComparison {                (* Comparison *)
  cmp_left : expr;
  cmp_right : expr;
  cmp_loc : N
}.

Inductive stmt :=
| SDeclaration (value : option expr)               (* Declaration { value } *)
| SAssignment (r : reference) (value : expr)       (* Assignment { reference, value } *)
| SMethodCall (arguments : list expr)              (* MethodCall { arguments } *)
| SLoop (loc : N)                                  (* Loop { location } *)
| SGoto                                            (* Goto *)
| SLabel                                           (* Label *)
| SIf (c : comparison) (t : stmt) (e : option els) (* If { condition, then_branch, else_branch } *)
| SBlock (b : block)                               (* Block(block) *)
| SPoison                                          (* Poison *)
with els :=
| MkElse (branch : stmt) (loc_else : N)            (* Else { branch, location_of_else } *)
with block :=
| MkBlock (statements : list stmt) (loc : N).      (* Block { statements, location } *)

Record fbody := MkBody {                           (* FunctionBody *)
  fb_statements : list stmt;
  fb_return_value : option expr
}.

Inductive decl :=
| DConstant (value : expr)                         (* Constant { value } *)
| DFunction (body : option fbody)                  (* Function { body }: None = Err(poison) *)
| DFunctionHead                                    (* FunctionHead *)
| DStructure                                       (* Structure *)
| DImport                                          (* Import *)
| DPoison.                                         (* Poison *)

(* ------------------------------------------------------- linter: events *)

(* Which arm looks at a literal, hence which range test it gets (see [range_test]):
     KSigned  SignedIntegerLiteral arms (linter.rs:321-349)
     KBit     BitIntegerLiteral arms (350-370)
     KNegBit  Unary arm, (UnaryOp::Negative, BitIntegerLiteral { value_type:
              Some(Ok(_)), .. }) (296-314)
   The guard [if value_type.is_signed()] of that arm is NOT decided here: the types
   are opaque tags.  A typed bit literal directly under a negation is always
   KNegBit, and the range test that receives KNegBit (the parameter [out_of_range]
   of [l1142]) has to make the guard's decision from the tag: signed type => the
   arm's own test [value > max + 1]; unsigned type => the guard fails, the Rust code
   falls through to [expression.lint(linter)] and the BitIntegerLiteral arm applies
   the ordinary test [value > max] at the same location.  [range_test] does so. *)
Inductive litkind := KSigned | KBit | KNegBit.

Inductive lintev :=
| EvLiteral (p : N) (k : litkind) (v : Z) (ty : option tytag)
| EvLoopFirst (loc_loop loc_cond loc_block : N).

Record lstate := MkState {
  st_naked : option N;             (* is_naked_branch: location_of_condition *)
  st_first : option (N * N)        (* is_first_statement_of_branch: (location_of_condition, location_of_block) *)
}.

Definition st_default : lstate := MkState None None.   (* #[derive(Default)] *)

(* -------------------------------------------------- linter: expressions *)

(* impl Lintable for Expression (linter.rs:272-455), for the loop body of the
   Structural arm and impl Lintable for ReferenceStep.  The [for] loops are
   [flat_map]; expressions neither read nor write the state.
   Unary arm: the first arm of [match (op, expression.as_ref())] needs the operator
   Negative and, as the operand itself (not under parentheses, not under a second
   operator), a BitIntegerLiteral whose value_type is Some(Ok(_)); then the operand
   is NOT recursed into, the arm does the range test (kind KNegBit, see [litkind]
   for the guard).  Everything else - the other operator, another operand, a bit
   literal whose type is None or Some(Err(_)) - recurses into the operand as before
   (and the BitIntegerLiteral catch-all arm then looks at the untyped literal
   without testing it: KBit with [None]). *)
Fixpoint lint_expr (e : expr) : list lintev :=
  match e with
  | EBinary l r => lint_expr l ++ lint_expr r                  (* 278-288 *)
  | EUnary op e1 =>                                            (* 289-316 *)
      match op, e1 with
      | UNegative, EBit v (Some t) p => [EvLiteral p KNegBit v (Some t)]   (* 296-314 *)
      | _, _ => lint_expr e1                                               (* 315 *)
      end
  | EBool => []                                                (* 317-320 *)
  | ESigned v ty p => [EvLiteral p KSigned v ty]               (* 321-349 *)
  | EBit v ty p => [EvLiteral p KBit v ty]                     (* 350-370 *)
  | EArray els => flat_map lint_expr els                       (* 371-380 *)
  | EString => []                                              (* 381-384 *)
  | EStructural ms => flat_map lint_member ms                  (* 385-395 *)
  | EParen e1 => lint_expr e1                                  (* 396-399 *)
  | EAutocoerce e1 => lint_expr e1                             (* 400-406 *)
  | EBitCast e1 => lint_expr e1                                (* 407-415 *)
  | ETypeCast e1 => lint_expr e1                               (* 416-424 *)
  | EDeref r => flat_map lint_refstep r                        (* 425-431, Reference 457-466 *)
  | ELengthOfArray r => flat_map lint_refstep r                (* 432-438, Reference 457-466 *)
  | ESizeOf => []                                              (* 439 *)
  | ECall args => flat_map lint_expr args                      (* 440-451 *)
  | EPoison => []                                              (* 452 *)
  end
with lint_member (m : member) : list lintev :=
  match m with
  | MkMember e => lint_expr e                                  (* 393 *)
  end
with lint_refstep (s : refstep) : list lintev :=
  match s with
  | RElement a => lint_expr a                                  (* 474-480 *)
  | RMember => []                                              (* 481-484 *)
  | RAutodeslice => []                                         (* 485 *)
  | RAutoderef => []                                           (* 486 *)
  | RAutoview => []                                            (* 487 *)
  end.

(* impl Lintable for Reference (457-466) *)
Definition lint_reference (r : reference) : list lintev := flat_map lint_refstep r.

(* impl<T: Lintable> Lintable for Option<T> (80-89), at T = Expression *)
Definition lint_option (o : option expr) : list lintev :=
  match o with
  | Some e => lint_expr e
  | None => []
  end.

(* --------------------------------------------------- linter: statements *)

(* impl Lintable for Statement (188-270) and for Block (161-186).  The inner
   [fix] is the loop [for statement in others]. *)
Fixpoint lint_stmt (s : stmt) (st : lstate) {struct s} : lstate * list lintev :=
  match s with
  | SDeclaration value => (st, lint_option value)                            (* 194-202 *)
  | SAssignment r value => (st, lint_reference r ++ lint_expr value)         (* 203-211 *)
  | SMethodCall args => (st, flat_map lint_expr args)                        (* 212-222 *)
  | SLoop loc =>                                                             (* 223-234 *)
      match st_first st with                       (* is_first_statement_of_branch.take() *)
      | Some (loc_cond, loc_block) =>
          (MkState (st_naked st) None, [EvLoopFirst loc loc_cond loc_block])
      | None => (st, [])
      end
  | SGoto => (st, [])                                                        (* 235 *)
  | SLabel => (st, [])                                                       (* 236 *)
  | SIf c t e =>                                                             (* 237-265 *)
      let ev0 := lint_expr (cmp_left c) ++ lint_expr (cmp_right c) in       (* 244-245 *)
      let st1 := MkState (Some (cmp_loc c)) None in                          (* 247-251 *)
      let '(st2, ev1) := lint_stmt t st1 in                                  (* 252 *)
      let '(st3, ev2) :=
        match e with                                                         (* 254-262 *)
        | Some (MkElse b loc_else) =>
            lint_stmt b (MkState (Some loc_else) (st_first st2))
        | None => (st2, [])
        end in
      (MkState None (st_first st3), ev0 ++ ev1 ++ ev2)                       (* 264 *)
  | SBlock b => lint_block b st                                              (* 266 *)
  | SPoison => (st, [])                                                      (* 267 *)
  end
with lint_block (b : block) (st : lstate) {struct b} : lstate * list lintev :=
  match b with
  | MkBlock ss loc =>
      match ss with                                (* split_first, 165 *)
      | [] => (st, [])
      | s1 :: others =>
          let st1 :=                               (* 167-177: is_naked_branch.take() *)
            MkState None
              (match st_naked st with
               | Some loc_cond => Some (loc_cond, loc)
               | None => None
               end) in
          let '(st2, ev1) := lint_stmt s1 st1 in                             (* 178 *)
          let st3 := MkState (st_naked st2) None in                          (* 179 *)
          let '(st4, ev2) :=
            (fix go (l : list stmt) (st : lstate) {struct l} : lstate * list lintev :=
               match l with
               | [] => (st, [])
               | x :: xs =>
                   let '(st', ev) := lint_stmt x st in
                   let '(st'', ev') := go xs st' in
                   (st'', ev ++ ev')
               end) others st3 in                                            (* 180-183 *)
          (st4, ev1 ++ ev2)
      end
  end.

(* [for statement in ...] over a list of statements (FunctionBody 150-153; the
   same loop as the local [go] of [lint_block]). *)
Fixpoint lint_stmts (l : list stmt) (st : lstate) : lstate * list lintev :=
  match l with
  | [] => (st, [])
  | x :: xs =>
      let '(st', ev) := lint_stmt x st in
      let '(st'', ev') := lint_stmts xs st' in
      (st'', ev ++ ev')
  end.

(* impl Lintable for FunctionBody (146-159) *)
Definition lint_fbody (b : fbody) (st : lstate) : lstate * list lintev :=
  let '(st1, ev1) := lint_stmts (fb_statements b) st in                      (* 150-153 *)
  (st1, ev1 ++ lint_option (fb_return_value b)).                             (* 154-157 *)

(* impl Lintable for Declaration (91-144), run in state [st] *)
Definition lint_decl_in (d : decl) (st : lstate) : lstate * list lintev :=
  match d with
  | DConstant value => (st, lint_expr value)                                 (* 97-105 *)
  | DFunction (Some body) => lint_fbody body st                              (* 106-114 *)
  | DFunction None => (st, [])                                               (* 115-123 *)
  | DFunctionHead => (st, [])                                                (* 124-131 *)
  | DStructure => (st, [])                                                   (* 132-139 *)
  | DImport => (st, [])                                                      (* 140 *)
  | DPoison => (st, [])                                                      (* 141 *)
  end.

(* Linter::lint on a fresh Linter: the lints/visits of one declaration *)
Definition lint_decl (d : decl) : list lintev := snd (lint_decl_in d st_default).

(* ------------------------------------------------ executable interface *)

(* one visit of / one occurrence of an integer literal *)
Record litocc := MkOcc {
  oc_pos : N;                    (* location *)
  oc_kind : litkind;             (* KSigned: SignedIntegerLiteral; KBit: BitIntegerLiteral; KNegBit: typed
                                    BitIntegerLiteral that is directly the operand of a negation *)
  oc_val : Z;                    (* value *)
  oc_ty : option tytag           (* value_type *)
}.

Definition occ_key (o : litocc) : N * option tytag := (oc_pos o, oc_ty o).

Definition ev_occ (ev : lintev) : list litocc :=
  match ev with
  | EvLiteral p k v ty => [MkOcc p k v ty]
  | EvLoopFirst _ _ _ => []
  end.

Definition visits_of (l : list lintev) : list litocc := flat_map ev_occ l.

(* every literal the linter looked at, in visiting order *)
Definition lint_visits (d : decl) : list litocc := visits_of (lint_decl d).

(* ... reduced to position and the type it is checked against *)
Definition lint_events (d : decl) : list (N * option tytag) := map occ_key (lint_visits d).

Definition typed_literals (l : list (N * option tytag)) : list (N * tytag) :=
  flat_map (fun x => match snd x with Some t => [(fst x, t)] | None => [] end) l.

(* the literals on which the range test is evaluated (value_type = Some(Ok t)) *)
Definition lint_checked (d : decl) : list (N * tytag) := typed_literals (lint_events d).

(* all visited literal positions, in visiting order *)
Definition visit_positions (d : decl) : list N := map fst (lint_events d).

(* the positions at which L1142 is raised when every range test fails
   (= [visit_positions] when every literal carries a type) *)
Definition lint_positions (d : decl) : list N := map fst (lint_checked d).

(* L1142 with the range test as a parameter: [out_of_range kind value type];
   for KNegBit the value is the literal's magnitude (the operand of the negation) *)
Definition occ_l1142 (out_of_range : litkind -> Z -> tytag -> bool) (o : litocc) : list N :=
  match oc_ty o with
  | Some t => if out_of_range (oc_kind o) (oc_val o) t then [oc_pos o] else []
  | None => []
  end.

Definition l1142 (out_of_range : litkind -> Z -> tytag -> bool) (d : decl) : list N :=
  flat_map (occ_l1142 out_of_range) (lint_visits d).

(* The range tests linter.rs applies, over a table of the opaque tags:
   [tbl t = Some (value_type.is_signed(), value_type.min_i128(),
   linter.max_u128(value_type))]; a tag without an entry is never flagged.
     KSigned (321-344): value < min when value < 0, value > max otherwise
     KBit    (350-365): value > max
     KNegBit (296-314): signed type: value > max + 1 ("the negation of a literal can
             be the minimum value"); unsigned type: the guard of the arm fails and the
             BitIntegerLiteral arm tests value > max. *)
Definition range_test (tbl : tytag -> option (bool * Z * Z))
    (k : litkind) (v : Z) (t : tytag) : bool :=
  match tbl t with
  | Some (sg, mn, mx) =>
      match k with
      | KSigned => if (v <? 0)%Z then (v <? mn)%Z else (mx <? v)%Z
      | KBit => (mx <? v)%Z
      | KNegBit => if sg then (mx + 1 <? v)%Z else (mx <? v)%Z
      end
  | None => false
  end.

(* L1800: (location_of_loop, location_of_condition, location_of_block) *)
Definition ev_l1800 (ev : lintev) : list (N * N * N) :=
  match ev with
  | EvLiteral _ _ _ _ => []
  | EvLoopFirst l c b => [(l, c, b)]
  end.

Definition l1800 (d : decl) : list (N * N * N) := flat_map ev_l1800 (lint_decl d).

(* Linter::lint called for every declaration of a module on the same Linter
   (alpha.rs analyze_and_resolve_sorted): the state is carried over. *)
Fixpoint lint_decls_in (ds : list decl) (st : lstate) : lstate * list lintev :=
  match ds with
  | [] => (st, [])
  | d :: rest =>
      let '(st1, ev1) := lint_decl_in d st in
      let '(st2, ev2) := lint_decls_in rest st1 in
      (st2, ev1 ++ ev2)
  end.

Definition lint_module (ds : list decl) : list lintev := snd (lint_decls_in ds st_default).

(* -------------------------------- SPECIFICATION (not the code): literals *)

(* Every integer literal in expression position, in source order.  The kind of an
   occurrence says which literal it is and where it stands: a bit literal with a
   type that is directly the operand of a negation is KNegBit (the only place where
   the kind depends on the context), every other bit literal is KBit. *)
Fixpoint occs_expr (e : expr) : list litocc :=
  match e with
  | ESigned v ty p => [MkOcc p KSigned v ty]
  | EBit v ty p => [MkOcc p KBit v ty]
  | EBinary l r => occs_expr l ++ occs_expr r
  | EUnary UNegative (EBit v (Some t) p) => [MkOcc p KNegBit v (Some t)]
  | EUnary _ e1 | EParen e1 | EAutocoerce e1 | EBitCast e1 | ETypeCast e1 => occs_expr e1
  | EArray l | ECall l => flat_map occs_expr l
  | EStructural ms => flat_map occs_member ms
  | EDeref r | ELengthOfArray r => flat_map occs_refstep r
  | EBool | EString | ESizeOf | EPoison => []
  end
with occs_member (m : member) : list litocc :=
  match m with MkMember e => occs_expr e end
with occs_refstep (s : refstep) : list litocc :=
  match s with
  | RElement a => occs_expr a
  | RMember | RAutodeslice | RAutoderef | RAutoview => []
  end.

Definition occs_option (o : option expr) : list litocc :=
  match o with Some e => occs_expr e | None => [] end.

Fixpoint occs_stmt (s : stmt) : list litocc :=
  match s with
  | SDeclaration value => occs_option value
  | SAssignment r value => flat_map occs_refstep r ++ occs_expr value
  | SMethodCall args => flat_map occs_expr args
  | SIf c t e =>
      occs_expr (cmp_left c) ++ occs_expr (cmp_right c) ++ occs_stmt t ++
      match e with Some (MkElse b _) => occs_stmt b | None => [] end
  | SBlock (MkBlock ss _) => flat_map occs_stmt ss
  | SLoop _ | SGoto | SLabel | SPoison => []
  end.

Definition occs_decl (d : decl) : list litocc :=
  match d with
  | DConstant value => occs_expr value
  | DFunction (Some body) =>
      flat_map occs_stmt (fb_statements body) ++ occs_option (fb_return_value body)
  | DFunction None | DFunctionHead | DStructure | DImport | DPoison => []
  end.

Definition literals_of_decl (d : decl) : list (N * option tytag) := map occ_key (occs_decl d).

(* ---------------------------------- SPECIFICATION (not the code): L1800 *)

(* A loop that is the first statement of a block that is directly the then- or
   else-branch of an [if]: reported with the location of the condition resp. of
   the [else] keyword, and of the block. *)
Definition first_loop (loc_cond : N) (branch : stmt) : list (N * N * N) :=
  match branch with
  | SBlock (MkBlock (SLoop l :: _) loc_block) => [(l, loc_cond, loc_block)]
  | _ => []
  end.

Fixpoint l1800_spec_stmt (s : stmt) : list (N * N * N) :=
  match s with
  | SIf c t e =>
      first_loop (cmp_loc c) t ++ l1800_spec_stmt t ++
      match e with
      | Some (MkElse b loc_else) => first_loop loc_else b ++ l1800_spec_stmt b
      | None => []
      end
  | SBlock (MkBlock ss _) => flat_map l1800_spec_stmt ss
  | _ => []
  end.

Definition l1800_spec (d : decl) : list (N * N * N) :=
  match d with
  | DFunction (Some body) => flat_map l1800_spec_stmt (fb_statements body)
  | _ => []
  end.

(* ------------------------------------- BROKEN VARIANTS (NOT the code) *)

(* A state-free walk over statements (no L1800), parameterised by the expression
   walk [fe] and by whether [if] conditions / return values are visited.  With
   [fe = lint_expr] and both flags true it yields exactly the literal events of
   [lint_decl] ([walk_current_is_lint] in the proofs). *)
Section walk_with.
  Variable fe : expr -> list lintev.
  Variable fr : refstep -> list lintev.
  Variable visit_cond : bool.
  Variable visit_ret : bool.

  Fixpoint walk_stmt_with (s : stmt) : list lintev :=
    match s with
    | SDeclaration (Some v) => fe v
    | SDeclaration None => []
    | SAssignment r value => flat_map fr r ++ fe value
    | SMethodCall args => flat_map fe args
    | SIf c t e =>
        (if visit_cond then fe (cmp_left c) ++ fe (cmp_right c) else []) ++
        walk_stmt_with t ++
        match e with Some (MkElse b _) => walk_stmt_with b | None => [] end
    | SBlock (MkBlock ss _) => flat_map walk_stmt_with ss
    | SLoop _ | SGoto | SLabel | SPoison => []
    end.

  Definition walk_decl_with (d : decl) : list lintev :=
    match d with
    | DConstant value => fe value
    | DFunction (Some body) =>
        flat_map walk_stmt_with (fb_statements body) ++
        (if visit_ret
         then match fb_return_value body with Some v => fe v | None => [] end
         else [])
    | _ => []
    end.
End walk_with.

(* (a) NOT the code: the pinned commit 192b0da, whose FunctionBody::lint had no
   return_value visit and whose Statement::If arm did not visit the condition. *)
Definition lint_decl_pinned (d : decl) : list lintev :=
  walk_decl_with lint_expr lint_refstep false false d.

(* (b) NOT the code: an expression walk that does not descend into Parenthesized. *)
Fixpoint noparen_expr (e : expr) : list lintev :=
  match e with
  | EBinary l r => noparen_expr l ++ noparen_expr r
  | EUnary op e1 =>
      match op, e1 with
      | UNegative, EBit v (Some t) p => [EvLiteral p KNegBit v (Some t)]
      | _, _ => noparen_expr e1
      end
  | EBool => []
  | ESigned v ty p => [EvLiteral p KSigned v ty]
  | EBit v ty p => [EvLiteral p KBit v ty]
  | EArray els => flat_map noparen_expr els
  | EString => []
  | EStructural ms => flat_map noparen_member ms
  | EParen _ => []                                   (* the seeded defect *)
  | EAutocoerce e1 => noparen_expr e1
  | EBitCast e1 => noparen_expr e1
  | ETypeCast e1 => noparen_expr e1
  | EDeref r => flat_map noparen_refstep r
  | ELengthOfArray r => flat_map noparen_refstep r
  | ESizeOf => []
  | ECall args => flat_map noparen_expr args
  | EPoison => []
  end
with noparen_member (m : member) : list lintev :=
  match m with MkMember e => noparen_expr e end
with noparen_refstep (s : refstep) : list lintev :=
  match s with
  | RElement a => noparen_expr a
  | _ => []
  end.

Definition lint_decl_noparen (d : decl) : list lintev :=
  walk_decl_with noparen_expr noparen_refstep true true d.

Definition events_of (l : list lintev) : list (N * option tytag) := map occ_key (visits_of l).

(* (c) NOT the code: the expression walk before the repair of the Unary arm, which
   only recursed into the operand whatever the operator, so that a negated bit
   literal was looked at by the BitIntegerLiteral arm (kind KBit, ordinary test).
   It visits the same literals in the same order; only the kind differs
   ([oldneg_expr_is_plain] in the proofs). *)
Fixpoint oldneg_expr (e : expr) : list lintev :=
  match e with
  | EBinary l r => oldneg_expr l ++ oldneg_expr r
  | EUnary _ e1 => oldneg_expr e1                      (* the old arm *)
  | EBool => []
  | ESigned v ty p => [EvLiteral p KSigned v ty]
  | EBit v ty p => [EvLiteral p KBit v ty]
  | EArray els => flat_map oldneg_expr els
  | EString => []
  | EStructural ms => flat_map oldneg_member ms
  | EParen e1 => oldneg_expr e1
  | EAutocoerce e1 => oldneg_expr e1
  | EBitCast e1 => oldneg_expr e1
  | ETypeCast e1 => oldneg_expr e1
  | EDeref r => flat_map oldneg_refstep r
  | ELengthOfArray r => flat_map oldneg_refstep r
  | ESizeOf => []
  | ECall args => flat_map oldneg_expr args
  | EPoison => []
  end
with oldneg_member (m : member) : list lintev :=
  match m with MkMember e => oldneg_expr e end
with oldneg_refstep (s : refstep) : list lintev :=
  match s with
  | RElement a => oldneg_expr a
  | _ => []
  end.

Definition lint_decl_oldneg (d : decl) : list lintev :=
  walk_decl_with oldneg_expr oldneg_refstep true true d.

(* ... and its range test: a negated bit literal got the test of the
   BitIntegerLiteral arm. *)
Definition plain_kind (k : litkind) : litkind :=
  match k with KNegBit => KBit | _ => k end.

Definition range_test_oldneg (tbl : tytag -> option (bool * Z * Z))
    (k : litkind) (v : Z) (t : tytag) : bool :=
  range_test tbl (plain_kind k) v t.

(* L1142 of a list of events under the range test [out_of_range] *)
Definition l1142_of (out_of_range : litkind -> Z -> tytag -> bool) (l : list lintev) : list N :=
  flat_map (occ_l1142 out_of_range) (visits_of l).
