(* Integer literals from token to bit pattern (property C09): the parser's
   signed/bit split and unary-minus folding (src/alpha/parser.rs
   parse_primary_expression, parse_unary_expression), the linter's range test
   (src/alpha/linter.rs, ranges from Gen/TypeTables.v) and the generator's
   materialisation (src/alpha/generator.rs, case split constants from
   Gen/LowerTables.v).  Executable definitions only. *)
From Coq Require Import ZArith Bool.
From PV Require Import Base.Common Base.IR Base.Bits.
From PV Require Export Gen.LowerTables Gen.TypeTables.
Open Scope Z_scope.

Definition i128_max : Z := 2 ^ 127 - 1.
Definition i128_min : Z := - 2 ^ 127.

(* integer tokens of the lexer: magnitude < 2^128 *)
Inductive itok :=
| TNaked (v : Z)                 (* NakedDecimal *)
| TBits (v : Z)                  (* BitInteger: 0x.. / 0b.. *)
| TSuffixed (v : Z) (t : prim).  (* SuffixedInteger *)

(* literal expressions *)
Inductive lit :=
| LSigned (v : Z)                (* SignedIntegerLiteral: i128 *)
| LBit (v : Z)                   (* BitIntegerLiteral: u128 *)
| LNeg (l : lit).                (* Unary Negative applied to a literal (not folded) *)

(* parse_primary_expression: returns the literal and the suffix type, if any *)
Definition parse_primary (t : itok) : lit * option prim :=
  match t with
  | TNaked v => (if v <=? i128_max then LSigned v else LBit v, None)
  | TBits v => (LBit v, None)
  | TSuffixed v ty => (if vt_is_signed ty && (v <=? i128_max) then LSigned v else LBit v, Some ty)
  end.

(* parse_unary_expression, Minus arm.  [fold_min]: the current tree also folds
   the magnitude 2^127 into the signed literal i128::MIN (repair of D9);
   [fold_min = false] is the pinned commit. *)
Definition fold_minus (fold_min : bool) (l : lit) : lit :=
  match l with
  | LSigned v => if 0 <? v then LSigned (- v) else LNeg l
  | LBit v => if fold_min && (v =? i128_max + 1) then LSigned i128_min else LNeg l
  | LNeg _ => LNeg l
  end.

(* linter.rs Linter::max_u128: the largest value of the type ON THE TARGET - `usize` is 32 bits wide
   when compiling for WebAssembly (Compiler::for_wasm sets is_usize_32_bits; repair of D54), otherwise
   value_type.rs max_u128 (Gen/TypeTables.v). *)
Definition lint_max (usize_bits : Z) (t : prim) : Z :=
  match t with
  | Usize => if usize_bits =? 32 then 2 ^ 32 - 1 else vt_max t
  | _ => vt_max t
  end.

(* linter: Expression::SignedIntegerLiteral / BitIntegerLiteral arms, and the Unary arm: a bit literal of a
   signed type DIRECTLY under a negation may be as large as max + 1 (repair of D22: `-0x80` as i8 is -128) *)
Fixpoint lint_on (usize_bits : Z) (l : lit) (t : prim) : bool :=
  match l with
  | LSigned v => if v <? 0 then v <? vt_min t else lint_max usize_bits t <? v
  | LBit v => lint_max usize_bits t <? v
  | LNeg l' =>
      match l' with
      | LBit v => if vt_is_signed t then lint_max usize_bits t + 1 <? v else lint_max usize_bits t <? v
      | _ => lint_on usize_bits l' t
      end
  end.
(* the host target *)
Definition lint (l : lit) (t : prim) : bool := lint_on 64 l t.
(* the pinned commit: the Unary arm only recursed, and the range was the host's on every target *)
Fixpoint lint_pinned (l : lit) (t : prim) : bool :=
  match l with
  | LSigned v => if v <? 0 then v <? vt_min t else vt_max t <? v
  | LBit v => vt_max t <? v
  | LNeg l' => lint_pinned l' t
  end.

(* generator: bit pattern of the constant, width w = vt_bits usize_bits t.
   LLVMConstInt(ty, bits64, sign_extend) = the 64-bit word sign- or zero-extended
   or truncated to the width; const_128_bit_integer = the 128-bit value truncated. *)
Definition const_int (w : Z) (bits64 : Z) (sign_extend : bool) : Z :=
  repr w (if sign_extend then sgn 64 bits64 else bits64).

Definition materialise_signed (w v : Z) : Z :=
  if (signed_lit_small_min <=? v) && (v <=? -1) then const_int w (repr 64 v) true
  else if (0 <=? v) && (v <=? signed_lit_small_max) then const_int w (repr 64 v) false
  else repr w (repr 128 v).

Definition masked (m : option Z) (v : Z) : Z :=
  match m with Some k => Z.land v k | None => v end.

Definition materialise_bit (t : prim) (w v : Z) : Z :=
  match t with
  | Usize => repr w (repr 64 (masked bit_lit_usize_mask v))
  | _ => if v <=? 2 ^ 64 - 1 then const_int w v false else repr w (repr 128 v)
  end.

(* the value an expression denotes at type t (wrapping negation for LNeg) *)
Fixpoint bits_of (usize_bits : Z) (l : lit) (t : prim) : Z :=
  let w := vt_bits usize_bits t in
  match l with
  | LSigned v => materialise_signed w v
  | LBit v => materialise_bit t w v
  | LNeg l' => repr w (- bits_of usize_bits l' t)
  end.

(* A source literal: optional minus sign, magnitude, optional suffix. *)
Definition source_literal (fold_min : bool) (neg : bool) (tok : itok) : lit * option prim :=
  let '(l, s) := parse_primary tok in
  (if neg then fold_minus fold_min l else l, s).

Definition magnitude (tok : itok) : Z := match tok with TNaked v | TBits v | TSuffixed v _ => v end.
Definition math_value (neg : bool) (tok : itok) : Z := if neg then - magnitude tok else magnitude tok.
