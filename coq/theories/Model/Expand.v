(* Model of src/alpha/expander.rs (import expansion, property C12/C13).

   Executable definitions only.  Correspondence with the Rust code:

     decl / kind / flags      common.rs  Declaration, DeclarationFlag (EnumSet)
     is_import                expander.rs  is_import
     extract_public           expander.rs  extract_public
     export                   expander.rs  export
     exports                  `declarations.iter().filter_map(|x| export(x)).collect()`
     resolve (parameter)      expander.rs  get_key_offset(filename, &keys, path_of_includer)
                              abstracted: includer path key -> filename key -> offset.
                              PRECONDITION (holds in Rust because the offset is a
                              `position` in `keys`): every offset is < number of modules.
                              The model treats an out-of-range includee as an empty
                              module (Rust would panic on `modules[offset]`).
     hint (parameter)         included::source_name_hint(filename).is_some()
     E470 / E477              error.rs Error::code  UnresolvedImport / UnresolvedImportWithHint
     sort_imports_first       `declarations.sort_by_key(|x| -1 * i32::from(is_import(x)))`
                              (stable sort; modelled as stable insertion sort on the key)
     partition_point          `declarations.partition_point(|x| is_import(x))`
                              (length of the leading run; this is what the binary search
                              returns on a partitioned slice)
     process_import(s)        body of `for declaration in &mut declarations[0..k]`
                              (the `_ => unreachable!()` arm leaves the declaration
                              unchanged; ExpandProofs.process_unreachable_never shows
                              that it is never taken)
     phase1_module / phase1   first `for (offset_of_includer, module) in ...enumerate()`
                              returns the modules and the pairs inserted into `imports`
                              in insertion order (duplicates kept)
     retain_nonimports        second loop: `declarations.retain(|x| !is_import(x))`
     dedup / import_set       `imports` being a set + `imports.retain(|(from, to)| from != to)`
     splice_one / splice_all  third loop: `declarations.splice(0..0, imported_declarations)`
     expand_order             expander.rs  expand, with the iteration order of the
                              `HashSet` as an explicit parameter [order] (the pinned code:
                              any duplicate-free permutation of the set)
     sort_pairs/expand_sorted expand with `imports : BTreeSet<(usize, usize)>` (ascending
                              lexicographic iteration) -- the deterministic model
     expand_one(_sorted)      expander.rs  expand_one
     get_key_offset           expander.rs  get_key_offset on paths as component lists
     resolve_alist            convenience for the extraction driver: a resolver given as
                              an association list ((includer path, filename), offset).

   A declaration carries an opaque payload id standing for name, parameters, types,
   value, members and locations (everything `export` clones), and an optional body id.
   Import and Poison have no flags in Rust; the model gives them [no_flags].
   A poisoned import keeps the payload id of the import (its location/filename). *)
From PV Require Import Base.Common.

Inductive kind : Type :=
| KConstant
| KFunction
| KFunctionHead
| KStructure
| KImport (file : N)
| KPoison (c : code).

Record flags : Type := mkFlags {
  f_public : bool;
  f_external : bool;
  f_main : bool;
  f_forward : bool;
  f_opaque : bool
}.

Record decl : Type := mkDecl {
  d_kind : kind;
  d_payload : N;
  d_body : option N;
  d_flags : flags
}.

(* (path key, declarations) *)
Definition pmodule : Type := (N * list decl)%type.

Definition dmod : pmodule := (0%N, []).

Definition decls_of (mods : list pmodule) (i : nat) : list decl := snd (nth i mods dmod).
Definition key_of (mods : list pmodule) (i : nat) : N := fst (nth i mods dmod).

Definition E470 : code := 470%N.
Definition E477 : code := 477%N.

Definition no_flags : flags := mkFlags false false false false false.

Definition is_import (d : decl) : bool :=
  match d_kind d with
  | KImport _ => true
  | _ => false
  end.

Definition extract_public (fl : flags) : option flags :=
  if f_public fl
  then Some (mkFlags false (f_external fl) (f_main fl) (f_forward fl) (f_opaque fl))
  else None.

Definition export (d : decl) : option decl :=
  match d_kind d with
  | KConstant =>
      match extract_public (d_flags d) with
      | Some fl => Some (mkDecl KConstant (d_payload d) (d_body d) fl)
      | None => None
      end
  | KFunction =>
      match extract_public (d_flags d) with
      | Some fl => Some (mkDecl KFunctionHead (d_payload d) None fl)
      | None => None
      end
  | KFunctionHead =>
      match extract_public (d_flags d) with
      | Some fl => Some (mkDecl KFunctionHead (d_payload d) None fl)
      | None => None
      end
  | KStructure =>
      match extract_public (d_flags d) with
      | Some fl => Some (mkDecl KStructure (d_payload d) (d_body d) fl)
      | None => None
      end
  | KImport _ => None
  | KPoison _ => None
  end.

Fixpoint exports (ds : list decl) : list decl :=
  match ds with
  | [] => []
  | d :: r =>
      match export d with
      | Some d' => d' :: exports r
      | None => exports r
      end
  end.

(* ---- stable sort on the key -1 (import) / 0 (other) ---- *)

Definition import_key (d : decl) : Z := if is_import d then (-1)%Z else 0%Z.

Fixpoint insert_stable (d : decl) (l : list decl) : list decl :=
  match l with
  | [] => [d]
  | y :: r =>
      if (import_key d <=? import_key y)%Z then d :: l else y :: insert_stable d r
  end.

Definition sort_imports_first (ds : list decl) : list decl :=
  fold_right insert_stable [] ds.

Fixpoint partition_point (p : decl -> bool) (l : list decl) : nat :=
  match l with
  | [] => 0
  | x :: r => if p x then S (partition_point p r) else 0
  end.

Definition poison_of (c : code) (d : decl) : decl :=
  mkDecl (KPoison c) (d_payload d) None no_flags.

(* ---- the resolver as an association list (for the driver) ---- *)

Fixpoint resolve_alist (tbl : list ((N * N) * nat)) (includer file : N) : option nat :=
  match tbl with
  | [] => None
  | ((a, b), off) :: r =>
      if (N.eqb a includer && N.eqb b file)%bool then Some off
      else resolve_alist r includer file
  end.

Fixpoint hint_list (files : list N) (file : N) : bool :=
  match files with
  | [] => false
  | f :: r => if N.eqb f file then true else hint_list r file
  end.


(* ---- import path resolution: expander.rs get_key_offset ---------------------------
   Paths are lists of components.  `keys.iter().position(|x| x == filepath)`, else
   `path_of_includer.parent().map(|p| p.join(filepath))` looked up the same way.
   (Only relative paths without `.`/`..` components are modelled.) *)
Fixpoint path_eqb (a b : list N) : bool :=
  match a, b with
  | [], [] => true
  | x :: a', y :: b' => N.eqb x y && path_eqb a' b'
  | _, _ => false
  end.

Fixpoint position_of (p : list N) (keys : list (list N)) : option nat :=
  match keys with
  | [] => None
  | k :: r => if path_eqb k p then Some O
              else match position_of p r with Some i => Some (S i) | None => None end
  end.

Definition parent_of (p : list N) : option (list N) :=
  match p with [] => None | _ => Some (removelast p) end.

Definition get_key_offset (file : list N) (keys : list (list N)) (includer : list N) : option nat :=
  match position_of file keys with
  | Some i => Some i
  | None => match parent_of includer with
            | Some dir => position_of (dir ++ file) keys
            | None => None
            end
  end.

(* ---- ordered pairs of module offsets ---- *)

Definition pair_eqb (p q : nat * nat) : bool :=
  (Nat.eqb (fst p) (fst q) && Nat.eqb (snd p) (snd q))%bool.

Definition pair_leb (p q : nat * nat) : bool :=
  (Nat.ltb (fst p) (fst q) || (Nat.eqb (fst p) (fst q) && Nat.leb (snd p) (snd q)))%bool.

Definition mem_pair (p : nat * nat) (l : list (nat * nat)) : bool :=
  existsb (pair_eqb p) l.

Fixpoint dedup (l : list (nat * nat)) : list (nat * nat) :=
  match l with
  | [] => []
  | p :: r => if mem_pair p r then dedup r else p :: dedup r
  end.

Definition import_set (ps : list (nat * nat)) : list (nat * nat) :=
  filter (fun p => negb (Nat.eqb (fst p) (snd p))) (dedup ps).

Fixpoint insert_pair (p : nat * nat) (l : list (nat * nat)) : list (nat * nat) :=
  match l with
  | [] => [p]
  | q :: r => if pair_leb p q then p :: l else q :: insert_pair p r
  end.

Definition sort_pairs (l : list (nat * nat)) : list (nat * nat) :=
  fold_right insert_pair [] l.

(* ---- splicing ---- *)

Fixpoint update_nth (n : nat) (f : pmodule -> pmodule) (l : list pmodule) {struct l}
  : list pmodule :=
  match l with
  | [] => []
  | x :: r =>
      match n with
      | O => f x :: r
      | S n' => x :: update_nth n' f r
      end
  end.

Definition splice_one (p : nat * nat) (mods : list pmodule) : list pmodule :=
  let imported := exports (decls_of mods (snd p)) in
  update_nth (fst p) (fun m => (fst m, imported ++ snd m)) mods.

Definition splice_all (ps : list (nat * nat)) (mods : list pmodule) : list pmodule :=
  fold_left (fun m p => splice_one p m) ps mods.

Definition retain_nonimports (mods : list pmodule) : list pmodule :=
  map (fun m => (fst m, filter (fun d => negb (is_import d)) (snd m))) mods.

Section Expander.
  Variable resolve : N -> N -> option nat.
  Variable hint : N -> bool.

  Definition process_import (i : nat) (path : N) (d : decl) : decl * list (nat * nat) :=
    match d_kind d with
    | KImport f =>
        match resolve path f with
        | Some j => (d, [(i, j)])
        | None => (poison_of (if hint f then E477 else E470) d, [])
        end
    | _ => (d, [])
    end.

  Fixpoint process_imports (i : nat) (path : N) (ds : list decl)
    : list decl * list (nat * nat) :=
    match ds with
    | [] => ([], [])
    | d :: r =>
        let '(d', ps) := process_import i path d in
        let '(r', ps') := process_imports i path r in
        (d' :: r', ps ++ ps')
    end.

  Definition phase1_module (i : nat) (m : pmodule) : pmodule * list (nat * nat) :=
    let '(path, ds) := m in
    let s := sort_imports_first ds in
    let k := partition_point is_import s in
    let '(pre, ps) := process_imports i path (firstn k s) in
    ((path, pre ++ skipn k s), ps).

  Fixpoint phase1 (i : nat) (mods : list pmodule) : list pmodule * list (nat * nat) :=
    match mods with
    | [] => ([], [])
    | m :: r =>
        let '(m', ps) := phase1_module i m in
        let '(r', ps') := phase1 (S i) r in
        (m' :: r', ps ++ ps')
    end.

  (* [order] is the iteration order of the set of pairs. *)
  Definition expand_order (order : list (nat * nat) -> list (nat * nat))
             (mods : list pmodule) : list pmodule :=
    let '(m1, ps) := phase1 0 mods in
    splice_all (order (import_set ps)) (retain_nonimports m1).

  (* The already ordered, duplicate-free list of pairs is supplied by the caller. *)
  Definition expand_with (pairs : list (nat * nat)) (mods : list pmodule) : list pmodule :=
    expand_order (fun _ => pairs) mods.

  Definition expand_sorted (mods : list pmodule) : list pmodule :=
    expand_order sort_pairs mods.

  Definition expand_one (order : list (nat * nat) -> list (nat * nat))
             (path : N) (ds : list decl) : list decl :=
    match expand_order order [(path, ds)] with
    | [(_, ds')] => ds'
    | _ => []
    end.

  Definition expand_one_sorted (path : N) (ds : list decl) : list decl :=
    expand_one sort_pairs path ds.
End Expander.
