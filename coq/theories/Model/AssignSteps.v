(* The typer's elaboration of the TARGET of an assignment: `analyze_assignment_steps`
   (property "the compiler never crashes" on assignment targets; companion of
   PV.Model.Autoderef, which models the elaboration of references that are READ).

   Executable definitions only.  Sources mirrored (line numbers of /tmp/pc2):

   src/alpha/parser.rs
     [max_address_depth_nat]   const MAX_ADDRESS_DEPTH: u8 = 127 (:17), from PV.Gen.Limits
   src/alpha/typer.rs
     [strip_bounded]           the inner `for _i in 0..MAX_ADDRESS_DEPTH { match current_type
                               { Pointer => push Autoderef, View => push Autoview,
                               _ => break } }`, :2153-2171 (Element) and :2215-2233 (Member);
                               the fuel is the number of iterations left.  When the fuel
                               runs out the Rust `for` just ends: the Pointer / View layers
                               not yet removed STAY on current_type.
     [deslice_of]              :2172-2189  the Autodeslice pushed for Slice / SlicePointer
     [element_is_endless]      :2190-2199  the is_endless the Element step gets (the one
                               the parser wrote is ignored: `is_endless: _`, :2150)
     [assign_loop_fuel] [assign_loop]
                               fn analyze_assignment_steps, the `for step in
                               previous_steps` loop, :2144-2275, arms Element (:2148) and
                               Member (:2213).  There is no budget over the written steps
                               (unlike Reference::autoderef).
                               Differences from the read side that the model keeps:
                                 - in front of an Element step ALL Pointer / View layers
                                   are removed (up to the bound), also the one in front of
                                   an Arraylike (autoderef keeps `Pointer{Arraylike}` and
                                   indexes it directly);
                                 - an Arraylike is indexed with is_endless None (autoderef:
                                   Some(true));
                                 - the Member arm does NOT look at current_type after the
                                   stripping (autoderef panics "failed to autoderef" when
                                   it is not a Struct / Word): it takes the member's type
                                   whatever it is.
                               The arms Autoderef / Autoview / Autodeslice (:2245-2272, a
                               reference analyzed a second time) are not modelled: the
                               input is a list of [astep], what the parser writes.
     [excess_depth]            :2291-2292  `excess.try_into().unwrap_or(MAX_ADDRESS_DEPTH)`
                               (usize -> u8)
     [assign_finish]           :2276-2294  the trailing `for _i in ad..pd { Autoderef }`
     [assignment_steps]        fn analyze_assignment_steps, :2135-2295, as called from
                               Reference::analyze_assignment (:2343-2353) when
                               `typer.get_symbol(base) = Some(Ok(base_type))`; the other
                               two arms of that match (`Some(Err(_)) | None => (steps, 0)`)
                               do not call it.  [address_depth] is a u8 in the Rust code.
                               Interface for the correspondence check.

   Panic sites of [AsgPanic] / [APanic]:
     1   typer.rs:2206  unreachable!()  -- current_type.get_element_type() is None
     2   typer.rs:2240 / :2241  unreachable!()  -- the member has no (unpoisoned) symbol

   Spec-level helpers (no Rust counterpart; used to state theorems):
     [no_arraylike]            no Arraylike constructor anywhere in the type
     [element_run_too_long]    some Element step meets more Pointer / View layers than
                               the bound
     [strip_pointers_n] [pointer_tail]
                               what n Autoderef steps reach / what is under all Pointers. *)
From PV Require Import Base.Common Model.TypeLegal Model.Autoderef.
From PV Require Gen.Limits.

(* parser.rs:17 *)
Definition max_address_depth_nat : nat := Z.to_nat Limits.max_address_depth.

(* :2153-2171, :2215-2233 *)
Fixpoint strip_bounded (fuel : nat) (t : vt) : list tstep * vt :=
  match fuel with
  | O => ([], t)                                   (* the `for` ends *)
  | S fuel' =>
      match t with
      | VPointer d => let r := strip_bounded fuel' d in (TAutoderef :: fst r, snd r)
      | VView d => let r := strip_bounded fuel' d in (TAutoview :: fst r, snd r)
      | _ => ([], t)                               (* break *)
      end
  end.

(* :2172-2189 *)
Definition deslice_of (t : vt) : list tstep :=
  match t with
  | VSlice _ => [TAutodesliceByView]
  | VSlicePointer _ => [TAutodesliceByPointer]
  | _ => []
  end.

(* :2190-2199 *)
Definition element_is_endless (t : vt) : option bool :=
  match t with
  | VArray _ _ | VArrayNamed _ _ | VSlice _ | VSlicePointer _ => Some false
  | VEndless _ => Some true
  | _ => None                                      (* Arraylike, and everything else *)
  end.

Inductive asg_loop_result : Type :=
| AsgAt (taken : list tstep) (current_type : vt)
| AsgPanic (site : N).

Definition asg_cons (pre : list tstep) (r : asg_loop_result) : asg_loop_result :=
  match r with
  | AsgAt taken ct => AsgAt (pre ++ taken) ct
  | AsgPanic s => AsgPanic s
  end.

(* :2144-2275; [bound] = MAX_ADDRESS_DEPTH *)
Fixpoint assign_loop_fuel (member_type : N -> option vt) (bound : nat)
         (current_type : vt) (steps : list astep) : asg_loop_result :=
  match steps with
  | [] => AsgAt [] current_type
  | AElement _ :: rest =>                                              (* :2148 *)
      let r := strip_bounded bound current_type in
      let ct := snd r in
      match get_element_type ct with                                   (* :2200 *)
      | Some e =>
          asg_cons (fst r ++ deslice_of ct ++ [TElement (element_is_endless ct)])
                   (assign_loop_fuel member_type bound e rest)
      | None => AsgPanic 1                                             (* :2206 *)
      end
  | AMember m :: rest =>                                               (* :2213 *)
      let r := strip_bounded bound current_type in
      match member_type m with                                         (* :2234 *)
      | Some t =>
          asg_cons (fst r ++ [TMember m]) (assign_loop_fuel member_type bound t rest)
      | None => AsgPanic 2                                             (* :2240, :2241 *)
      end
  end.

Definition assign_loop (member_type : N -> option vt) : vt -> list astep -> asg_loop_result :=
  assign_loop_fuel member_type max_address_depth_nat.

Inductive assign_result : Type :=
| AOk (taken : list tstep) (remaining_depth : N)
| APanic (site : N).

(* :2291-2292: usize -> u8, MAX_ADDRESS_DEPTH when it does not fit *)
Definition excess_depth (excess : N) : N :=
  if N.leb excess 255 then excess else Z.to_N Limits.max_address_depth.

(* :2276-2294 *)
Definition assign_finish (taken : list tstep) (current_type : vt) (address_depth : N)
  : assign_result :=
  let pd := pointer_depth current_type in
  if N.leb address_depth pd then
    AOk (taken ++ repeat TAutoderef (N.to_nat (pd - address_depth))) 0
  else
    AOk taken (excess_depth (address_depth - pd)).

(* :2135 *)
Definition assignment_steps (member_type : N -> option vt) (base : vt) (steps : list astep)
           (address_depth : N) : assign_result :=
  match assign_loop member_type base steps with
  | AsgPanic s => APanic s
  | AsgAt taken ct => assign_finish taken ct address_depth
  end.

(* ---- spec-level helpers ------------------------------------------------------------ *)

Fixpoint no_arraylike (t : vt) : bool :=
  match t with
  | VArraylike _ => false
  | VArray e _ | VArrayNamed e _ | VSlice e | VSlicePointer e | VEndless e => no_arraylike e
  | VPointer d | VView d => no_arraylike d
  | VPrim _ | VStruct _ | VWord _ _ | VUnresolved _ => true
  end.

(* walking as get_type_of_reference does: is there an Element step in front of which
   more than [bound] Pointer / View layers stand? *)
Fixpoint element_run_too_long (member_type : N -> option vt) (bound : nat)
         (t : vt) (steps : list astep) : bool :=
  match steps with
  | [] => false
  | AElement _ :: rest =>
      Nat.ltb bound (ptr_run t)
      || match get_element_type (fully_dereferenced t) with
         | Some e => element_run_too_long member_type bound e rest
         | None => false
         end
  | AMember m :: rest =>
      match member_type m with
      | Some t' => element_run_too_long member_type bound t' rest
      | None => false
      end
  end.

Fixpoint strip_pointers_n (n : nat) (t : vt) : vt :=
  match n, t with
  | S n', VPointer d => strip_pointers_n n' d
  | _, _ => t
  end.

Fixpoint pointer_tail (t : vt) : vt :=
  match t with
  | VPointer d => pointer_tail d
  | _ => t
  end.
