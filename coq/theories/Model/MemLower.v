(* Memory lowering of access paths (properties C01 / C10).

   Part 1 -- one memory object.
     value, step, path, get_path, set_path, wt_value
                       source-level objects: what `a[i]`, `s.m`, `s.arr[i].x` mean.
     cell, mem, enc, encode, store, load
                       flat memory; the byte image of a value under LLVM's
                       StructLayout (Model/Layout.v: struct_offsets,
                       llvm_alloc_size).  Scalars are abstract: a scalar of n bytes
                       is n cells [CFrag z n 0 .. CFrag z n (n-1)]; padding is
                       [CPad], which [load] never reads.
     gep_offset        LLVM language reference, "getelementptr": the byte offset
                       and result type of the index list [0, idx...] over an
                       aggregate type (array index i: i * alloc size of the
                       element; struct index k: StructLayout offset k).  No bounds
                       check, as in LLVM.

   Part 2 -- what src/alpha/generator.rs emits for a storage reference.
     lt, erase, lsize  LLVM types with pointee types (LLVM 14, typed pointers:
                       LLVMBuildGEP / LLVMBuildLoad take the source element type
                       from the pointer operand).
     pty, gen          Penne value types and `impl Generatable for ValueType`
                       (generator.rs:1291-1393): Pointer and View become T*, Slice
                       and SlicePointer become { [0 x T]*, i64 }, EndlessArray
                       becomes its element type, Array becomes [n x T], Struct and
                       Word become the (non-packed) struct of the members.
     rstep             resolved::ReferenceStep (resolved.rs:301-320).
     elaborate         the step insertion of typer.rs `Reference::autoderef`
                       (typer.rs:2621-2863; `analyze_assignment_steps`,
                       typer.rs:2124-2264, inserts the same steps for assignment
                       targets): Pointer => Autoderef, View => Autoview, Slice /
                       SlicePointer => Autodeslice{0} + Element{is_endless:false},
                       EndlessArray => Element{is_endless:true}, Array =>
                       Element{is_endless:false}, Struct => Member.
     base_kind, instr, lower_steps, lower_ref
                       `Reference::generate_storage_address`
                       (generator.rs:1479-1679), statement by statement: the vector
                       `indices`, the flag `is_immediate_parameter`, the peek at
                       the next step, LLVMBuildGEP / LLVMBuildLoad /
                       LLVMBuildExtractValue -- of the REPAIRED generator (one
                       added line `is_immediate_parameter = false;` at the top of
                       the arm `ReferenceStep::Autodeslice { offset: 0 }`).
     lower_steps_pinned, lower_ref_pinned, ref_instrs_pinned, ref_indices_pinned
                       the same for the generator of the pinned commit, before the
                       repair.
     gep_step, gep_eval, mval, exec_instr, run
                       a small evaluator for those three instructions (LLVM
                       language reference: getelementptr with a typed pointer
                       operand, load of a pointer or of a { ptr, i64 } aggregate,
                       extractvalue 0/1 of such an aggregate).
     loc, sem_step, sem_steps, sem_ref
                       the reference semantics of the resolved steps, one step at
                       a time (what the steps are meant to address).
     lower_path, lower_path_indices, ref_indices
                       the interface for the correspondence check.

   Executable definitions only. *)
From PV Require Import Base.Common Model.Layout.
Open Scope Z_scope.

(* ======================================================================= *)
(* Part 1: one object                                                       *)
(* ======================================================================= *)

(* A scalar carries its (abstract) value; its type is given by the context
   ([wt_value]). *)
Inductive value : Type :=
| VS (z : Z)
| VArr (vs : list value)
| VStruct (vs : list value).

Inductive step : Type :=
| SElem (i : Z)
| SMember (k : nat).

Definition path := list step.

Definition step_eqb (s1 s2 : step) : bool :=
  match s1, s2 with
  | SElem i, SElem j => i =? j
  | SMember k, SMember l => Nat.eqb k l
  | _, _ => false
  end.

Fixpoint upd_nth {A : Type} (l : list A) (n : nat) (x : A) : list A :=
  match l, n with
  | [], _ => []
  | _ :: r, O => x :: r
  | y :: r, S n' => y :: upd_nth r n' x
  end.

Fixpoint get_path (v : value) (p : path) : option value :=
  match p with
  | [] => Some v
  | SElem i :: p' =>
      match v with
      | VArr vs =>
          if i <? 0 then None
          else match nth_error vs (Z.to_nat i) with
               | Some x => get_path x p'
               | None => None
               end
      | _ => None
      end
  | SMember k :: p' =>
      match v with
      | VStruct vs =>
          match nth_error vs k with
          | Some x => get_path x p'
          | None => None
          end
      | _ => None
      end
  end.

Fixpoint set_path (v : value) (p : path) (w : value) : option value :=
  match p with
  | [] => Some w
  | SElem i :: p' =>
      match v with
      | VArr vs =>
          if i <? 0 then None
          else match nth_error vs (Z.to_nat i) with
               | Some x =>
                   match set_path x p' w with
                   | Some x' => Some (VArr (upd_nth vs (Z.to_nat i) x'))
                   | None => None
                   end
               | None => None
               end
      | _ => None
      end
  | SMember k :: p' =>
      match v with
      | VStruct vs =>
          match nth_error vs k with
          | Some x =>
              match set_path x p' w with
              | Some x' => Some (VStruct (upd_nth vs k x'))
              | None => None
              end
          | None => None
          end
      | _ => None
      end
  end.

(* The value has the shape of the type. *)
Fixpoint wt_value (t : ty) (v : value) {struct v} : bool :=
  match v, t with
  | VS _, TInt _ => true
  | VS _, TBool => true
  | VS _, TPtr => true
  | VArr vs, TArr n e =>
      (Z.of_nat (length vs) =? n)
      && (fix go (l : list value) : bool :=
            match l with
            | [] => true
            | x :: r => wt_value e x && go r
            end) vs
  | VStruct vs, TStruct ms =>
      (fix go (l : list value) (ms : list ty) : bool :=
         match l, ms with
         | [], [] => true
         | x :: r, m :: ms' => wt_value m x && go r ms'
         | _, _ => false
         end) vs ms
  | _, _ => false
  end.

(* Neither path is a prefix of the other: they part at some position. *)
Fixpoint disjoint_paths (p q : path) : bool :=
  match p, q with
  | s1 :: p', s2 :: q' => if step_eqb s1 s2 then disjoint_paths p' q' else true
  | _, _ => false
  end.

(* ---- flat memory ------------------------------------------------------- *)

(* [CFrag z n i]: byte i of the n-byte scalar z.  [CPad]: a byte that holds
   nothing (padding, or never written). *)
Inductive cell : Type :=
| CPad
| CFrag (z : Z) (n : Z) (i : Z).

Definition mem := Z -> cell.

Definition scalar_size (t : ty) : Z :=
  match t with
  | TInt b => b
  | TBool => 1
  | TPtr => 8
  | _ => 0
  end.

(* The cell at byte offset o of the image of v at type t; [CPad] at padding
   offsets and outside the object. *)
Fixpoint enc (t : ty) (v : value) (o : Z) {struct v} : cell :=
  match v, t with
  | VS z, TInt b => if (0 <=? o) && (o <? b) then CFrag z b o else CPad
  | VS z, TBool => if (0 <=? o) && (o <? 1) then CFrag z 1 o else CPad
  | VS z, TPtr => if (0 <=? o) && (o <? 8) then CFrag z 8 o else CPad
  | VArr vs, TArr _ e =>
      (fix go (l : list value) (o : Z) : cell :=
         match l with
         | [] => CPad
         | x :: r =>
             if (0 <=? o) && (o <? llvm_alloc_size e) then enc e x o
             else go r (o - llvm_alloc_size e)
         end) vs o
  | VStruct vs, TStruct ms =>
      (fix go (l : list value) (ms : list ty) (offs : list Z) : cell :=
         match l, ms, offs with
         | x :: r, m :: ms', off :: offs' =>
             if (off <=? o) && (o <? off + llvm_alloc_size m) then enc m x (o - off)
             else go r ms' offs'
         | _, _, _ => CPad
         end) vs ms (struct_offsets ms)
  | _, _ => CPad
  end.

(* The image as a list of cells (for running examples). *)
Definition encode (t : ty) (v : value) : list cell :=
  map (fun k => enc t v (Z.of_nat k)) (seq 0 (Z.to_nat (llvm_alloc_size t))).

(* `store t v, t* a`: all llvm_alloc_size t bytes are written (padding becomes
   [CPad]: LLVM leaves it undefined). *)
Definition store (m : mem) (a : Z) (t : ty) (v : value) : mem :=
  fun x => if (a <=? x) && (x <? a + llvm_alloc_size t) then enc t v (x - a) else m x.

(* Cells a+i .. a+i+k-1 are fragments i .. i+k-1 of the n-byte scalar z. *)
Fixpoint check_frag (m : mem) (a z n i : Z) (k : nat) : bool :=
  match k with
  | O => true
  | S k' =>
      match m (a + i) with
      | CFrag z' n' i' =>
          (z' =? z) && (n' =? n) && (i' =? i) && check_frag m a z n (i + 1) k'
      | CPad => false
      end
  end.

Definition load_scalar (m : mem) (a n : Z) : option Z :=
  match m a with
  | CFrag z _ _ => if check_frag m a z n 0 (Z.to_nat n) then Some z else None
  | CPad => None
  end.

Fixpoint load_seq (ld : Z -> option value) (a sz : Z) (k : nat) : option (list value) :=
  match k with
  | O => Some []
  | S k' =>
      match ld a, load_seq ld (a + sz) sz k' with
      | Some v, Some vs => Some (v :: vs)
      | _, _ => None
      end
  end.

(* `load t, t* a`: None when some non-padding byte of the type does not hold
   the right fragment. *)
Fixpoint load (m : mem) (a : Z) (t : ty) {struct t} : option value :=
  match t with
  | TInt b => option_map VS (load_scalar m a b)
  | TBool => option_map VS (load_scalar m a 1)
  | TPtr => option_map VS (load_scalar m a 8)
  | TArr n e =>
      option_map VArr (load_seq (fun a' => load m a' e) a (llvm_alloc_size e) (Z.to_nat n))
  | TStruct ms =>
      option_map VStruct
        ((fix go (l : list ty) (offs : list Z) : option (list value) :=
            match l, offs with
            | [], _ => Some []
            | x :: r, off :: offs' =>
                match load m (a + off) x, go r offs' with
                | Some v, Some vs => Some (v :: vs)
                | _, _ => None
                end
            | _ :: _, [] => None
            end) ms (struct_offsets ms))
  end.

(* ---- getelementptr over one object ---------------------------------------- *)

(* Offset and result type of `getelementptr t, t* base, 0, idx(p)...`. *)
Fixpoint gep_offset (t : ty) (p : path) : option (Z * ty) :=
  match p with
  | [] => Some (0, t)
  | SElem i :: p' =>
      match t with
      | TArr _ e =>
          match gep_offset e p' with
          | Some (o, t') => Some (i * llvm_alloc_size e + o, t')
          | None => None
          end
      | _ => None
      end
  | SMember k :: p' =>
      match t with
      | TStruct ms =>
          match nth_error ms k, nth_error (struct_offsets ms) k with
          | Some m, Some off =>
              match gep_offset m p' with
              | Some (o, t') => Some (off + o, t')
              | None => None
              end
          | _, _ => None
          end
      | _ => None
      end
  end.

(* ======================================================================= *)
(* Part 2: the generator                                                    *)
(* ======================================================================= *)

(* LLVM first-class types with pointee types. *)
Inductive lt : Type :=
| LInt (bytes : Z)
| LBool
| LPtr (t : lt)
| LArr (n : Z) (t : lt)
| LStruct (ms : list lt).

Fixpoint erase (t : lt) : ty :=
  match t with
  | LInt b => TInt b
  | LBool => TBool
  | LPtr _ => TPtr
  | LArr n e => TArr n (erase e)
  | LStruct ms =>
      TStruct ((fix go (l : list lt) : list ty :=
                  match l with
                  | [] => []
                  | x :: r => erase x :: go r
                  end) ms)
  end.

Fixpoint erase_list (l : list lt) : list ty :=
  match l with
  | [] => []
  | x :: r => erase x :: erase_list r
  end.

Definition lsize (t : lt) : Z := llvm_alloc_size (erase t).

(* { [0 x e]*, i64 } *)
Definition slice_lt (e : lt) : lt := LStruct [LPtr (LArr 0 e); LInt 8].

(* Penne value types (value_type.rs:20-85) as far as references see them. *)
Inductive pty : Type :=
| PInt (bytes : Z)
| PBool
| PArr (n : Z) (e : pty)
| PStruct (ms : list pty)
| PPtr (t : pty)
| PView (t : pty)
| PSlice (e : pty)
| PSlicePtr (e : pty)
| PEndless (e : pty).

(* generator.rs:1291 impl Generatable for ValueType *)
Fixpoint gen (t : pty) : lt :=
  match t with
  | PInt b => LInt b
  | PBool => LBool
  | PArr n e => LArr n (gen e)
  | PStruct ms =>
      LStruct ((fix go (l : list pty) : list lt :=
                  match l with
                  | [] => []
                  | x :: r => gen x :: go r
                  end) ms)
  | PPtr t' => LPtr (gen t')
  | PView t' => LPtr (gen t')
  | PSlice e => slice_lt (gen e)
  | PSlicePtr e => slice_lt (gen e)
  | PEndless e => gen e
  end.

(* resolved::ReferenceStep.  [RElem i endless]: i is the value the index
   expression evaluates to.  [RDeslice0] = Autodeslice{offset:0} (ArrayByView,
   ArrayByPointer), [RDeslice1] = Autodeslice{offset:1} (Length). *)
Inductive rstep : Type :=
| RElem (i : Z) (endless : bool)
| RMember (k : nat)
| RAutoderef
| RAutoview
| RDeslice0
| RDeslice1.

(* typer.rs:2621 Reference::autoderef, the loop over (current_type, next source
   step); fuel = MAX_NUM_AUTODEREF_STEPS = 127 * 128 + 127 iterations (254 before D61 was repaired).  Returns the resolved
   steps and the type reached, None when the Rust code panics ("failed to
   autoderef") or the fuel runs out with steps left (the Rust loop then drops
   the remaining steps silently). *)
Fixpoint elaborate_fuel (fuel : nat) (t : pty) (p : path) : option (list rstep * pty) :=
  match p with
  | [] => Some ([], t)
  | s :: p' =>
      match fuel with
      | O => None
      | S fuel' =>
          match t with
          | PPtr u =>
              match elaborate_fuel fuel' u p with
              | Some (rs, t') => Some (RAutoderef :: rs, t')
              | None => None
              end
          | PView u =>
              match elaborate_fuel fuel' u p with
              | Some (rs, t') => Some (RAutoview :: rs, t')
              | None => None
              end
          | PArr _ e =>
              match s with
              | SElem i =>
                  match elaborate_fuel fuel' e p' with
                  | Some (rs, t') => Some (RElem i false :: rs, t')
                  | None => None
                  end
              | SMember _ => None
              end
          | PEndless e =>
              match s with
              | SElem i =>
                  match elaborate_fuel fuel' e p' with
                  | Some (rs, t') => Some (RElem i true :: rs, t')
                  | None => None
                  end
              | SMember _ => None
              end
          | PSlice e | PSlicePtr e =>
              match s with
              | SElem i =>
                  match elaborate_fuel fuel' e p' with
                  | Some (rs, t') => Some (RDeslice0 :: RElem i false :: rs, t')
                  | None => None
                  end
              | SMember _ => None
              end
          | PStruct ms =>
              match s with
              | SMember k =>
                  match nth_error ms k with
                  | Some m =>
                      match elaborate_fuel fuel' m p' with
                      | Some (rs, t') => Some (RMember k :: rs, t')
                      | None => None
                      end
                  | None => None
                  end
              | SElem _ => None
              end
          | PInt _ | PBool => None
          end
      end
  end.

Definition MAX_NUM_AUTODEREF_STEPS : nat := 127 * 128 + 127.

Definition elaborate (t : pty) (p : path) : option (list rstep * pty) :=
  elaborate_fuel MAX_NUM_AUTODEREF_STEPS t p.

(* Where the base identifier is found (generator.rs:1487-1524):
   llvm.local_parameters (an SSA value), llvm.local_variables (an alloca),
   llvm.global_variables (a global). *)
Inductive base_kind : Type := BParam | BLocal | BGlobal.

(* A GEP index: a constant the generator writes (`i32 c`) or the value of an
   index expression (`i64 %n`, or `i64 c` for a literal). *)
Inductive gidx : Type :=
| GConst (z : Z)
| GDyn (z : Z).

Definition gval (g : gidx) : Z :=
  match g with
  | GConst z => z
  | GDyn z => z
  end.

Inductive instr : Type :=
| IGep (gs : list gidx)
| ILoad
| IExtract (k : Z).

Definition is_nil {A : Type} (l : list A) : bool :=
  match l with
  | [] => true
  | _ :: _ => false
  end.

Definition flush (indices : list gidx) : list instr :=
  if is_nil indices then [] else [IGep indices].

(* generator.rs:1531-1678: the `while let Some(step) = steps.next()` loop and the
   final GEP.  [indices] is the vector `indices`, [imm] the flag
   `is_immediate_parameter`.

   This is the REPAIRED generator: the arm `ReferenceStep::Autodeslice { offset: 0 }`
   (generator.rs:1625) starts with the added statement
   `is_immediate_parameter = false;`.  The generator of the pinned commit, without
   that statement, is [lower_steps_pinned] below; the two differ only in the flag
   passed on by the RDeslice0 arm. *)
Fixpoint lower_steps (steps : list rstep) (indices : list gidx) (imm : bool) : list instr :=
  match steps with
  | [] => flush indices                                           (* 1665-1676 *)
  | RElem i _ :: rest => lower_steps rest (indices ++ [GDyn i]) imm         (* 1537-1544 *)
  | RMember k :: rest =>
      lower_steps rest (indices ++ [GConst (Z.of_nat k)]) imm               (* 1545-1550 *)
  | RAutoderef :: rest | RAutoview :: rest =>                               (* 1551-1624 *)
      let '(indices1, imm1, followed) :=
        match rest with
        | RElem _ endless :: _ =>
            (if imm && negb endless then indices ++ [GConst 0] else indices, imm, negb endless)
        | RMember _ :: _ =>
            (if imm then indices ++ [GConst 0] else indices, imm, true)
        | RAutoderef :: _ => (indices, imm, false)
        | RAutoview :: _ => (indices, imm, false)
        | RDeslice0 :: _ => if imm then (indices, false, false) else (indices, false, true)
        | RDeslice1 :: _ => (indices ++ [GConst 0], imm, false)
        | [] => (indices, imm, false)
        end in
      if imm1 then lower_steps rest indices1 false                          (* 1600-1604 *)
      else flush indices1 ++ ILoad
           :: lower_steps rest (if followed then [GConst 0] else []) false  (* 1605-1623 *)
  | RDeslice0 :: rest =>                                          (* 1625-1656, repaired *)
      (* is_immediate_parameter = false;   <- the added statement *)
      if is_nil indices then IExtract 0 :: lower_steps rest [GConst 0] false
      else IGep (indices ++ [GConst 0]) :: ILoad :: lower_steps rest [GConst 0] false
  | RDeslice1 :: rest => lower_steps rest (indices ++ [GConst 1]) imm       (* 1657-1660 *)
  end.

(* generator.rs:1479-1529: the base address and the first index. *)
Definition lower_ref (b : base_kind) (steps : list rstep) : list instr :=
  match b with
  | BParam =>
      if is_nil steps then [IExtract 0]        (* "We assume ... Slice(Pointer)" *)
      else lower_steps steps [] true
  | BLocal | BGlobal =>
      if is_nil steps then []
      else lower_steps steps [GConst 0] false
  end.

(* THE GENERATOR BEFORE THE REPAIR (the pinned commit): the Autodeslice{0} arm
   leaves `is_immediate_parameter` as it is, so after the Autodeslice of a slice
   parameter a later Autoderef/Autoview is still treated as "free" (no load). *)
Fixpoint lower_steps_pinned (steps : list rstep) (indices : list gidx) (imm : bool)
  : list instr :=
  match steps with
  | [] => flush indices
  | RElem i _ :: rest => lower_steps_pinned rest (indices ++ [GDyn i]) imm
  | RMember k :: rest => lower_steps_pinned rest (indices ++ [GConst (Z.of_nat k)]) imm
  | RAutoderef :: rest | RAutoview :: rest =>
      let '(indices1, imm1, followed) :=
        match rest with
        | RElem _ endless :: _ =>
            (if imm && negb endless then indices ++ [GConst 0] else indices, imm, negb endless)
        | RMember _ :: _ =>
            (if imm then indices ++ [GConst 0] else indices, imm, true)
        | RAutoderef :: _ => (indices, imm, false)
        | RAutoview :: _ => (indices, imm, false)
        | RDeslice0 :: _ => if imm then (indices, false, false) else (indices, false, true)
        | RDeslice1 :: _ => (indices ++ [GConst 0], imm, false)
        | [] => (indices, imm, false)
        end in
      if imm1 then lower_steps_pinned rest indices1 false
      else flush indices1 ++ ILoad
           :: lower_steps_pinned rest (if followed then [GConst 0] else []) false
  | RDeslice0 :: rest =>                                          (* 1625-1656, pinned *)
      if is_nil indices then IExtract 0 :: lower_steps_pinned rest [GConst 0] imm
      else IGep (indices ++ [GConst 0]) :: ILoad :: lower_steps_pinned rest [GConst 0] imm
  | RDeslice1 :: rest => lower_steps_pinned rest (indices ++ [GConst 1]) imm
  end.

Definition lower_ref_pinned (b : base_kind) (steps : list rstep) : list instr :=
  match b with
  | BParam =>
      if is_nil steps then [IExtract 0]
      else lower_steps_pinned steps [] true
  | BLocal | BGlobal =>
      if is_nil steps then []
      else lower_steps_pinned steps [GConst 0] false
  end.

(* ---- evaluator -------------------------------------------------------------- *)

(* One index after the first: into an array (any integer) or a struct (a
   constant). *)
Definition gep_step (st : Z * lt) (g : gidx) : option (Z * lt) :=
  let '(a, t) := st in
  match t with
  | LArr _ e => Some (a + gval g * lsize e, e)
  | LStruct ms =>
      match g with
      | GConst k =>
          if k <? 0 then None
          else match nth_error ms (Z.to_nat k),
                     nth_error (struct_offsets (erase_list ms)) (Z.to_nat k) with
               | Some m, Some off => Some (a + off, m)
               | _, _ => None
               end
      | GDyn _ => None
      end
  | _ => None
  end.

Fixpoint gep_steps (st : Z * lt) (gs : list gidx) : option (Z * lt) :=
  match gs with
  | [] => Some st
  | g :: r =>
      match gep_step st g with
      | Some st' => gep_steps st' r
      | None => None
      end
  end.

(* `getelementptr t, t* a, gs`: the first index steps over whole objects of
   type t. *)
Definition gep_eval (t : lt) (a : Z) (gs : list gidx) : option (Z * lt) :=
  match gs with
  | [] => Some (a, t)
  | g :: r => gep_steps (a + gval g * lsize t, t) r
  end.

(* SSA values of the address computation: a typed pointer, or a slice
   aggregate { [0 x e]* p, i64 len }. *)
Inductive mval : Type :=
| MPtr (a : Z) (t : lt)
| MSlice (p : Z) (len : Z) (e : lt).

Definition exec_instr (m : mem) (i : instr) (v : mval) : option mval :=
  match i, v with
  | IGep gs, MPtr a t =>
      match gep_eval t a gs with
      | Some (a', t') => Some (MPtr a' t')
      | None => None
      end
  | ILoad, MPtr a (LPtr u) =>
      match load_scalar m a 8 with
      | Some z => Some (MPtr z u)
      | None => None
      end
  | ILoad, MPtr a (LStruct [LPtr (LArr _ e); LInt 8]) =>
      match load_scalar m a 8, load_scalar m (a + 8) 8 with
      | Some p, Some len => Some (MSlice p len e)
      | _, _ => None
      end
  | IExtract 0, MSlice p _ e => Some (MPtr p (LArr 0 e))
  | _, _ => None
  end.

Fixpoint run (m : mem) (is : list instr) (v : mval) : option mval :=
  match is with
  | [] => Some v
  | i :: r =>
      match exec_instr m i v with
      | Some v' => run m r v'
      | None => None
      end
  end.

(* ---- reference semantics of the resolved steps ------------------------------ *)

(* Where the object denoted so far lives: in memory at an address, or it is an
   SSA value (a parameter: pointer/view or slice). *)
Inductive loc : Type :=
| LocMem (a : Z) (t : lt)
| LocPtr (z : Z) (u : lt)
| LocSlice (p : Z) (len : Z) (e : lt).

Definition sem_step (m : mem) (l : loc) (s : rstep) : option loc :=
  match s, l with
  | RElem i false, LocMem a (LArr _ e) => Some (LocMem (a + i * lsize e) e)
  | RElem i true, LocMem a t => Some (LocMem (a + i * lsize t) t)
  | RMember k, LocMem a (LStruct ms) =>
      match nth_error ms k, nth_error (struct_offsets (erase_list ms)) k with
      | Some mk, Some off => Some (LocMem (a + off) mk)
      | _, _ => None
      end
  | (RAutoderef | RAutoview), LocMem a (LPtr u) =>
      match load_scalar m a 8 with
      | Some z => Some (LocMem z u)
      | None => None
      end
  | (RAutoderef | RAutoview), LocPtr z u => Some (LocMem z u)
  | RDeslice0, LocSlice p _ e => Some (LocMem p (LArr 0 e))
  | _, _ => None
  end.

Fixpoint sem_steps (m : mem) (l : loc) (steps : list rstep) : option loc :=
  match steps with
  | [] => Some l
  | s :: r =>
      match sem_step m l s with
      | Some l' => sem_steps m l' r
      | None => None
      end
  end.

(* The address a reference denotes; [None] if it does not denote an object in
   memory. *)
Definition loc_addr (l : loc) : option mval :=
  match l with
  | LocMem a t => Some (MPtr a t)
  | LocPtr _ _ => None
  | LocSlice _ _ _ => None
  end.

(* The SSA value the generator starts from for a base at location l. *)
Definition base_mval (l : loc) : mval :=
  match l with
  | LocMem a t => MPtr a t
  | LocPtr z u => MPtr z u
  | LocSlice p len e => MSlice p len e
  end.

Definition base_kind_of (l : loc) : base_kind :=
  match l with
  | LocMem _ _ => BLocal
  | _ => BParam
  end.

(* Only for the pinned generator ([lower_ref_pinned]): there the flag
   `is_immediate_parameter` is not cleared by Autodeslice{0}; a later
   Autoderef/Autoview is then treated as "free" (no load).  The steps on which
   that cannot happen (on these the pinned and the repaired generator agree): *)
Fixpoint no_deref (steps : list rstep) : bool :=
  match steps with
  | [] => true
  | (RAutoderef | RAutoview) :: _ => false
  | _ :: r => no_deref r
  end.

Definition quirk_free (b : base_kind) (steps : list rstep) : bool :=
  match b, steps with
  | BParam, RDeslice0 :: r => no_deref r
  | _, _ => true
  end.

(* ---- interface for the correspondence check --------------------------------- *)

Definition step_gidx (s : step) : gidx :=
  match s with
  | SElem i => GDyn i
  | SMember k => GConst (Z.of_nat k)
  end.

Definition step_rstep (s : step) : rstep :=
  match s with
  | SElem i => RElem i false
  | SMember k => RMember k
  end.

(* The instructions for `x<p>` where x is a local or global variable of an
   aggregate type and p consists of element and member steps. *)
Definition lower_path (p : path) : list instr := lower_ref BLocal (map step_rstep p).

(* What is printed in the IR: run-time indices as -1. *)
Definition show_gidx (g : gidx) : Z :=
  match g with
  | GConst z => z
  | GDyn _ => -1
  end.

Fixpoint instr_indices (is : list instr) : list (list Z) :=
  match is with
  | [] => []
  | IGep gs :: r => map show_gidx gs :: instr_indices r
  | _ :: r => instr_indices r
  end.

(* The index lists of the getelementptr instructions, in order, for a path
   inside a local/global of type t; None if the path does not fit the type. *)
Definition lower_path_indices (t : ty) (p : path) : option (list (list Z)) :=
  match gep_offset t p with
  | Some _ => Some (instr_indices (lower_path p))
  | None => None
  end.

(* The same for a base of any Penne type, through pointers, views and slices:
   the typer's step insertion followed by the generator. *)
Definition ref_instrs (b : base_kind) (t : pty) (p : path) : option (list instr) :=
  match elaborate t p with
  | Some (rs, _) => Some (lower_ref b rs)
  | None => None
  end.

Definition ref_indices (b : base_kind) (t : pty) (p : path) : option (list (list Z)) :=
  match ref_instrs b t p with
  | Some is => Some (instr_indices is)
  | None => None
  end.

(* The same against the pinned (unrepaired) generator. *)
Definition ref_instrs_pinned (b : base_kind) (t : pty) (p : path) : option (list instr) :=
  match elaborate t p with
  | Some (rs, _) => Some (lower_ref_pinned b rs)
  | None => None
  end.

Definition ref_indices_pinned (b : base_kind) (t : pty) (p : path)
  : option (list (list Z)) :=
  match ref_instrs_pinned b t p with
  | Some is => Some (instr_indices is)
  | None => None
  end.

(* 0 = getelementptr, 1 = load, 2 = extractvalue: the shape of the sequence. *)
Definition instr_kind (i : instr) : Z :=
  match i with
  | IGep _ => 0
  | ILoad => 1
  | IExtract _ => 2
  end.

Definition ref_shape (b : base_kind) (t : pty) (p : path) : option (list Z) :=
  match ref_instrs b t p with
  | Some is => Some (map instr_kind is)
  | None => None
  end.
