(* Reference abstract syntax, reference recursive-descent parser, printer back to
   tokens and canonical s-expression text for the Penne language as implemented by
   the first-generation parser (src/alpha/parser.rs), the AST of src/alpha/common.rs
   and the printer of src/alpha/rebuilder.rs.

   Executable definitions only.  Correspondence with the Rust code:

     ty, ty_wellformed ...... value_type.rs ValueType / is_wellformed,
                              is_wellformed_inner, is_wellformed_element, can_be_element
     expr, reference, step .. common.rs Expression, Reference, ReferenceStep
     stmt, fbody, decl ...... common.rs Statement, FunctionBody, Declaration
     parse_inner_type ....... parser.rs parse_inner_type
     parse_wellformed_type .. parser.rs parse_wellformed_type
     parse_addition ......... parser.rs parse_expression = parse_addition (first operand)
     add_loop ............... parser.rs parse_addition (the loop)
     bit_loop ............... parser.rs parse_rest_of_bitwise_expression (after the operator)
     (shift case of add_loop) parser.rs parse_rest_of_bitshift_operation
     parse_multiplication, mul_loop ... parser.rs parse_multiplication
     parse_singular, as_loop .......... parser.rs parse_singular_expression
     parse_unary ............ parser.rs parse_unary_expression (as of commit 4639ff7: `-` also
                              folds a bit literal of value 2^127 into the signed literal i128::MIN)
     parse_primary .......... parser.rs parse_primary_expression
     expr_list .............. parser.rs parse_arguments / parse_rest_of_array (loop part)
     members_loop ........... parser.rs parse_body_of_structural (loop part)
     parse_reference ........ parser.rs parse_reference (+ parse_addressed_reference)
     steps_loop ............. parser.rs parse_rest_of_reference
     parse_statement, block_loop ...... parser.rs parse_statement, parse_rest_of_block
     parse_comparison ....... parser.rs parse_comparison
     body_loop .............. parser.rs parse_function_body
     parse_declaration, parse_declaration_rest ... parser.rs parse_declaration and the
                              parse_import / parse_*_declaration functions it calls
     parse_module ........... parser.rs parse
     print_* ................ rebuilder.rs Rebuildable impls (token level; see DEVIATIONS)
     show_* ................. canonical text, format specified below (no Rust counterpart)

   Conventions.
   * A token is inspected only through kind/value/vtype/bytes.  KIdentifier and
     KBuiltin carry the interned name in [value] (name = Z.to_N value).  The
     first-generation lexer has no `return` keyword: `return` is an identifier; the
     caller MUST intern the string "return" as [name_return] (= 0).  [norm_return]
     rewrites KReturn tokens (second-generation lexer) into that identifier.
   * A lexical error token (kind KError) makes every consumer fail and every
     lookahead answer "no match", exactly like [peek] returning None on Err tokens.
   * The result None stands for "the Rust parser reports at least one error" (an
     Err result, or an Ok tree containing a Poison node: missing constant / member /
     parameter type, `return:` immediately followed by `}`, poisoned function body,
     Declaration::Poison) or "out of fuel".  Error recovery is not modelled.
   * [nb] ("no brace") models Tokens::with_reservation(Token::BraceLeft): while the
     condition of an `if` is parsed, peek() hides an opening brace.  The only
     lookahead whose outcome this changes is `Identifier {` in parse_primary.
   * usize is taken to be 64 bits (array length `*x as usize` truncates).

   DEVIATIONS of print_* from rebuilder.rs (the rebuilder is a debugging aid whose
   output is not always valid source; print_* emits valid source):
   * the rebuilder drops integer suffixes and prints char literals as 0x..;
     print_expr keeps suffixes (KSuffixedInteger) and char literals (KCharLiteral);
   * the rebuilder prints unresolved named types as `Name#?`, builtin calls as
     `name!#!(`, structures as `struct#Name Name`, omits `pub` on function heads and
     prints opaque structures with an empty member list; print_* emits the source
     forms `Name`, `name!(`, `struct Name`, `pub fn ...;`, `struct Name;`;
   * field-init shorthand is printed in full (`a: a`), as the rebuilder does. *)
From PV Require Import Base.Common Base.IR Base.Tok.
From Coq Require Import Ascii.
From Coq Require String.
Import Coq.Strings.String.StringSyntax.
Delimit Scope string_scope with string.

(* ------------------------------------------------------------------------- *)
(* Abstract syntax                                                            *)
(* ------------------------------------------------------------------------- *)

Inductive ty :=
| TVoid
| TPrim (p : prim)
| TNamed (n : name)                       (* UnresolvedStructOrWord { Some(identifier) } *)
| TArray (len : Z) (elt : ty)             (* [N]T *)
| TArrayNamed (len : name) (elt : ty)     (* [NAME]T *)
| TSlice (elt : ty)                       (* [:]T *)
| TEndless (elt : ty)                     (* [..]T *)
| TArraylike (elt : ty)                   (* []T *)
| TPointer (d : ty)                       (* &T *)
| TView (d : ty).                         (* (T) *)

Inductive expr :=
| EBinary (op : binop) (l r : expr)
| EUnary (op : unop) (e : expr)
| EBool (b : bool)
| ESigned (v : Z) (t : option prim)       (* SignedIntegerLiteral; t = the suffix *)
| EBits (v : Z) (t : option prim)         (* BitIntegerLiteral; char literal: Some Char8 *)
| EString (bs : list N)
| EArray (es : list expr)
| EStructural (n : name) (ms : list (name * expr))
| EParen (e : expr)
| EDeref (r : reference)
| EBitCast (e : expr)
| ETypeCast (e : expr) (t : ty)
| ELength (r : reference)
| ESizeOf (t : ty)
| ECall (builtin : bool) (n : name) (args : list expr)
with reference :=
| Ref (depth : N) (base : name) (steps : list step)
with step :=
| RsElement (e : expr)
| RsMember (n : name).

Inductive stmt :=
| StVar (n : name) (t : option ty) (v : option expr)
| StAssign (r : reference) (v : expr)
| StCall (builtin : bool) (n : name) (args : list expr)
| StLoop
| StGoto (l : name)
| StLabel (l : name)
| StIf (op : cmpop) (l r : expr) (th : stmt) (el : option stmt)
| StBlock (ss : list stmt).

(* FunctionBody: statements (the `return:` label included) and the return value. *)
Definition fbody := (list stmt * option expr)%type.

Inductive skind := SkStruct | SkOpaque | SkWord8 | SkWord16 | SkWord32 | SkWord64 | SkWord128.

Inductive decl :=
| DImport (file : list N)
| DConst (pub ext : bool) (n : name) (t : ty) (v : expr)
| DFn (pub ext : bool) (n : name) (ps : list (name * ty)) (ret : ty) (body : option fbody)
      (* body = None: FunctionHead *)
| DStruct (pub ext : bool) (k : skind) (n : name) (ms : list (name * ty)).

Definition name_return : name := 0%N.
Definition MAX_ADDRESS_DEPTH : N := 127%N.
Definition MAX_REFERENCE_DEPTH : nat := 127%nat.
Definition i128_max : Z := (2 ^ 127 - 1)%Z.
Definition i128_min_abs : Z := (2 ^ 127)%Z.
Definition u128_lim : Z := (2 ^ 128)%Z.
Definition usize_lim : Z := (2 ^ 64)%Z.

(* ------------------------------------------------------------------------- *)
(* Tokens                                                                     *)
(* ------------------------------------------------------------------------- *)

Definition mk (k : tkind) (v : Z) (vt : option tykw) (bs : list N) : tok :=
  {| kind := k; value := v; vtype := vt; bytes := bs;
     tstart := 0%N; tend := 0%N; line := 0%N; lstart := 0%N |}.
Definition tk (k : tkind) : tok := mk k 0%Z None [].
Definition tk_id (n : name) : tok := mk KIdentifier (Z.of_N n) None [].
Definition tk_builtin (n : name) : tok := mk KBuiltin (Z.of_N n) None [].

Definition tok_name (t : tok) : name := Z.to_N (value t).

(* Lookahead: kind of the first token; KError stands for "nothing to see"
   (end of input or a lexical error), as [peek] does. *)
Definition hdk (ts : list tok) : tkind :=
  match ts with t :: _ => kind t | [] => KError end.

Definition norm_return (ts : list tok) : list tok :=
  map (fun t => match kind t with
                | KReturn => mk KIdentifier (Z.of_N name_return) None []
                | _ => t end) ts.

Definition isParenLeft k := match k with KParenLeft => true | _ => false end.
Definition isParenRight k := match k with KParenRight => true | _ => false end.
Definition isBraceLeft k := match k with KBraceLeft => true | _ => false end.
Definition isBraceRight k := match k with KBraceRight => true | _ => false end.
Definition isBracketLeft k := match k with KBracketLeft => true | _ => false end.
Definition isBracketRight k := match k with KBracketRight => true | _ => false end.
Definition isPipe k := match k with KPipe => true | _ => false end.
Definition isSemicolon k := match k with KSemicolon => true | _ => false end.
Definition isAssignment k := match k with KAssignment => true | _ => false end.
Definition isColon k := match k with KColon => true | _ => false end.
Definition isComma k := match k with KComma => true | _ => false end.
Definition isElse k := match k with KElse => true | _ => false end.
Definition isArrow k := match k with KArrow => true | _ => false end.
Definition isDots k := match k with KDots => true | _ => false end.
Definition isDot k := match k with KDot => true | _ => false end.
Definition isAs k := match k with KAs => true | _ => false end.
Definition isCast k := match k with KCast => true | _ => false end.
Definition isAmpersand k := match k with KAmpersand => true | _ => false end.
Definition isString k := match k with KStringLiteral => true | _ => false end.
Definition isPub k := match k with KPub => true | _ => false end.
Definition isExtern k := match k with KExtern => true | _ => false end.
Definition isIdentifier k := match k with KIdentifier => true | _ => false end.

(* consume(expected) *)
Definition expect (p : tkind -> bool) (ts : list tok) : option (list tok) :=
  match ts with
  | t :: r => if p (kind t) then Some r else None
  | [] => None
  end.

(* extract_identifier *)
Definition expect_id (ts : list tok) : option (name * list tok) :=
  match ts with
  | t :: r => if isIdentifier (kind t) then Some (tok_name t, r) else None
  | [] => None
  end.

Definition addop_of (k : tkind) : option binop :=
  match k with KPlus => Some Add | KMinus => Some Subtract | _ => None end.
Definition mulop_of (k : tkind) : option binop :=
  match k with KTimes => Some Multiply | KDivide => Some Divide | KModulo => Some Modulo
          | _ => None end.
Definition bitop_of (k : tkind) : option binop :=
  match k with KAmpersand => Some BitwiseAnd | KPipe => Some BitwiseOr | KCaret => Some BitwiseXor
          | _ => None end.
Definition shiftop_of (k : tkind) : option binop :=
  match k with KShiftLeft => Some ShiftLeft | KShiftRight => Some ShiftRight | _ => None end.
Definition cmpop_of (k : tkind) : option cmpop :=
  match k with
  | KEquals => Some Equals | KDoesNotEqual => Some DoesNotEqual
  | KAngleLeft => Some IsLess | KAngleRight => Some IsGreater
  | KIsGE => Some IsGE | KIsLE => Some IsLE
  | _ => None end.

Definition binop_eqb (a b : binop) : bool :=
  match a, b with
  | Add, Add | Subtract, Subtract | Multiply, Multiply | Divide, Divide | Modulo, Modulo
  | BitwiseAnd, BitwiseAnd | BitwiseOr, BitwiseOr | BitwiseXor, BitwiseXor
  | ShiftLeft, ShiftLeft | ShiftRight, ShiftRight | AdvancePointer, AdvancePointer => true
  | _, _ => false
  end.

(* "token == &op_token" in parse_rest_of_bitwise_expression *)
Definition same_bitop (op : binop) (k : tkind) : bool :=
  match bitop_of k with Some op' => binop_eqb op op' | None => false end.

Definition is_binary (e : expr) : bool :=
  match e with EBinary _ _ _ => true | _ => false end.

Definition prim_signed (p : prim) : bool :=
  match p with Int8 | Int16 | Int32 | Int64 | Int128 => true | _ => false end.

(* ------------------------------------------------------------------------- *)
(* Types                                                                      *)
(* ------------------------------------------------------------------------- *)

Definition can_be_element (t : ty) : bool :=
  match t with
  | TVoid | TSlice _ | TEndless _ | TView _ => false
  | _ => true
  end.

Fixpoint ty_wf_inner (t : ty) : bool :=
  match t with
  | TVoid => false
  | TArray _ e | TArrayNamed _ e | TEndless e | TArraylike e => can_be_element e && ty_wf_inner e
  | TSlice _ => false
  | TView _ => false
  | TPointer d => ty_wf_inner d
  | TPrim _ | TNamed _ => true
  end.

Definition ty_wellformed (t : ty) : bool :=
  match t with
  | TArray _ e | TArrayNamed _ e | TSlice e | TEndless e | TArraylike e =>
      can_be_element e && ty_wf_inner e
  | TPointer d | TView d => ty_wf_inner d
  | TVoid | TPrim _ | TNamed _ => true
  end.

Fixpoint parse_inner_type (f : nat) (ts : list tok) {struct f} : option (ty * list tok) :=
  match f with
  | O => None
  | S f =>
    match ts with
    | [] => None
    | t :: ts1 =>
      match kind t with
      | KType =>
          match vtype t with
          | Some TyVoid => Some (TVoid, ts1)
          | Some (TyPrim p) => Some (TPrim p, ts1)
          | None => None
          end
      | KIdentifier => Some (TNamed (tok_name t), ts1)
      | KAmpersand =>
          match parse_inner_type f ts1 with
          | Some (d, ts2) => Some (TPointer d, ts2)
          | None => None
          end
      | KParenLeft =>
          match parse_inner_type f ts1 with
          | Some (d, ts2) =>
              match expect isParenRight ts2 with
              | Some ts3 => Some (TView d, ts3)
              | None => None
              end
          | None => None
          end
      | KBracketLeft =>
          match ts1 with
          | [] => None
          | t1 :: ts2 =>
            match kind t1 with
            | KColon =>
                match expect isBracketRight ts2 with
                | Some ts3 =>
                    match parse_inner_type f ts3 with
                    | Some (e, ts4) => Some (TSlice e, ts4)
                    | None => None
                    end
                | None => None
                end
            | KDots =>
                match expect isBracketRight ts2 with
                | Some ts3 =>
                    match parse_inner_type f ts3 with
                    | Some (e, ts4) => Some (TEndless e, ts4)
                    | None => None
                    end
                | None => None
                end
            | KBracketRight =>
                match parse_inner_type f ts2 with
                | Some (e, ts3) => Some (TArraylike e, ts3)
                | None => None
                end
            | KNakedDecimal =>
                match expect isBracketRight ts2 with
                | Some ts3 =>
                    match parse_inner_type f ts3 with
                    | Some (e, ts4) => Some (TArray (Z.modulo (value t1) usize_lim) e, ts4)
                    | None => None
                    end
                | None => None
                end
            | KIdentifier =>
                match expect isBracketRight ts2 with
                | Some ts3 =>
                    match parse_inner_type f ts3 with
                    | Some (e, ts4) => Some (TArrayNamed (tok_name t1) e, ts4)
                    | None => None
                    end
                | None => None
                end
            | _ => None
            end
          end
      | _ => None
      end
    end
  end.

Definition parse_wellformed_type (f : nat) (ts : list tok) : option (ty * list tok) :=
  match parse_inner_type f ts with
  | Some (t, r) => if ty_wellformed t then Some (t, r) else None
  | None => None
  end.

(* ------------------------------------------------------------------------- *)
(* Expressions                                                                *)
(* ------------------------------------------------------------------------- *)

(* The `as` loop of parse_singular_expression. *)
Fixpoint as_loop (f : nat) (acc : expr) (ts : list tok) {struct f} : option (expr * list tok) :=
  match f with
  | O => None
  | S f =>
    if isAs (hdk ts) then
      match parse_wellformed_type f (tl ts) with
      | Some (t, ts1) => as_loop f (ETypeCast acc t) ts1
      | None => None
      end
    else Some (acc, ts)
  end.

(* Adjacent string literal tokens are concatenated (parse_primary_expression). *)
Fixpoint take_strings (ts : list tok) : list N * list tok :=
  match ts with
  | t :: r => if isString (kind t) then let '(bs, r') := take_strings r in (bytes t ++ bs, r')
              else ([], ts)
  | [] => ([], ts)
  end.

(* Leading ampersands of a reference. *)
Fixpoint count_amps (ts : list tok) : N * list tok :=
  match ts with
  | t :: r => if isAmpersand (kind t) then let '(n, r') := count_amps r in (N.succ n, r')
              else (0%N, ts)
  | [] => (0%N, ts)
  end.

(* Literal tokens. *)
Definition literal_of (t : tok) : option expr :=
  match kind t with
  | KNakedDecimal =>
      if (value t <=? i128_max)%Z then Some (ESigned (value t) None)
      else Some (EBits (value t) None)
  | KBitInteger => Some (EBits (value t) None)
  | KSuffixedInteger =>
      match vtype t with
      | Some (TyPrim p) =>
          if prim_signed p && (value t <=? i128_max)%Z then Some (ESigned (value t) (Some p))
          else Some (EBits (value t) (Some p))
      | _ => None
      end
  | KCharLiteral => Some (EBits (value t) (Some Char8))
  | KBool => Some (EBool (negb (value t =? 0)%Z))
  | _ => None
  end.

(* close = false: `)` (parse_arguments); close = true: `]` (parse_rest_of_array) *)
Definition is_close (br : bool) (k : tkind) : bool :=
  if br then isBracketRight k else isParenRight k.

Fixpoint parse_addition (f : nat) (nb : bool) (ts : list tok) {struct f}
  : option (expr * list tok) :=
  match f with
  | O => None
  | S f =>
    match parse_multiplication f nb ts with
    | Some (e, ts1) => add_loop f nb e ts1
    | None => None
    end
  end

with add_loop (f : nat) (nb : bool) (acc : expr) (ts : list tok) {struct f}
  : option (expr * list tok) :=
  match f with
  | O => None
  | S f =>
    match bitop_of (hdk ts) with
    | Some op =>
        (* parse_rest_of_bitwise_expression *)
        if is_binary acc then None else bit_loop f nb op acc (tl ts)
    | None =>
      match shiftop_of (hdk ts) with
      | Some op =>
          (* parse_rest_of_bitshift_operation *)
          if is_binary acc then None
          else match parse_unary f nb (tl ts) with
               | Some (r, ts1) => Some (EBinary op acc r, ts1)
               | None => None
               end
      | None =>
        match addop_of (hdk ts) with
        | Some op =>
            match parse_multiplication f nb (tl ts) with
            | Some (r, ts1) => add_loop f nb (EBinary op acc r) ts1
            | None => None
            end
        | None => Some (acc, ts)
        end
      end
    end
  end

with bit_loop (f : nat) (nb : bool) (op : binop) (acc : expr) (ts : list tok) {struct f}
  : option (expr * list tok) :=
  match f with
  | O => None
  | S f =>
    match parse_unary f nb ts with
    | Some (r, ts1) =>
        if same_bitop op (hdk ts1) then bit_loop f nb op (EBinary op acc r) (tl ts1)
        else Some (EBinary op acc r, ts1)
    | None => None
    end
  end

with parse_multiplication (f : nat) (nb : bool) (ts : list tok) {struct f}
  : option (expr * list tok) :=
  match f with
  | O => None
  | S f =>
    match parse_singular f nb ts with
    | Some (e, ts1) => mul_loop f nb e ts1
    | None => None
    end
  end

with mul_loop (f : nat) (nb : bool) (acc : expr) (ts : list tok) {struct f}
  : option (expr * list tok) :=
  match f with
  | O => None
  | S f =>
    match mulop_of (hdk ts) with
    | Some op =>
        match parse_singular f nb (tl ts) with
        | Some (r, ts1) => mul_loop f nb (EBinary op acc r) ts1
        | None => None
        end
    | None => Some (acc, ts)
    end
  end

with parse_singular (f : nat) (nb : bool) (ts : list tok) {struct f}
  : option (expr * list tok) :=
  match f with
  | O => None
  | S f =>
    if isCast (hdk ts) then
      match parse_unary f nb (tl ts) with
      | Some (e, ts1) => as_loop f (EBitCast e) ts1
      | None => None
      end
    else
      match parse_unary f nb ts with
      | Some (e, ts1) => as_loop f e ts1
      | None => None
      end
  end

with parse_unary (f : nat) (nb : bool) (ts : list tok) {struct f}
  : option (expr * list tok) :=
  match f with
  | O => None
  | S f =>
    match hdk ts with
    | KPipeForType =>
        match parse_wellformed_type f (tl ts) with
        | Some (t, ts1) =>
            match expect isPipe ts1 with
            | Some ts2 => Some (ESizeOf t, ts2)
            | None => None
            end
        | None => None
        end
    | KPipe =>
        match parse_reference f nb (tl ts) with
        | Some (r, ts1) =>
            match expect isPipe ts1 with
            | Some ts2 => Some (ELength r, ts2)
            | None => None
            end
        | None => None
        end
    | KExclamation =>
        match parse_primary f nb (tl ts) with
        | Some (e, ts1) => Some (EUnary BitwiseComplement e, ts1)
        | None => None
        end
    | KMinus =>
        match parse_primary f nb (tl ts) with
        | Some (ESigned v t, ts1) =>
            if (0 <? v)%Z then Some (ESigned (- v) t, ts1)
            else Some (EUnary Negative (ESigned v t), ts1)
        | Some (EBits v t, ts1) =>
            (* commit 4639ff7: the magnitude of i128::MIN only fits a bit literal,
               whatever its spelling or suffix *)
            if (v =? i128_min_abs)%Z then Some (ESigned (- i128_min_abs) t, ts1)
            else Some (EUnary Negative (EBits v t), ts1)
        | Some (e, ts1) => Some (EUnary Negative e, ts1)
        | None => None
        end
    | _ => parse_primary f nb ts
    end
  end

with parse_primary (f : nat) (nb : bool) (ts : list tok) {struct f}
  : option (expr * list tok) :=
  match f with
  | O => None
  | S f =>
    match ts with
    | [] => None
    | t :: ts1 =>
      match kind t with
      | KNakedDecimal | KBitInteger | KSuffixedInteger | KCharLiteral | KBool =>
          match literal_of t with
          | Some e => Some (e, ts1)
          | None => None
          end
      | KStringLiteral =>
          let '(bs, ts2) := take_strings ts1 in Some (EString (bytes t ++ bs), ts2)
      | KIdentifier =>
          if isParenLeft (hdk ts1) then
            match expr_list f nb false (tl ts1) with
            | Some (args, ts2) =>
                match expect isParenRight ts2 with
                | Some ts3 => Some (ECall false (tok_name t) args, ts3)
                | None => None
                end
            | None => None
            end
          else if isBraceLeft (hdk ts1) && negb nb then
            match members_loop f nb (tl ts1) with
            | Some (ms, ts2) =>
                match expect isBraceRight ts2 with
                | Some ts3 => Some (EStructural (tok_name t) ms, ts3)
                | None => None
                end
            | None => None
            end
          else
            match steps_loop f nb O ts1 with
            | Some (steps, ts2) => Some (EDeref (Ref 0%N (tok_name t) steps), ts2)
            | None => None
            end
      | KBuiltin =>
          match expect isParenLeft ts1 with
          | Some ts2 =>
              match expr_list f nb false ts2 with
              | Some (args, ts3) =>
                  match expect isParenRight ts3 with
                  | Some ts4 => Some (ECall true (tok_name t) args, ts4)
                  | None => None
                  end
              | None => None
              end
          | None => None
          end
      | KAmpersand =>
          (* parse_addressed_reference: the first `&` is already consumed *)
          match parse_reference f nb ts1 with
          | Some (Ref d b steps, ts2) =>
              if (MAX_ADDRESS_DEPTH <? d + 1)%N then None
              else
                let pointer := EDeref (Ref (d + 1)%N b steps) in
                if isDots (hdk ts2) then
                  match parse_addition f nb (tl ts2) with
                  | Some (off, ts3) => Some (EBinary AdvancePointer pointer off, ts3)
                  | None => None
                  end
                else Some (pointer, ts2)
          | None => None
          end
      | KBracketLeft =>
          match expr_list f nb true ts1 with
          | Some (es, ts2) =>
              match expect isBracketRight ts2 with
              | Some ts3 => Some (EArray es, ts3)
              | None => None
              end
          | None => None
          end
      | KParenLeft =>
          match parse_addition f nb ts1 with
          | Some (e, ts2) =>
              match expect isParenRight ts2 with
              | Some ts3 => Some (EParen e, ts3)
              | None => None
              end
          | None => None
          end
      | _ => None
      end
    end
  end

(* The loops of parse_arguments / parse_rest_of_array; the closing token is left
   for the caller to consume. *)
with expr_list (f : nat) (nb : bool) (br : bool) (ts : list tok) {struct f}
  : option (list expr * list tok) :=
  match f with
  | O => None
  | S f =>
    if is_close br (hdk ts) then Some ([], ts)
    else
      match parse_addition f nb ts with
      | Some (e, ts1) =>
          if isComma (hdk ts1) then
            match expr_list f nb br (tl ts1) with
            | Some (es, ts2) => Some (e :: es, ts2)
            | None => None
            end
          else Some ([e], ts1)
      | None => None
      end
  end

(* The loop of parse_body_of_structural (after `{`; `}` left to the caller). *)
with members_loop (f : nat) (nb : bool) (ts : list tok) {struct f}
  : option (list (name * expr) * list tok) :=
  match f with
  | O => None
  | S f =>
    if isBraceRight (hdk ts) then Some ([], ts)
    else
      match expect_id ts with
      | Some (n, ts1) =>
          let value :=
            if isColon (hdk ts1) then parse_addition f nb (tl ts1)
            else Some (EDeref (Ref 0%N n []), ts1) in
          match value with
          | Some (e, ts2) =>
              if isComma (hdk ts2) then
                match members_loop f nb (tl ts2) with
                | Some (ms, ts3) => Some ((n, e) :: ms, ts3)
                | None => None
                end
              else Some ([(n, e)], ts2)
          | None => None
          end
      | None => None
      end
  end

(* parse_reference: all leading `&` (at most MAX_ADDRESS_DEPTH), an identifier, steps. *)
with parse_reference (f : nat) (nb : bool) (ts : list tok) {struct f}
  : option (reference * list tok) :=
  match f with
  | O => None
  | S f =>
    let '(d, ts1) := count_amps ts in
    if (MAX_ADDRESS_DEPTH <? d)%N then None
    else
      match expect_id ts1 with
      | Some (b, ts2) =>
          match steps_loop f nb O ts2 with
          | Some (steps, ts3) => Some (Ref d b steps, ts3)
          | None => None
          end
      | None => None
      end
  end

(* parse_rest_of_reference; [k] is the number of steps already taken. *)
with steps_loop (f : nat) (nb : bool) (k : nat) (ts : list tok) {struct f}
  : option (list step * list tok) :=
  match f with
  | O => None
  | S f =>
    if isBracketLeft (hdk ts) then
      match parse_addition f nb (tl ts) with
      | Some (e, ts1) =>
          match expect isBracketRight ts1 with
          | Some ts2 =>
              if (MAX_REFERENCE_DEPTH <? S k)%nat then None
              else
                match steps_loop f nb (S k) ts2 with
                | Some (ss, ts3) => Some (RsElement e :: ss, ts3)
                | None => None
                end
          | None => None
          end
      | None => None
      end
    else if isDot (hdk ts) then
      match expect_id (tl ts) with
      | Some (m, ts1) =>
          if (MAX_REFERENCE_DEPTH <? S k)%nat then None
          else
            match steps_loop f nb (S k) ts1 with
            | Some (ss, ts2) => Some (RsMember m :: ss, ts2)
            | None => None
            end
      | None => None
      end
    else Some ([], ts)
  end.

Definition parse_expr (f : nat) (ts : list tok) : option (expr * list tok) :=
  parse_addition f false ts.

(* parse_addressed_reference, the first `&` already consumed *)
Definition parse_addressed_reference (f : nat) (nb : bool) (ts : list tok)
  : option (reference * list tok) :=
  match parse_reference f nb ts with
  | Some (Ref d b steps, ts1) =>
      if (MAX_ADDRESS_DEPTH <? d + 1)%N then None else Some (Ref (d + 1)%N b steps, ts1)
  | None => None
  end.

(* parse_arguments *)
Definition parse_arguments (f : nat) (ts : list tok) : option (list expr * list tok) :=
  match expect isParenLeft ts with
  | Some ts1 =>
      match expr_list f false false ts1 with
      | Some (args, ts2) =>
          match expect isParenRight ts2 with
          | Some ts3 => Some (args, ts3)
          | None => None
          end
      | None => None
      end
  | None => None
  end.

(* parse_comparison, with the `{` reservation active *)
Definition parse_comparison (f : nat) (ts : list tok) : option ((cmpop * expr * expr) * list tok) :=
  match parse_addition f true ts with
  | Some (l, ts1) =>
      match cmpop_of (hdk ts1) with
      | Some op =>
          match parse_addition f true (tl ts1) with
          | Some (r, ts2) => Some ((op, l, r), ts2)
          | None => None
          end
      | None => None
      end
  | None => None
  end.

(* ------------------------------------------------------------------------- *)
(* Statements                                                                 *)
(* ------------------------------------------------------------------------- *)

(* `= expr ;` *)
Definition parse_assign_tail (f : nat) (ts : list tok) : option (expr * list tok) :=
  match expect isAssignment ts with
  | Some ts1 =>
      match parse_addition f false ts1 with
      | Some (e, ts2) =>
          match expect isSemicolon ts2 with
          | Some ts3 => Some (e, ts3)
          | None => None
          end
      | None => None
      end
  | None => None
  end.

Fixpoint parse_statement (f : nat) (ts : list tok) {struct f} : option (stmt * list tok) :=
  match f with
  | O => None
  | S f =>
    match ts with
    | [] => None
    | t :: ts1 =>
      match kind t with
      | KBraceLeft =>
          match block_loop f ts1 with
          | Some (ss, ts2) => Some (StBlock ss, ts2)
          | None => None
          end
      | KIf =>
          match parse_comparison f ts1 with
          | Some ((op, l, r), ts2) =>
              match parse_statement f ts2 with
              | Some (th, ts3) =>
                  if isElse (hdk ts3) then
                    match parse_statement f (tl ts3) with
                    | Some (el, ts4) => Some (StIf op l r th (Some el), ts4)
                    | None => None
                    end
                  else Some (StIf op l r th None, ts3)
              | None => None
              end
          | None => None
          end
      | KLoop =>
          match expect isSemicolon ts1 with
          | Some ts2 => Some (StLoop, ts2)
          | None => None
          end
      | KGoto =>
          match expect_id ts1 with
          | Some (l, ts2) =>
              match expect isSemicolon ts2 with
              | Some ts3 => Some (StGoto l, ts3)
              | None => None
              end
          | None => None
          end
      | KVar =>
          match expect_id ts1 with
          | Some (n, ts2) =>
              let otype :=
                if isColon (hdk ts2) then
                  match parse_wellformed_type f (tl ts2) with
                  | Some (t, ts3) => Some (Some t, ts3)
                  | None => None
                  end
                else Some (None, ts2) in
              match otype with
              | Some (ot, ts3) =>
                  let ovalue :=
                    if isAssignment (hdk ts3) then
                      match parse_addition f false (tl ts3) with
                      | Some (e, ts4) => Some (Some e, ts4)
                      | None => None
                      end
                    else Some (None, ts3) in
                  match ovalue with
                  | Some (ov, ts4) =>
                      match expect isSemicolon ts4 with
                      | Some ts5 => Some (StVar n ot ov, ts5)
                      | None => None
                      end
                  | None => None
                  end
              | None => None
              end
          | None => None
          end
      | KIdentifier =>
          if isColon (hdk ts1) then Some (StLabel (tok_name t), tl ts1)
          else if isParenLeft (hdk ts1) then
            match parse_arguments f ts1 with
            | Some (args, ts2) =>
                match expect isSemicolon ts2 with
                | Some ts3 => Some (StCall false (tok_name t) args, ts3)
                | None => None
                end
            | None => None
            end
          else
            match steps_loop f false O ts1 with
            | Some (steps, ts2) =>
                match parse_assign_tail f ts2 with
                | Some (e, ts3) => Some (StAssign (Ref 0%N (tok_name t) steps) e, ts3)
                | None => None
                end
            | None => None
            end
      | KBuiltin =>
          match parse_arguments f ts1 with
          | Some (args, ts2) =>
              match expect isSemicolon ts2 with
              | Some ts3 => Some (StCall true (tok_name t) args, ts3)
              | None => None
              end
          | None => None
          end
      | KAmpersand =>
          match parse_addressed_reference f false ts1 with
          | Some (r, ts2) =>
              match parse_assign_tail f ts2 with
              | Some (e, ts3) => Some (StAssign r e, ts3)
              | None => None
              end
          | None => None
          end
      | _ => None
      end
    end
  end

(* parse_rest_of_block: consumes the closing brace *)
with block_loop (f : nat) (ts : list tok) {struct f} : option (list stmt * list tok) :=
  match f with
  | O => None
  | S f =>
    if isBraceRight (hdk ts) then Some ([], tl ts)
    else
      match parse_statement f ts with
      | Some (s, ts1) =>
          match block_loop f ts1 with
          | Some (ss, ts2) => Some (s :: ss, ts2)
          | None => None
          end
      | None => None
      end
  end.

Definition is_return_label (s : stmt) : bool :=
  match s with StLabel l => N.eqb l name_return | _ => false end.

(* parse_function_body after `{`; consumes the closing brace *)
Fixpoint body_loop (f : nat) (ts : list tok) {struct f} : option (fbody * list tok) :=
  match f with
  | O => None
  | S f =>
    if isBraceRight (hdk ts) then Some (([], None), tl ts)
    else
      match parse_statement f ts with
      | Some (s, ts1) =>
          if is_return_label s then
            if isBraceRight (hdk ts1) then None   (* MissingReturnValueAfterStatement *)
            else
              match parse_addition f false ts1 with
              | Some (e, ts2) =>
                  match expect isBraceRight ts2 with   (* `;` here is an error as well *)
                  | Some ts3 => Some (([s], Some e), ts3)
                  | None => None
                  end
              | None => None
              end
          else
            match body_loop f ts1 with
            | Some ((ss, rv), ts2) => Some ((s :: ss, rv), ts2)
            | None => None
            end
      | None => None
      end
  end.

(* ------------------------------------------------------------------------- *)
(* Declarations                                                               *)
(* ------------------------------------------------------------------------- *)

(* parse_member / parse_parameter: `name : type` (a missing type is an error) *)
Definition parse_typed_name (f : nat) (ts : list tok) : option ((name * ty) * list tok) :=
  match expect_id ts with
  | Some (n, ts1) =>
      match expect isColon ts1 with
      | Some ts2 =>
          match parse_wellformed_type f ts2 with
          | Some (t, ts3) => Some ((n, t), ts3)
          | None => None
          end
      | None => None
      end
  | None => None
  end.

(* The loops of parse_struct_members (br = true, closing `}`) and
   parse_rest_of_function_signature (br = false, closing `)`); the closing token
   is left to the caller. *)
Definition is_close_tn (br : bool) (k : tkind) : bool :=
  if br then isBraceRight k else isParenRight k.

Fixpoint typed_names (f : nat) (br : bool) (ts : list tok) {struct f}
  : option (list (name * ty) * list tok) :=
  match f with
  | O => None
  | S f =>
    if is_close_tn br (hdk ts) then Some ([], ts)
    else
      match parse_typed_name f ts with
      | Some (m, ts1) =>
          if isComma (hdk ts1) then
            match typed_names f br (tl ts1) with
            | Some (ms, ts2) => Some (m :: ms, ts2)
            | None => None
            end
          else Some ([m], ts1)
      | None => None
      end
  end.

(* parse_struct_members *)
Definition parse_struct_members (f : nat) (ts : list tok) : option (list (name * ty) * list tok) :=
  match expect isBraceLeft ts with
  | Some ts1 =>
      match typed_names f true ts1 with
      | Some (ms, ts2) =>
          match expect isBraceRight ts2 with
          | Some ts3 => Some (ms, ts3)
          | None => None
          end
      | None => None
      end
  | None => None
  end.

Definition word_kind (k : tkind) : option skind :=
  match k with
  | KWord8 => Some SkWord8 | KWord16 => Some SkWord16 | KWord32 => Some SkWord32
  | KWord64 => Some SkWord64 | KWord128 => Some SkWord128
  | _ => None
  end.


(* String::from_utf8 succeeds (parse_quoted_path). *)
Definition is_cont (b : N) : bool := ((128 <=? b) && (b <=? 191))%N.
Definition in_rng (lo hi b : N) : bool := ((lo <=? b) && (b <=? hi))%N.

Fixpoint utf8_valid (bs : list N) : bool :=
  match bs with
  | [] => true
  | b :: r =>
    if (b <? 128)%N then utf8_valid r
    else if in_rng 194 223 b then
      match r with
      | c1 :: r1 => is_cont c1 && utf8_valid r1
      | _ => false
      end
    else if in_rng 224 239 b then
      match r with
      | c1 :: c2 :: r2 =>
          (if (b =? 224)%N then in_rng 160 191 c1
           else if (b =? 237)%N then in_rng 128 159 c1
           else is_cont c1) && is_cont c2 && utf8_valid r2
      | _ => false
      end
    else if in_rng 240 244 b then
      match r with
      | c1 :: c2 :: c3 :: r3 =>
          (if (b =? 240)%N then in_rng 144 191 c1
           else if (b =? 244)%N then in_rng 128 143 c1
           else is_cont c1) && is_cont c2 && is_cont c3 && utf8_valid r3
      | _ => false
      end
    else false
  end.

(* [f] bounds the statement/expression/type nesting below this declaration. *)
Definition parse_declaration_rest (f : nat) (pub ext : bool) (ts1 : list tok)
  : option (decl * list tok) :=
  match ts1 with
  | [] => None
  | t :: ts2 =>
    match kind t with
    | KImport =>
        (* parse_import: the flags are accepted and silently dropped *)
        match ts2 with
        | s :: ts3 =>
            if isString (kind s) && utf8_valid (bytes s) then
              match expect isSemicolon ts3 with
              | Some ts4 => Some (DImport (bytes s), ts4)
              | None => None
              end
            else None
        | [] => None
        end
    | KConst =>
        match parse_typed_name f ts2 with
        | Some ((n, t), ts3) =>
            match parse_assign_tail f ts3 with
            | Some (e, ts4) => Some (DConst pub ext n t e, ts4)
            | None => None
            end
        | None => None
        end
    | KFn =>
        match expect_id ts2 with
        | Some (n, ts3) =>
          match expect isParenLeft ts3 with
          | Some ts4 =>
            match typed_names f false ts4 with
            | Some (ps, ts5) =>
              match expect isParenRight ts5 with
              | Some ts6 =>
                let oret :=
                  if isArrow (hdk ts6) then parse_wellformed_type f (tl ts6)
                  else Some (TVoid, ts6) in
                match oret with
                | Some (ret, ts7) =>
                    if isSemicolon (hdk ts7) then Some (DFn pub ext n ps ret None, tl ts7)
                    else
                      match expect isBraceLeft ts7 with
                      | Some ts8 =>
                          match body_loop f ts8 with
                          | Some (b, ts9) => Some (DFn pub ext n ps ret (Some b), ts9)
                          | None => None
                          end
                      | None => None
                      end
                | None => None
                end
              | None => None
              end
            | None => None
            end
          | None => None
          end
        | None => None
        end
    | KStruct =>
        match expect_id ts2 with
        | Some (n, ts3) =>
            if isSemicolon (hdk ts3) then Some (DStruct pub ext SkOpaque n [], tl ts3)
            else
              match parse_struct_members f ts3 with
              | Some (ms, ts4) => Some (DStruct pub ext SkStruct n ms, ts4)
              | None => None
              end
        | None => None
        end
    | KWord8 | KWord16 | KWord32 | KWord64 | KWord128 =>
        match word_kind (kind t), expect_id ts2 with
        | Some k, Some (n, ts3) =>
            match parse_struct_members f ts3 with
            | Some (ms, ts4) => Some (DStruct pub ext k n ms, ts4)
            | None => None
            end
        | _, _ => None
        end
    | _ => None
    end
  end.

(* parse_declaration: optional `pub`, then optional `extern`, then the declaration *)
Definition parse_declaration (f : nat) (ts : list tok) : option (decl * list tok) :=
  let pub := isPub (hdk ts) in
  let ts0 := if pub then tl ts else ts in
  let ext := isExtern (hdk ts0) in
  let ts1 := if ext then tl ts0 else ts0 in
  parse_declaration_rest f pub ext ts1.

Fixpoint decls_loop (f : nat) (inner : nat) (ts : list tok) {struct f} : option (list decl) :=
  match f with
  | O => None
  | S f =>
    match ts with
    | [] => Some []
    | _ :: _ =>
        match parse_declaration inner ts with
        | Some (d, ts1) =>
            match decls_loop f inner ts1 with
            | Some ds => Some (d :: ds)
            | None => None
            end
        | None => None
        end
    end
  end.

(* parser.rs parse.  One fuel bounds both the number of declarations (+1) and the
   depth of the call chain inside a declaration.  Every call consumes one unit and
   every loop iteration is a call, so the depth is at most a small multiple of the
   number of tokens: [20 + 10 * length ts] is a safe choice in practice (not proved;
   the theorems only say "for all sufficiently large fuel").  More fuel never
   changes a [Some] answer (each function is monotone in the fuel; not proved
   either, the theorems do not need it). *)
Definition parse_module (fuel : nat) (ts : list tok) : option (list decl) :=
  decls_loop fuel fuel ts.

(* ------------------------------------------------------------------------- *)
(* Printer                                                                    *)
(* ------------------------------------------------------------------------- *)

Definition tk_type (k : tykw) : tok := mk KType 0%Z (Some k) [].

Fixpoint print_type (t : ty) : list tok :=
  match t with
  | TVoid => [tk_type TyVoid]
  | TPrim p => [tk_type (TyPrim p)]
  | TNamed n => [tk_id n]
  | TArray len e =>
      tk KBracketLeft :: mk KNakedDecimal len None [] :: tk KBracketRight :: print_type e
  | TArrayNamed n e => tk KBracketLeft :: tk_id n :: tk KBracketRight :: print_type e
  | TSlice e => tk KBracketLeft :: tk KColon :: tk KBracketRight :: print_type e
  | TEndless e => tk KBracketLeft :: tk KDots :: tk KBracketRight :: print_type e
  | TArraylike e => tk KBracketLeft :: tk KBracketRight :: print_type e
  | TPointer d => tk KAmpersand :: print_type d
  | TView d => tk KParenLeft :: print_type d ++ [tk KParenRight]
  end.

Definition kind_of_binop (op : binop) : tkind :=
  match op with
  | Add => KPlus | Subtract => KMinus | Multiply => KTimes | Divide => KDivide | Modulo => KModulo
  | BitwiseAnd => KAmpersand | BitwiseOr => KPipe | BitwiseXor => KCaret
  | ShiftLeft => KShiftLeft | ShiftRight => KShiftRight | AdvancePointer => KDots
  end.

Definition kind_of_unop (op : unop) : tkind :=
  match op with Negative => KMinus | BitwiseComplement => KExclamation end.

Definition kind_of_cmpop (op : cmpop) : tkind :=
  match op with
  | Equals => KEquals | DoesNotEqual => KDoesNotEqual | IsGreater => KAngleRight
  | IsGE => KIsGE | IsLess => KAngleLeft | IsLE => KIsLE
  end.

(* Non-negative integer literal token: decimal when unsuffixed and signed (as the
   rebuilder prints SignedIntegerLiteral), with the suffix when there is one. *)
Definition tk_sint (v : Z) (t : option prim) : tok :=
  match t with
  | None => mk KNakedDecimal v None []
  | Some p => mk KSuffixedInteger v (Some (TyPrim p)) []
  end.

(* BitIntegerLiteral: 0x.. when unsuffixed (as the rebuilder), a char literal for
   char8, the suffixed form otherwise. *)
Definition tk_bits (v : Z) (t : option prim) : tok :=
  match t with
  | None => mk KBitInteger v None []
  | Some Char8 => mk KCharLiteral v None []
  | Some p => mk KSuffixedInteger v (Some (TyPrim p)) []
  end.

(* x, y, z  (no trailing comma: arguments, parameters) *)
Definition print_sep {A : Type} (f : A -> list tok) (l : list A) : list tok :=
  match l with
  | [] => []
  | x :: xs => f x ++ flat_map (fun y => tk KComma :: f y) xs
  end.

Fixpoint print_expr (e : expr) : list tok :=
  match e with
  | EBinary op l r => print_expr l ++ tk (kind_of_binop op) :: print_expr r
  | EUnary op e => tk (kind_of_unop op) :: print_expr e
  | EBool b => [mk KBool (if b then 1 else 0)%Z None []]
  | ESigned v t => if (v <? 0)%Z then [tk KMinus; tk_sint (- v) t] else [tk_sint v t]
  | EBits v t => [tk_bits v t]
  | EString bs => [mk KStringLiteral 0%Z None bs]
  | EArray es =>
      tk KBracketLeft :: flat_map (fun e => print_expr e ++ [tk KComma]) es ++ [tk KBracketRight]
  | EStructural n ms =>
      tk_id n :: tk KBraceLeft ::
      flat_map (fun me => let '(m, e) := me in
                          tk_id m :: tk KColon :: print_expr e ++ [tk KComma]) ms
      ++ [tk KBraceRight]
  | EParen e => tk KParenLeft :: print_expr e ++ [tk KParenRight]
  | EDeref r => print_ref r
  | EBitCast e => tk KCast :: print_expr e
  | ETypeCast e t => print_expr e ++ tk KAs :: print_type t
  | ELength r => tk KPipe :: print_ref r ++ [tk KPipe]
  | ESizeOf t => tk KPipeForType :: print_type t ++ [tk KPipe]
  | ECall b n args =>
      (if b then tk_builtin n else tk_id n) :: tk KParenLeft ::
      print_sep print_expr args ++ [tk KParenRight]
  end
with print_ref (r : reference) : list tok :=
  match r with
  | Ref d b steps => repeat (tk KAmpersand) (N.to_nat d) ++ tk_id b :: flat_map print_step steps
  end
with print_step (s : step) : list tok :=
  match s with
  | RsElement e => tk KBracketLeft :: print_expr e ++ [tk KBracketRight]
  | RsMember m => [tk KDot; tk_id m]
  end.

Definition print_args (b : bool) (n : name) (args : list expr) : list tok :=
  (if b then tk_builtin n else tk_id n) :: tk KParenLeft ::
  print_sep print_expr args ++ [tk KParenRight].

Fixpoint print_stmt (s : stmt) : list tok :=
  match s with
  | StVar n t v =>
      tk KVar :: tk_id n ::
      (match t with Some t => tk KColon :: print_type t | None => [] end) ++
      (match v with Some e => tk KAssignment :: print_expr e | None => [] end) ++
      [tk KSemicolon]
  | StAssign r v => print_ref r ++ tk KAssignment :: print_expr v ++ [tk KSemicolon]
  | StCall b n args => print_args b n args ++ [tk KSemicolon]
  | StLoop => [tk KLoop; tk KSemicolon]
  | StGoto l => [tk KGoto; tk_id l; tk KSemicolon]
  | StLabel l => [tk_id l; tk KColon]
  | StIf op l r th el =>
      tk KIf :: print_expr l ++ tk (kind_of_cmpop op) :: print_expr r ++ print_stmt th ++
      (match el with Some e => tk KElse :: print_stmt e | None => [] end)
  | StBlock ss => tk KBraceLeft :: flat_map print_stmt ss ++ [tk KBraceRight]
  end.

Definition print_body (b : fbody) : list tok :=
  let '(ss, rv) := b in
  tk KBraceLeft :: flat_map print_stmt ss ++
  (match rv with Some e => print_expr e | None => [] end) ++ [tk KBraceRight].

Definition print_typed_name (m : name * ty) : list tok :=
  let '(n, t) := m in tk_id n :: tk KColon :: print_type t.

Definition print_flags (pub ext : bool) : list tok :=
  (if pub then [tk KPub] else []) ++ (if ext then [tk KExtern] else []).

Definition kind_of_skind (k : skind) : tkind :=
  match k with
  | SkStruct | SkOpaque => KStruct
  | SkWord8 => KWord8 | SkWord16 => KWord16 | SkWord32 => KWord32
  | SkWord64 => KWord64 | SkWord128 => KWord128
  end.

Definition is_tvoid (t : ty) : bool := match t with TVoid => true | _ => false end.

Definition print_decl (d : decl) : list tok :=
  match d with
  | DImport bs => [tk KImport; mk KStringLiteral 0%Z None bs; tk KSemicolon]
  | DConst pub ext n t v =>
      print_flags pub ext ++ tk KConst :: tk_id n :: tk KColon :: print_type t ++
      tk KAssignment :: print_expr v ++ [tk KSemicolon]
  | DFn pub ext n ps ret body =>
      print_flags pub ext ++ tk KFn :: tk_id n :: tk KParenLeft ::
      print_sep print_typed_name ps ++ tk KParenRight ::
      (if is_tvoid ret then [] else tk KArrow :: print_type ret) ++
      (match body with Some b => print_body b | None => [tk KSemicolon] end)
  | DStruct pub ext k n ms =>
      print_flags pub ext ++ tk (kind_of_skind k) :: tk_id n ::
      (match k with
       | SkOpaque => [tk KSemicolon]
       | _ => tk KBraceLeft :: flat_map (fun m => print_typed_name m ++ [tk KComma]) ms
              ++ [tk KBraceRight]
       end)
  end.

Definition print_module (ds : list decl) : list tok := flat_map print_decl ds.

(* ------------------------------------------------------------------------- *)
(* The range of the parser: well-formedness of trees                          *)
(* ------------------------------------------------------------------------- *)

(* wf_module characterises the trees the parser can return:
   Proofs/RefParserRange.v    parse_wf : toks_ok ts -> parse_module f ts = Some m -> wf_module m
   Proofs/RefParserProofs.v   parse_print_module : wf_module m -> parse (print m) = Some m
   The conditions are: operands sit at the grammar level the layering of
   parse_addition / parse_multiplication / parse_singular_expression /
   parse_unary_expression allows (lvl), bitwise chains use one operator, the text of
   a left operand does not swallow the operator that follows it (redge; this only
   matters for `&x .. offset`), literals are in range and carry a possible suffix,
   address depth and reference steps respect the limits, no structural literal
   inside the condition of an `if`, no dangling else, `return:` only as the last
   top-level statement of a body with a return value, opaque structures have no
   members, import paths are UTF-8. *)

(* Payload ranges of the tokens the lexers produce (u128 integers, u8 chars and
   string bytes, integer suffixes are integer types). *)
Definition tok_ok (t : tok) : bool :=
  match kind t with
  | KNakedDecimal | KBitInteger => (0 <=? value t)%Z && (value t <? u128_lim)%Z
  | KSuffixedInteger =>
      (0 <=? value t)%Z && (value t <? u128_lim)%Z &&
      match vtype t with
      | Some (TyPrim Char8) | Some (TyPrim Bool) => false
      | Some (TyPrim _) => true
      | _ => false
      end
  | KCharLiteral => (0 <=? value t)%Z && (value t <? 256)%Z
  | KStringLiteral => forallb (fun b => (b <? 256)%N) (bytes t)
  | _ => true
  end.

Definition toks_ok (ts : list tok) : bool := forallb tok_ok ts.

(* [N]T lengths fit usize; every type read by parse_wellformed_type is wellformed. *)
Fixpoint ty_rng (t : ty) : bool :=
  match t with
  | TArray len e => (0 <=? len)%Z && (len <? usize_lim)%Z && ty_rng e
  | TArrayNamed _ e | TSlice e | TEndless e | TArraylike e | TPointer e | TView e => ty_rng e
  | TVoid | TPrim _ | TNamed _ => true
  end.

Definition ty_ok (t : ty) : bool := ty_rng t && ty_wellformed t.

(* Grammar level of an expression: 0 primary, 1 unary, 2 singular (casts),
   3 multiplication, 4 addition, 5 bitwise / shift. *)
Definition lvl (e : expr) : nat :=
  match e with
  | EBinary op _ _ =>
      match op with
      | Add | Subtract => 4
      | Multiply | Divide | Modulo => 3
      | AdvancePointer => 0
      | _ => 5
      end
  | EUnary _ _ | ELength _ | ESizeOf _ => 1
  | ESigned v _ => if (v <? 0)%Z then 1 else 0
  | EBitCast _ | ETypeCast _ _ => 2
  | _ => 0
  end%nat.

(* What may follow a printed expression without being absorbed by it. *)
Definition is_none {A : Type} (o : option A) : bool :=
  match o with None => true | Some _ => false end.

(* The token cannot extend a primary expression. *)
Definition pstop (nb : bool) (k : tkind) : bool :=
  negb (isBracketLeft k || isDot k || isParenLeft k || (isBraceLeft k && negb nb)
        || isString k || isDots k).

(* The token cannot extend an expression of grammar level [lv]; level 5: the token
   cannot continue any expression, i.e. it is none of
     [ . ( { "string" ..  as  * / %  + -  & | ^  << >>        ({ only when nb = false) *)
Definition stopl (lv : nat) (nb : bool) (k : tkind) : bool :=
  pstop nb k
  && ((lv <? 3)%nat || negb (isAs k))
  && ((lv <? 4)%nat || is_none (mulop_of k))
  && ((lv <? 5)%nat || (is_none (addop_of k) && is_none (bitop_of k) && is_none (shiftop_of k))).

(* parse_expression on the text of [r] followed by token [k] stops before [k],
   as far as the top-level operator of [r] is concerned: a bitwise chain stops at
   anything but its own operator, a shift stops at anything, everything else stops
   at a token that cannot continue an expression. *)
Definition top_stop (nb : bool) (r : expr) (k : tkind) : bool :=
  match r with
  | EBinary op _ _ =>
      match op with
      | BitwiseAnd | BitwiseOr | BitwiseXor => pstop nb k && negb (same_bitop op k)
      | ShiftLeft | ShiftRight => pstop nb k
      | _ => stopl 5 nb k
      end
  | _ => stopl 5 nb k
  end.

(* The right edge of the printed expression may be the offset of a `&x .. offset`,
   which is read by parse_expression: [redge nb e k] says that every such offset at
   the right edge of [e] stops before the token [k]. *)
Fixpoint redge (nb : bool) (e : expr) (k : tkind) : bool :=
  match e with
  | EBinary AdvancePointer _ r => redge nb r k && top_stop nb r k
  | EBinary _ _ r => redge nb r k
  | EUnary _ e => redge nb e k
  | EBitCast e => redge nb e k
  | _ => true
  end.

(* parse_expression on the text of [e] followed by [k] returns [e] and stops before [k]. *)
Definition estop (nb : bool) (e : expr) (k : tkind) : bool :=
  redge nb e k && top_stop nb e k.

(* A literal that parse_unary_expression folds into a negative literal. *)
Definition is_pos_signed (e : expr) : bool :=
  match e with
  | ESigned v _ => (0 <? v)%Z
  | EBits v _ => (v =? i128_min_abs)%Z
  | _ => false
  end.

Definition lit_type_ok_signed (t : option prim) : bool :=
  match t with None => true | Some p => prim_signed p end.

(* The suffix of `-2^127` written with a suffix is kept whatever it is
   (`-170141183460469231731687303715884105728u8` is a signed literal of type u8). *)
Definition lit_type_ok_min (t : option prim) : bool :=
  match t with Some Char8 | Some Bool => false | _ => true end.

Definition lit_type_ok_bits (v : Z) (t : option prim) : bool :=
  match t with
  | None => true
  | Some Char8 => (v <? 256)%Z
  | Some Bool => false
  | Some p => if prim_signed p then (i128_max <? v)%Z else true
  end.

(* [nb]: inside the condition of an `if` (no structural literal anywhere). *)
Fixpoint wf_expr (nb : bool) (e : expr) : bool :=
  match e with
  | EBinary op l r =>
      wf_expr nb l && wf_expr nb r &&
      match op with
      | Add | Subtract =>
          (lvl l <=? 4)%nat && (lvl r <=? 3)%nat && redge nb l (kind_of_binop op)
      | Multiply | Divide | Modulo =>
          (lvl l <=? 3)%nat && (lvl r <=? 2)%nat && redge nb l (kind_of_binop op)
      | BitwiseAnd | BitwiseOr | BitwiseXor =>
          (match l with
           | EBinary op' _ _ => binop_eqb op op'
           | _ => (lvl l <=? 2)%nat
           end) && (lvl r <=? 1)%nat && redge nb l (kind_of_binop op)
      | ShiftLeft | ShiftRight =>
          negb (is_binary l) && (lvl l <=? 2)%nat && (lvl r <=? 1)%nat &&
          redge nb l (kind_of_binop op)
      | AdvancePointer =>
          match l with EDeref (Ref d _ _) => (1 <=? d)%N | _ => false end
      end
  | EUnary op e =>
      wf_expr nb e && (lvl e =? 0)%nat &&
      match op with Negative => negb (is_pos_signed e) | BitwiseComplement => true end
  | EBool _ => true
  | ESigned v t =>
      ((- i128_max <=? v)%Z && (v <=? i128_max)%Z && lit_type_ok_signed t)
      || ((v =? - i128_min_abs)%Z && lit_type_ok_min t)
  | EBits v t => (0 <=? v)%Z && (v <? u128_lim)%Z && lit_type_ok_bits v t
  | EString bs => forallb (fun b => (b <? 256)%N) bs
  | EArray es => forallb (wf_expr nb) es
  | EStructural _ ms => negb nb && forallb (fun me => let '(_, e) := me in wf_expr nb e) ms
  | EParen e => wf_expr nb e
  | EDeref r => wf_ref nb r
  | EBitCast e => wf_expr nb e && (lvl e <=? 1)%nat
  | ETypeCast e t => wf_expr nb e && (lvl e <=? 2)%nat && redge nb e KAs && ty_ok t
  | ELength r => wf_ref nb r
  | ESizeOf t => ty_ok t
  | ECall _ _ args => forallb (wf_expr nb) args
  end
with wf_ref (nb : bool) (r : reference) : bool :=
  match r with
  | Ref d _ steps =>
      (d <=? MAX_ADDRESS_DEPTH)%N && (length steps <=? MAX_REFERENCE_DEPTH)%nat &&
      forallb (wf_step nb) steps
  end
with wf_step (nb : bool) (s : step) : bool :=
  match s with
  | RsElement e => wf_expr nb e
  | RsMember _ => true
  end.

(* Dangling else: an `if` without else at the right edge of a statement. *)
Fixpoint open_if (s : stmt) : bool :=
  match s with
  | StIf _ _ _ _ None => true
  | StIf _ _ _ _ (Some el) => open_if el
  | _ => false
  end.

(* Kind of the first token of a printed statement. *)
Definition first_kind_stmt (s : stmt) : tkind :=
  match s with
  | StVar _ _ _ => KVar
  | StAssign (Ref d _ _) _ => if (d =? 0)%N then KIdentifier else KAmpersand
  | StCall b _ _ => if b then KBuiltin else KIdentifier
  | StLoop => KLoop
  | StGoto _ => KGoto
  | StLabel _ => KIdentifier
  | StIf _ _ _ _ _ => KIf
  | StBlock _ => KBraceLeft
  end.

Definition opt_ok {A : Type} (p : A -> bool) (o : option A) : bool :=
  match o with Some x => p x | None => true end.

Fixpoint wf_stmt (s : stmt) : bool :=
  match s with
  | StVar _ t v => opt_ok ty_ok t && opt_ok (wf_expr false) v
  | StAssign r v => wf_ref false r && wf_expr false v
  | StCall _ _ args => forallb (wf_expr false) args
  | StLoop | StGoto _ | StLabel _ => true
  | StIf _ l r th el =>
      wf_expr true l && wf_expr true r && wf_stmt th &&
      (* a then-branch starting with `&` must not continue the comparison *)
      estop true r (first_kind_stmt th) &&
      match el with
      | Some e => wf_stmt e && negb (open_if th)
      | None => true
      end
  | StBlock ss => forallb wf_stmt ss
  end.

(* `return:` occurs at the top level of a body exactly as the last statement of a
   body with a return value. *)
Fixpoint body_shape (ss : list stmt) (has_value : bool) : bool :=
  match ss with
  | [] => negb has_value
  | s :: rest =>
      if is_return_label s then has_value && match rest with [] => true | _ => false end
      else body_shape rest has_value
  end.

Definition wf_body (b : fbody) : bool :=
  let '(ss, rv) := b in
  forallb wf_stmt ss && opt_ok (wf_expr false) rv &&
  body_shape ss (match rv with Some _ => true | None => false end).

Definition wf_typed_name (m : name * ty) : bool := ty_ok (snd m).

Definition wf_decl (d : decl) : bool :=
  match d with
  | DImport bs => utf8_valid bs
  | DConst _ _ _ t v => ty_ok t && wf_expr false v
  | DFn _ _ _ ps ret body => forallb wf_typed_name ps && ty_ok ret && opt_ok wf_body body
  | DStruct _ _ k _ ms =>
      forallb wf_typed_name ms &&
      match k, ms with SkOpaque, _ :: _ => false | _, _ => true end
  end.

Definition wf_module (ds : list decl) : bool := forallb wf_decl ds.

(* ------------------------------------------------------------------------- *)
(* Canonical text of a tree                                                   *)
(* ------------------------------------------------------------------------- *)

(* FORMAT.  The text is ASCII.  Every node is either an atom or a list
   "(" head { " " item } ")" : the head immediately follows the opening
   parenthesis, every item is preceded by exactly one space, nothing else is
   emitted.  <n> is an unsigned decimal number without leading zeros ("0" for
   zero), <z> the same with a leading "-" when negative.  A name (identifier,
   member, label, builtin) with interned id i is the atom  n<i>  e.g. n17.
   An absent optional item is the atom  _ .

   type T:
     TVoid ............ void
     TPrim p .......... i8 i16 i32 i64 i128 u8 u16 u32 u64 u128 usize char8 bool
     TNamed n ......... (named n<i>)
     TArray len T ..... (array <n> T)
     TArrayNamed n T .. (arrayn n<i> T)
     TSlice T ......... (slice T)
     TEndless T ....... (endless T)
     TArraylike T ..... (arraylike T)
     TPointer T ....... (ptr T)
     TView T .......... (view T)
   expression E:
     EBinary op L R ... (bin Op L R)      Op = Add Subtract Multiply Divide Modulo BitwiseAnd
                                           BitwiseOr BitwiseXor ShiftLeft ShiftRight AdvancePointer
     EUnary op E ...... (un Op E)         Op = Negative BitwiseComplement
     EBool b .......... (bool true) (bool false)
     ESigned v t ...... (sint <z> P)      P = the suffix type (i8 ... i128) or _
     EBits v t ........ (bits <n> P)      P = suffix type, char8 for a char literal, or _
     EString bytes .... (str <n> <n> ...) one number per byte; (str) when empty
     EArray es ........ (arr E ...)
     EStructural n ms . (structlit n<i> (n<i> E) ...)   one (member value) pair per member
     EParen E ......... (paren E)
     EDeref R ......... (deref R)
     EBitCast E ....... (bitcast E)
     ETypeCast E T .... (cast E T)
     ELength R ........ (len R)
     ESizeOf T ........ (sizeof T)
     ECall false n a .. (call n<i> E ...)
     ECall true n a ... (bcall n<i> E ...)   builtin `name!(...)`; the name is interned
                                             WITHOUT the exclamation mark, whether or not
                                             find_builtin knows it
   reference R:
     Ref d base steps . (ref <n> n<i> S ...)    <n> = address depth (number of `&`)
   step S:
     RsElement E ...... (elem E)
     RsMember m ....... (mem n<i>)
   statement ST:
     StVar n t v ...... (var n<i> T|_ E|_)
     StAssign R E ..... (assign R E)
     StCall false n a . (scall n<i> E ...)
     StCall true n a .. (sbcall n<i> E ...)
     StLoop ........... (loop)
     StGoto l ......... (goto n<i>)
     StLabel l ........ (label n<i>)
     StIf op L R th el  (if Op L R ST ST|_)   Op = Equals DoesNotEqual IsGreater IsGE IsLess IsLE
     StBlock ss ....... (block ST ...)
   flags F:            (flags) (flags pub) (flags extern) (flags pub extern)
   typed name TN:      (n<i> T)
   declaration D:
     DImport bytes .... (import <n> <n> ...)  the bytes of the file name
     DConst ........... (const F n<i> T E)
     DFn, Some body ... (fn F n<i> (params TN ...) T (body ST ...) (ret E|_))
                        T = return type (void when there is no `->`); the `return:` label is
                        one of the body statements; (ret _) when there is no return value
     DFn, None ........ (fnhead F n<i> (params TN ...) T)
     DStruct k ........ (K F n<i> (members TN ...))   K = struct opaque word8 word16 word32
                                                       word64 word128
   module:             every declaration followed by one newline (byte 10). *)

Definition s2l (s : String.string) : list N :=
  map N_of_ascii (String.list_ascii_of_string s).
Arguments s2l s%string.

Fixpoint dec_digits (fuel : nat) (n : N) (acc : list N) : list N :=
  match fuel with
  | O => acc
  | S f =>
      let d := (48 + n mod 10)%N in
      if (n <? 10)%N then d :: acc else dec_digits f (n / 10)%N (d :: acc)
  end.

Definition show_N (n : N) : list N := dec_digits (S (N.to_nat (N.size n))) n [].

Definition show_Z (z : Z) : list N :=
  if (z <? 0)%Z then 45%N :: show_N (Z.abs_N z) else show_N (Z.abs_N z).

Definition show_name (n : name) : list N := 110%N :: show_N n.

Definition sx (head : String.string) (items : list (list N)) : list N :=
  40%N :: s2l head ++ flat_map (fun i => 32%N :: i) items ++ [41%N].
Arguments sx head%string items.

Definition none_atom : list N := [95%N].

Definition show_opt {A : Type} (f : A -> list N) (o : option A) : list N :=
  match o with Some x => f x | None => none_atom end.

Definition show_prim (p : prim) : list N :=
  s2l (match p with
       | Int8 => "i8" | Int16 => "i16" | Int32 => "i32" | Int64 => "i64" | Int128 => "i128"
       | Uint8 => "u8" | Uint16 => "u16" | Uint32 => "u32" | Uint64 => "u64" | Uint128 => "u128"
       | Usize => "usize" | Char8 => "char8" | Bool => "bool"
       end)%string.

Fixpoint show_type (t : ty) : list N :=
  match t with
  | TVoid => s2l "void"
  | TPrim p => show_prim p
  | TNamed n => sx "named" [show_name n]
  | TArray len e => sx "array" [show_Z len; show_type e]
  | TArrayNamed n e => sx "arrayn" [show_name n; show_type e]
  | TSlice e => sx "slice" [show_type e]
  | TEndless e => sx "endless" [show_type e]
  | TArraylike e => sx "arraylike" [show_type e]
  | TPointer d => sx "ptr" [show_type d]
  | TView d => sx "view" [show_type d]
  end.

Definition show_binop (op : binop) : list N :=
  s2l (match op with
       | Add => "Add" | Subtract => "Subtract" | Multiply => "Multiply" | Divide => "Divide"
       | Modulo => "Modulo" | BitwiseAnd => "BitwiseAnd" | BitwiseOr => "BitwiseOr"
       | BitwiseXor => "BitwiseXor" | ShiftLeft => "ShiftLeft" | ShiftRight => "ShiftRight"
       | AdvancePointer => "AdvancePointer"
       end)%string.

Definition show_unop (op : unop) : list N :=
  s2l (match op with Negative => "Negative" | BitwiseComplement => "BitwiseComplement" end)%string.

Definition show_cmpop (op : cmpop) : list N :=
  s2l (match op with
       | Equals => "Equals" | DoesNotEqual => "DoesNotEqual" | IsGreater => "IsGreater"
       | IsGE => "IsGE" | IsLess => "IsLess" | IsLE => "IsLE"
       end)%string.

Fixpoint show_expr (e : expr) : list N :=
  match e with
  | EBinary op l r => sx "bin" [show_binop op; show_expr l; show_expr r]
  | EUnary op e => sx "un" [show_unop op; show_expr e]
  | EBool b => sx "bool" [s2l (if b then "true" else "false")%string]
  | ESigned v t => sx "sint" [show_Z v; show_opt show_prim t]
  | EBits v t => sx "bits" [show_Z v; show_opt show_prim t]
  | EString bs => sx "str" (map show_N bs)
  | EArray es => sx "arr" (map show_expr es)
  | EStructural n ms =>
      sx "structlit"
         (show_name n :: map (fun me => let '(m, e) := me in
                                        40%N :: show_name m ++ 32%N :: show_expr e ++ [41%N]) ms)
  | EParen e => sx "paren" [show_expr e]
  | EDeref r => sx "deref" [show_ref r]
  | EBitCast e => sx "bitcast" [show_expr e]
  | ETypeCast e t => sx "cast" [show_expr e; show_type t]
  | ELength r => sx "len" [show_ref r]
  | ESizeOf t => sx "sizeof" [show_type t]
  | ECall b n args => sx (if b then "bcall" else "call")%string (show_name n :: map show_expr args)
  end
with show_ref (r : reference) : list N :=
  match r with
  | Ref d b steps => sx "ref" (show_N d :: show_name b :: map show_step steps)
  end
with show_step (s : step) : list N :=
  match s with
  | RsElement e => sx "elem" [show_expr e]
  | RsMember m => sx "mem" [show_name m]
  end.

Fixpoint show_stmt (s : stmt) : list N :=
  match s with
  | StVar n t v => sx "var" [show_name n; show_opt show_type t; show_opt show_expr v]
  | StAssign r v => sx "assign" [show_ref r; show_expr v]
  | StCall b n args => sx (if b then "sbcall" else "scall")%string (show_name n :: map show_expr args)
  | StLoop => sx "loop" []
  | StGoto l => sx "goto" [show_name l]
  | StLabel l => sx "label" [show_name l]
  | StIf op l r th el =>
      sx "if" [show_cmpop op; show_expr l; show_expr r; show_stmt th;
               match el with Some e => show_stmt e | None => none_atom end]
  | StBlock ss => sx "block" (map show_stmt ss)
  end.

Definition show_flags (pub ext : bool) : list N :=
  sx "flags" ((if pub then [s2l "pub"] else []) ++ (if ext then [s2l "extern"] else [])).

Definition show_typed_name (m : name * ty) : list N :=
  let '(n, t) := m in 40%N :: show_name n ++ 32%N :: show_type t ++ [41%N].

Definition show_skind (k : skind) : String.string :=
  match k with
  | SkStruct => "struct" | SkOpaque => "opaque" | SkWord8 => "word8" | SkWord16 => "word16"
  | SkWord32 => "word32" | SkWord64 => "word64" | SkWord128 => "word128"
  end%string.

Definition show_decl (d : decl) : list N :=
  match d with
  | DImport bs => sx "import" (map show_N bs)
  | DConst pub ext n t v => sx "const" [show_flags pub ext; show_name n; show_type t; show_expr v]
  | DFn pub ext n ps ret (Some (ss, rv)) =>
      sx "fn" [show_flags pub ext; show_name n; sx "params" (map show_typed_name ps);
               show_type ret; sx "body" (map show_stmt ss); sx "ret" [show_opt show_expr rv]]
  | DFn pub ext n ps ret None =>
      sx "fnhead" [show_flags pub ext; show_name n; sx "params" (map show_typed_name ps);
                   show_type ret]
  | DStruct pub ext k n ms =>
      sx (show_skind k) [show_flags pub ext; show_name n; sx "members" (map show_typed_name ms)]
  end.

Definition show_module (ds : list decl) : list N :=
  flat_map (fun d => show_decl d ++ [10%N]) ds.
