(* Model of the node accounting of the second-generation parser (property C15:
   "the second-generation front end never panics or writes out of bounds").

   Rust sources mirrored (commit 35c691e = pinned 192b0da + the repairs 33bdf29,
   61f83e9, 35c691e; what the pinned commit did differently is noted in place):
     src/delta/parser.rs               parse, starts_declaration, every parse_* function
     src/delta/parser/tokens.rs        Tokens: peek, take, consume, consume_optional,
                                       with_reservation + Drop, find_next, starting_from
     src/delta/parser/parse_tree.rs    ParseTree::empty (capacity), ParseBuffer::push and the
                                       push_* helpers, set_private / set_public, store_error,
                                       finish_declaration
     src/delta/lexer/tokens.rs         skip_until, advance, base_tokens_from/_of_span,
                                       spans_multiple_tokens, push_end_of_source

   Executable definitions only.  The CONTENTS of parse nodes are abstracted away:
   every production returns the new cursor, the NUMBER of nodes it pushed
   (including the nodes pushed before an error was returned: they stay in the
   buffer) and a status.  Every `ParseBuffer::push` (directly or through
   push_undeclared, push_older_node, push_optional_node, push_list,
   push_list_item, push_end_of_list, push_unfinished_impl, set_private when no
   zone is active, set_public when a zone is active) counts 1;  start_list,
   expect_most_recent_node, patch_list_item, finish_impl,
   patch_start_of_private_zone, finish_declaration and store_error push nothing.

   The buffer-full panic of `push` itself (parse_tree.rs:143) is NOT modelled
   (node counts are unbounded here); it fires in the real parser iff the final
   count exceeds [capacity] ([capacity_pinned] for the pinned commit).  Node
   identities are not modelled either, so the debug_assert of
   expect_most_recent_node and the U24 range of NodeId (2^24 nodes) are out of
   scope.

   Recursion: every Rust `loop`/`while` over tokens and every recursive descent
   is fuel-indexed.  Productions are written in open-recursion style: a
   production takes the sub-parsers it calls as arguments ([parser] values);
   [parse_expression] / [parse_stmt] tie the knots.  Loops bounded by a constant
   in the code (127 dereference steps, 127 address-of markers) and the
   declaration loop (num_possible_declarations + 2) use that bound as their
   structural argument, not fuel. *)
From PV Require Import Base.Common Base.IR Base.Tok.

(* BaseToken: [T k] for every kind of Base/Tok.v, [EOS] = BaseToken::EndOfSource. *)
Inductive btok := T (k : tkind) | EOS.

(* BaseToken `as u8` (EndOfSource = 0, ParenLeft = 1, ... Error = 61). *)
Definition kcode (k : tkind) : N :=
  match k with
  | KParenLeft => 1 | KParenRight => 2 | KBraceLeft => 3 | KBraceRight => 4
  | KBracketLeft => 5 | KBracketRight => 6 | KAngleLeft => 7 | KAngleRight => 8
  | KPipe => 9 | KAmpersand => 10 | KCaret => 11 | KExclamation => 12
  | KPlaceholder => 13 | KPlus => 14 | KMinus => 15 | KTimes => 16 | KDivide => 17
  | KModulo => 18 | KColon => 19 | KSemicolon => 20 | KDot => 21 | KComma => 22
  | KAssignment => 23 | KEquals => 24 | KDoesNotEqual => 25 | KIsGE => 26
  | KIsLE => 27 | KShiftLeft => 28 | KShiftRight => 29 | KArrow => 30
  | KPipeForType => 31 | KDots => 32 | KFn => 33 | KVar => 34 | KConst => 35
  | KIf => 36 | KGoto => 37 | KLoop => 38 | KReturn => 39 | KElse => 40
  | KCast => 41 | KAs => 42 | KImport => 43 | KPub => 44 | KExtern => 45
  | KStruct => 46 | KWord8 => 47 | KWord16 => 48 | KWord32 => 49 | KWord64 => 50
  | KWord128 => 51 | KType => 52 | KIdentifier => 53 | KBuiltin => 54
  | KNakedDecimal => 55 | KBitInteger => 56 | KSuffixedInteger => 57
  | KCharLiteral => 58 | KBool => 59 | KStringLiteral => 60 | KError => 61
  end%N.

Definition all_kinds : list tkind :=
  [KParenLeft; KParenRight; KBraceLeft; KBraceRight; KBracketLeft; KBracketRight;
   KAngleLeft; KAngleRight; KPipe; KAmpersand; KCaret; KExclamation; KPlaceholder;
   KPlus; KMinus; KTimes; KDivide; KModulo; KColon; KSemicolon; KDot; KComma;
   KAssignment; KEquals; KDoesNotEqual; KIsGE; KIsLE; KShiftLeft; KShiftRight;
   KArrow; KPipeForType; KDots; KFn; KVar; KConst; KIf; KGoto; KLoop; KReturn;
   KElse; KCast; KAs; KImport; KPub; KExtern; KStruct; KWord8; KWord16; KWord32;
   KWord64; KWord128; KType; KIdentifier; KBuiltin; KNakedDecimal; KBitInteger;
   KSuffixedInteger; KCharLiteral; KBool; KStringLiteral; KError].

(* For test harnesses: decode `BaseToken as u8`. Unknown codes map to KError. *)
Definition btok_of_code (n : N) : btok :=
  if N.eqb n 0 then EOS
  else match find (fun k => N.eqb (kcode k) n) all_kinds with
       | Some k => T k
       | None => T KError
       end.

Definition btok_eqb (a b : btok) : bool :=
  match a, b with
  | EOS, EOS => true
  | T x, T y => N.eqb (kcode x) (kcode y)
  | _, _ => false
  end.

(* `token == BaseToken::K` for a non-EOS kind K. *)
Definition is (k : tkind) (t : btok) : bool := btok_eqb (T k) t.

Definition is_eos (t : btok) : bool := match t with EOS => true | T _ => false end.

(* ------------------------------------------------------------------------- *)
(* tokens.rs: the cursor.  [cur] = next_token_id, [span] = the slice `span`.   *)

Record cursor := mkCur { cur : nat; span : list btok }.

(* Tokens::peek: span.first().copied().unwrap_or(EndOfSource) *)
Definition peek (c : cursor) : btok :=
  match span c with [] => EOS | t :: _ => t end.

(* Tokens::take returns [peek c] and leaves the cursor at [advance c]:
   next_token_id is incremented UNCONDITIONALLY (lexer/tokens.rs advance),
   span.split_off_first() leaves an empty span empty. *)
Definition advance (c : cursor) : cursor := mkCur (S (cur c)) (tl (span c)).

(* Tokens::consume_optional *)
Definition consume_optional (k : tkind) (c : cursor) : bool * cursor :=
  if is k (peek c) then (true, advance c) else (false, c).

(* Panic sites that the model can report. *)
Definition P_CONSUME : N := 1%N.      (* tokens.rs:132 unreachable!() in Tokens::consume *)
Definition P_SKIP_UNTIL : N := 2%N.   (* lexer/tokens.rs:423 "there is always an EndOfSource token" *)
Definition P_SLICE : N := 3%N.        (* lexer/tokens.rs:367 &self.tokens[i..] with i > len *)
Definition P_ASSERT_EOS : N := 4%N.   (* parser.rs:98 assert_eq!(.. peek(), EndOfSource) *)
Definition P_FINISH_DECL : N := 5%N.  (* parse_tree.rs:321 assert!(declarations.len() < capacity) *)
Definition P_FIRST_TOKEN : N := 6%N.  (* lexer/tokens.rs:402 assert!(0 < len, "contains EndOfSource") *)

Inductive status := Ok | Err | Oof | Panic (site : N).

Record res := mkRes { rc : cursor; rn : N; rs : status }.

Definition parser := cursor -> res.

Definition ok (c : cursor) (n : N) : res := mkRes c n Ok.
Definition err (c : cursor) : res := mkRes c 0%N Err.
Definition oof (c : cursor) : res := mkRes c 0%N Oof.

(* Sequencing: `let x = f(..)?; rest` -- node counts add up, the first non-Ok
   status wins and keeps the nodes pushed so far. *)
Definition bind (r : res) (k : cursor -> res) : res :=
  match rs r with
  | Ok => let r' := k (rc r) in mkRes (rc r') (rn r + rn r')%N (rs r')
  | _ => r
  end.

(* [n] nodes are pushed, then the computation [r] runs. *)
Definition push (n : N) (r : res) : res := mkRes (rc r) (n + rn r)%N (rs r).

Local Notation "'do' c <- e ; k" := (bind e (fun c => k))
  (at level 200, c name, e at level 100, k at level 200, right associativity).

(* Tokens::consume: the `expectation` table (tokens.rs:116-133).  A mismatch on a
   kind without an entry reaches unreachable!().  Since the repair commit
   33bdf29 the table has entries for Colon and Comma, i.e. for every kind the
   parser passes to `consume` ([consumed_kinds]). *)
Definition in_expectation_table (k : tkind) : bool :=
  match k with
  | KAssignment | KBraceLeft | KBraceRight | KBracketLeft | KBracketRight | KColon | KComma
  | KDot | KParenLeft | KParenRight | KPipe | KSemicolon | KStringLiteral | KIdentifier => true
  | _ => false
  end.

(* The table of the pinned commit (192b0da): no Colon, no Comma. *)
Definition in_expectation_table_pinned (k : tkind) : bool :=
  match k with
  | KAssignment | KBraceLeft | KBraceRight | KBracketLeft | KBracketRight | KDot
  | KParenLeft | KParenRight | KPipe | KSemicolon | KStringLiteral | KIdentifier => true
  | _ => false
  end.

(* Every kind that some parse_* function passes to Tokens::consume. *)
Definition consumed_kinds : list tkind :=
  [KStringLiteral; KSemicolon; KIdentifier; KAssignment; KBraceLeft; KBraceRight;
   KParenLeft; KParenRight; KBracketRight; KColon; KPipe].

Definition consume (k : tkind) (c : cursor) : res :=
  if is k (peek c) then ok (advance c) 0
  else if in_expectation_table k then err (advance c)
  else mkRes (advance c) 0%N (Panic P_CONSUME).

(* lexer/tokens.rs skip_until, relative to a slice: index of the first token
   satisfying [p] or equal to EndOfSource; None = the panic at the end. *)
Fixpoint find_idx (p : btok -> bool) (l : list btok) : option nat :=
  match l with
  | [] => None
  | t :: r => if p t || is_eos t then Some 0
              else match find_idx p r with Some k => Some (S k) | None => None end
  end.

(* Tokens::find_next on the whole array [ts] from absolute position [from]. *)
Definition find_next (p : btok -> bool) (ts : list btok) (from : nat) : option nat :=
  match find_idx p (skipn from ts) with
  | Some k => Some (from + k)
  | None => None
  end.

(* Tokens::with_reservation + Drop for TokensWithReservation (tokens.rs:43-58,
   157-165), both computed from the ABSOLUTE array [ts] as the code does:
   the temporary cursor sees tokens[next..end) only; after the sub-parser ran
   (Ok or Err) the source cursor is re-based at the temporary's position. *)
Definition with_reservation (ts : list btok) (reserved : btok -> bool) (P : parser)
    (c : cursor) : res :=
  match find_next reserved ts (cur c) with
  | None => mkRes c 0%N (Panic P_SKIP_UNTIL)
  | Some e =>
      let r := P (mkCur (cur c) (firstn (e - cur c) (skipn (cur c) ts))) in
      let from := cur (rc r) in
      if Nat.ltb (length ts) from then mkRes (rc r) (rn r) (Panic P_SLICE)
      else mkRes (mkCur from (skipn from ts)) (rn r) (rs r)
  end.

(* ------------------------------------------------------------------------- *)
(* parser.rs: types *)

(* parse_inner_type *)
Fixpoint parse_inner_type (fuel : nat) (c : cursor) : res :=
  match fuel with
  | O => oof c
  | S f =>
    let c1 := advance c in
    match peek c with
    | T KType => ok c1 1                       (* SimpleValueType *)
    | T KIdentifier => ok c1 1                 (* UnresolvedStructOrWordVT *)
    | T KAmpersand =>
        do c2 <- parse_inner_type f c1; ok c2 1          (* PointerVT *)
    | T KParenLeft =>
        do c2 <- parse_inner_type f c1;
        do c3 <- consume KParenRight c2; ok c3 1         (* ViewVT *)
    | T KBracketLeft =>
        let c2 := advance c1 in
        match peek c1 with
        | T KBracketRight =>
            do c3 <- parse_inner_type f c2; ok c3 1      (* ArraylikeVT *)
        | T KColon | T KDots | T KNakedDecimal | T KIdentifier =>
            do c3 <- consume KBracketRight c2;
            do c4 <- parse_inner_type f c3; ok c4 1      (* Slice/EndlessArray/Array/NamedLength *)
        | _ => err c2
        end
    | _ => err c1
    end
  end.

(* parse_type; spans_multiple_tokens(start..end) = (end - 1 > start). *)
Definition parse_type (fuel : nat) (c : cursor) : res :=
  do c1 <- parse_inner_type fuel c;
  if Nat.ltb (S (cur c)) (cur c1) then ok c1 2   (* EndOfSpan, CompositeValueType *)
  else ok c1 0.

(* ------------------------------------------------------------------------- *)
(* parser.rs: expressions.  [E] is parse_expression one fuel level down. *)

(* `depth = 1; while consume_optional(Ampersand) { depth += 1; if depth > 127 {Err} }`
   [r] = 127 - depth. *)
Fixpoint amp_loop (r : nat) (c : cursor) {struct r} : res :=
  if is KAmpersand (peek c) then
    match r with
    | O => err (advance c)                     (* MaximumParseDepthExceeded *)
    | S r' => amp_loop r' (advance c)
    end
  else ok c 0.

(* parse_deref_steps_list: `for _ in 0..=MAX_REFERENCE_DEPTH` (128 iterations; 127 before D70 was repaired). *)
Fixpoint deref_steps_loop (E : parser) (n : nat) (c : cursor) : res :=
  match n with
  | O => err c                                 (* MaximumParseDepthExceeded *)
  | S n' =>
    if is KBracketLeft (peek c) then
      do c1 <- E (advance c);
      do c2 <- consume KBracketRight c1;
      push 2 (deref_steps_loop E n' c2)        (* DerefStepElement, list item *)
    else if is KDot (peek c) then
      do c1 <- consume KIdentifier (advance c);
      push 2 (deref_steps_loop E n' c1)        (* DerefStepMember, list item *)
    else ok c 1                                (* push_end_of_list *)
  end.

Definition parse_deref_steps_list (E : parser) (c : cursor) : res :=
  deref_steps_loop E 128 c.

(* parse_rest_of_arguments (after the opening parenthesis). *)
Fixpoint args_loop (E : parser) (fuel : nat) (c : cursor) : res :=
  match fuel with
  | O => oof c
  | S f =>
    if is KParenRight (peek c) then ok (advance c) 1     (* push_end_of_list *)
    else
      do c1 <- E c;
      push 1 (                                           (* list item *)
        if is KComma (peek c1) then args_loop E f (advance c1)
        else do c2 <- consume KParenRight c1; ok c2 1)   (* push_end_of_list *)
  end.

(* parse_rest_of_structural (after the opening brace). *)
Fixpoint structural_loop (E : parser) (fuel : nat) (c : cursor) : res :=
  match fuel with
  | O => oof c
  | S f =>
    if is KBraceRight (peek c) then ok (advance c) 1     (* push_end_of_list *)
    else
      do c1 <- consume KIdentifier c;
      do c2 <- (if is KColon (peek c1) then E (advance c1)
                else ok c1 5);    (* shorthand: NoMoreItems, List, Identifier, DerefAddressDepth, Deref *)
      push 2 (                    (* IdentifierAndExpression, list item *)
        if is KComma (peek c2) then structural_loop E f (advance c2)
        else do c3 <- consume KBraceRight c2; ok c3 1)   (* push_end_of_list *)
  end.

(* The element loop of an array literal (after the opening bracket); the
   initial `if !consume_optional(BracketRight)` test is the same test as the
   first one of the loop. *)
Fixpoint array_loop (E : parser) (fuel : nat) (c : cursor) : res :=
  match fuel with
  | O => oof c
  | S f =>
    if is KBracketRight (peek c) then ok (advance c) 0
    else
      do c1 <- E c;
      push 1 (                                           (* list item *)
        if is KComma (peek c1) then array_loop E f (advance c1)
        else consume KBracketRight c1)
  end.

(* `while tokens.consume_optional(StringLiteral)`: structural on the span. *)
Fixpoint take_while (k : tkind) (n : nat) (sp : list btok) : cursor :=
  match sp with
  | t :: rest => if is k t then take_while k (S n) rest else mkCur n sp
  | [] => mkCur n []
  end.

(* parse_reference (operand of |..|); address_depth starts at 0 here. *)
Definition parse_reference (E : parser) (c : cursor) : res :=
  do c1 <- amp_loop 127 c;
  do c2 <- consume KIdentifier c1;
  do c3 <- parse_deref_steps_list E c2;
  ok c3 4.                         (* List, Identifier, DerefAddressDepth, Deref *)

(* parse_primary_expression *)
Definition parse_primary_expression (E : parser) (f : nat) (c : cursor) : res :=
  let c1 := advance c in
  match peek c with
  | T KNakedDecimal | T KBitInteger | T KCharLiteral | T KBool => ok c1 1
  | T KSuffixedInteger => ok c1 2              (* SimpleValueType, TypedIntegerLiteral *)
  | T KStringLiteral =>
      if is KStringLiteral (peek c1)
      then ok (take_while KStringLiteral (cur c1) (span c1)) 2  (* EndOfSpan, CompositeStringLiteral *)
      else ok c1 1
  | T KAmpersand =>
      do c2 <- amp_loop 126 c1;
      do c3 <- consume KIdentifier c2;
      do c4 <- parse_deref_steps_list E c3;
      push 4 (                                 (* List, Identifier, DerefAddressDepth, Deref *)
        if is KDots (peek c4)
        then do c5 <- E (advance c4); ok c5 3  (* Item, BinaryOp, Binary *)
        else ok c4 0)
  | T KIdentifier =>
      if is KParenLeft (peek c1) then
        do c2 <- args_loop E f (advance c1); ok c2 3     (* List, Identifier, FunctionCall *)
      else if is KBraceLeft (peek c1) then
        do c2 <- structural_loop E f (advance c1); ok c2 2   (* List, Structural *)
      else
        do c2 <- parse_deref_steps_list E c1; ok c2 4    (* List, Identifier, DerefAddressDepth, Deref *)
  | T KBuiltin =>
      do c2 <- consume KParenLeft c1;
      do c3 <- args_loop E f c2; ok c3 3
  | T KBracketLeft =>
      do c2 <- array_loop E f c1; ok c2 3      (* NoMoreItems, List, ArrayLiteral *)
  | T KParenLeft =>
      do c2 <- E c1;
      do c3 <- consume KParenRight c2; ok c3 1 (* Parenthesized *)
  | _ => err c1
  end.

(* parse_unary_expression *)
Definition parse_unary_expression (E : parser) (f : nat) (c : cursor) : res :=
  match peek c with
  | T KPipeForType =>
      do c1 <- parse_type f (advance c);
      do c2 <- consume KPipe c1; ok c2 1       (* SizeOf *)
  | T KPipe =>
      do c1 <- parse_reference E (advance c);
      do c2 <- consume KPipe c1; ok c2 1       (* LengthOf *)
  | T KExclamation | T KMinus =>
      do c1 <- parse_primary_expression E f (advance c); ok c1 2   (* UnaryOp, Unary *)
  | _ => parse_primary_expression E f c
  end.

(* `while tokens.consume_optional(As)` of parse_singular_expression *)
Fixpoint as_loop (fuel : nat) (tf : nat) (c : cursor) : res :=
  match fuel with
  | O => oof c
  | S f =>
    if is KAs (peek c) then
      do c1 <- parse_type tf (advance c);
      push 2 (as_loop f tf c1)                 (* Item, TypeCast *)
    else ok c 0
  end.

(* parse_singular_expression *)
Definition parse_singular_expression (E : parser) (f : nat) (c : cursor) : res :=
  let (bitcast, c0) := consume_optional KCast c in
  do c1 <- parse_unary_expression E f c0;
  push (if bitcast then 1 else 0)%N (as_loop f f c1).    (* BitCast *)

(* the loop of parse_multiplication; [Sg] = parse_singular_expression *)
Fixpoint mul_loop (Sg : parser) (fuel : nat) (c : cursor) : res :=
  match fuel with
  | O => oof c
  | S f =>
    match peek c with
    | T KTimes | T KDivide | T KModulo =>
        do c1 <- Sg (advance c);
        push 3 (mul_loop Sg f c1)              (* Item, BinaryOp, Binary *)
    | _ => ok c 0
    end
  end.

Definition parse_multiplication (E : parser) (f : nat) (c : cursor) : res :=
  do c1 <- parse_singular_expression E f c;
  mul_loop (parse_singular_expression E f) f c1.

(* the loop of parse_rest_of_bitwise_expression after the first operator
   [op] has been taken; `consume_optional(op_token)` compares with [op]. *)
Fixpoint bitwise_loop (U : parser) (op : btok) (fuel : nat) (c : cursor) : res :=
  match fuel with
  | O => oof c
  | S f =>
    do c1 <- U c;
    push 3 (                                   (* Item, BinaryOp, Binary *)
      if btok_eqb op (peek c1) then bitwise_loop U op f (advance c1)
      else ok c1 0)
  end.

(* the loop of parse_addition; [M] = parse_multiplication,
   [U] = parse_unary_expression.  parse_rest_of_bitwise_expression and
   parse_rest_of_bitshift_operation are only called when the peeked token is
   one of their operators, so their `_ => Err` arms are dead. *)
Fixpoint add_loop (M U : parser) (fuel : nat) (c : cursor) : res :=
  match fuel with
  | O => oof c
  | S f =>
    match peek c with
    | T KAmpersand | T KPipe | T KCaret => bitwise_loop U (peek c) f (advance c)
    | T KShiftLeft | T KShiftRight =>
        do c1 <- U (advance c); ok c1 3        (* Item, BinaryOp, Binary *)
    | T KPlus | T KMinus =>
        do c1 <- M (advance c);
        push 3 (add_loop M U f c1)             (* Item, BinaryOp, Binary *)
    | _ => ok c 0
    end
  end.

Definition parse_addition (E : parser) (f : nat) (c : cursor) : res :=
  do c1 <- parse_multiplication E f c;
  add_loop (parse_multiplication E f) (parse_unary_expression E f) f c1.

(* parse_expression = parse_addition; one unit of fuel per nesting level
   ([parse_expression f] is the parser used for nested expressions), the loops
   and type parsers of the level get [S f]. *)
Fixpoint parse_expression (fuel : nat) (c : cursor) : res :=
  match fuel with
  | O => oof c
  | S f => parse_addition (parse_expression f) (S f) c
  end.

(* parse_comparison *)
Definition parse_comparison (E : parser) (c : cursor) : res :=
  do c1 <- E c;
  match peek c1 with
  | T KEquals | T KDoesNotEqual | T KAngleLeft | T KAngleRight | T KIsGE | T KIsLE =>
      do c2 <- E (advance c1); ok c2 3         (* Item, ComparisonOp, Comparison *)
  | _ => err (advance c1)
  end.

(* ------------------------------------------------------------------------- *)
(* parser.rs: statements.  [St] is parse_statement one fuel level down. *)

(* parse_rest_of_block *)
Fixpoint block_loop (St : parser) (fuel : nat) (c : cursor) : res :=
  match fuel with
  | O => oof c
  | S f =>
    if is KBraceRight (peek c) then ok (advance c) 1     (* push_end_of_list *)
    else do c1 <- St c; push 1 (block_loop St f c1)      (* list item *)
  end.

(* parse_then *)
Definition parse_then (St : parser) (c : cursor) : res :=
  do c1 <- St c;
  if is KElse (peek c1) then do c2 <- St (advance c1); ok c2 1   (* ThenElse *)
  else ok c1 1.                                                  (* Then *)

(* the tail shared by the two assignment forms, after the Deref node *)
Definition assignment_tail (E : parser) (c : cursor) : res :=
  if is KSemicolon (peek c) then err (advance c)   (* UnexpectedSemicolonAfterIdentifier *)
  else
    do c1 <- consume KAssignment c;
    do c2 <- E c1;
    do c3 <- consume KSemicolon c2; ok c3 2.       (* Item, Assignment *)

Definition reserved_in_if (t : btok) : bool := is KBraceLeft t || is KSemicolon t.

(* parse_statement *)
Definition parse_statement (ts : list btok) (St : parser) (f : nat) (c : cursor) : res :=
  let E := parse_expression f in
  let c1 := advance c in
  match peek c with
  | T KBraceLeft =>
      do c2 <- block_loop St f c1; ok c2 1         (* Block *)
  | T KIf =>
      do c2 <- with_reservation ts reserved_in_if (parse_comparison E) c1;
      do c3 <- parse_then St c2; ok c3 1           (* If *)
  | T KLoop =>
      do c2 <- consume KSemicolon c1; ok c2 1      (* Loop *)
  | T KGoto =>
      do c2 <- (if is KReturn (peek c1) then ok (advance c1) 0
                else consume KIdentifier c1);
      do c3 <- consume KSemicolon c2; ok c3 2      (* Identifier, Goto *)
  | T KVar =>
      do c2 <- consume KIdentifier c1;
      do c3 <- (if is KColon (peek c2) then parse_type f (advance c2) else ok c2 0);
      do c4 <- (if is KAssignment (peek c3) then E (advance c3) else ok c3 0);
      do c5 <- consume KSemicolon c4; ok c5 3      (* 2 x push_optional_node, VariableDeclaration *)
  | T KIdentifier =>
      if is KColon (peek c1) then ok (advance c1) 2          (* Identifier, Label *)
      else if is KParenLeft (peek c1) then
        do c2 <- args_loop E f (advance c1);
        do c3 <- consume KSemicolon c2; ok c3 3              (* List, Identifier, MethodCall *)
      else
        do c2 <- parse_deref_steps_list E c1;
        push 4 (assignment_tail E c2)              (* List, Identifier, DerefAddressDepth, Deref *)
  | T KBuiltin =>
      do c2 <- consume KParenLeft c1;
      do c3 <- args_loop E f c2;
      do c4 <- consume KSemicolon c3; ok c4 3
  | T KAmpersand =>
      do c2 <- amp_loop 126 c1;
      do c3 <- consume KIdentifier c2;
      do c4 <- parse_deref_steps_list E c3;
      push 4 (assignment_tail E c4)
  | _ => err c1
  end.

Fixpoint parse_stmt (ts : list btok) (fuel : nat) (c : cursor) : res :=
  match fuel with
  | O => oof c
  | S f => parse_statement ts (parse_stmt ts f) (S f) c
  end.

(* ------------------------------------------------------------------------- *)
(* parser.rs: declarations.  [F] is the (constant) fuel handed to the
   expression, type and statement parsers; [fuel] counts loop iterations. *)

(* the loop of parse_function_body.  NOTE: after `return: expr` the closing
   brace is NOT consumed (the code returns right after parse_expression). *)
Fixpoint body_loop (ts : list btok) (F : nat) (fuel : nat) (c : cursor) : res :=
  match fuel with
  | O => oof c
  | S f =>
    if is KBraceRight (peek c) then ok (advance c) 1     (* push_end_of_list *)
    else if is KReturn (peek c) then
      push 1 (                                           (* push_end_of_list *)
        do c1 <- consume KColon (advance c);
        parse_expression F c1)
    else do c1 <- parse_stmt ts F c; push 1 (body_loop ts F f c1)   (* list item *)
  end.

Definition parse_function_body (ts : list btok) (F : nat) (c : cursor) : res :=
  do c1 <- consume KBraceLeft c; body_loop ts F F c1.

(* parse_parameter and parse_member have the same shape. *)
Definition parse_identifier_and_type (F : nat) (c : cursor) : res :=
  do c1 <- consume KIdentifier c;
  if is KColon (peek c1) then
    do c2 <- parse_type F (advance c1); ok c2 1          (* IdentifierAndType *)
  else err c1.                                           (* Missing{Parameter,Member}Type: nothing taken *)

(* the loop of parse_rest_of_function_signature *)
Fixpoint params_loop (F : nat) (fuel : nat) (c : cursor) : res :=
  match fuel with
  | O => oof c
  | S f =>
    if is KParenRight (peek c) then ok (advance c) 0
    else
      do c1 <- parse_identifier_and_type F c;
      push 1 (                                           (* list item *)
        if is KComma (peek c1) then params_loop F f (advance c1)
        else consume KParenRight c1)
  end.

Definition parse_rest_of_function_signature (F : nat) (c : cursor) : res :=
  do c1 <- consume KParenLeft c;
  do c2 <- params_loop F F c1;
  push 1 (                                               (* push_end_of_list *)
    if is KArrow (peek c2) then parse_type F (advance c2)
    else ok c2 1).                                       (* SimpleValueType(Void) *)

(* the loop of parse_struct_members (the comma after the last member is
   optional since 33bdf29) *)
Fixpoint members_loop (F : nat) (fuel : nat) (c : cursor) : res :=
  match fuel with
  | O => oof c
  | S f =>
    if is KBraceRight (peek c) then ok (advance c) 1     (* push_end_of_list *)
    else
      do c1 <- parse_identifier_and_type F c;
      push 1 (                                           (* list item *)
        if is KComma (peek c1) then members_loop F f (advance c1)
        else do c2 <- consume KBraceRight c1; ok c2 1)   (* push_end_of_list *)
  end.

Definition parse_struct_members (F : nat) (c : cursor) : res :=
  do c1 <- consume KBraceLeft c; members_loop F F c1.

(* All of the following start AFTER the declaring keyword. *)

Definition parse_import_declaration (c : cursor) : res :=
  do c1 <- consume KStringLiteral c;
  do c2 <- consume KSemicolon c1;
  ok c2 3.                         (* SimpleStringLiteral, DeclarationFlags, ImportDeclaration *)

Definition parse_constant_declaration (F : nat) (c : cursor) : res :=
  do c1 <- consume KIdentifier c;
  if is KColon (peek c1) then
    do c2 <- parse_type F (advance c1);
    do c3 <- consume KAssignment c2;
    do c4 <- parse_expression F c3;
    do c5 <- consume KSemicolon c4;
    ok c5 4                        (* Item, Identifier, DeclarationFlags, ConstantDeclaration *)
  else err c1.                     (* MissingConstantType: nothing taken *)

Definition parse_word_declaration (F : nat) (c : cursor) : res :=
  do c1 <- consume KIdentifier c;
  do c2 <- parse_struct_members F c1;
  ok c2 5.           (* List, StructuralType, Identifier, DeclarationFlags, StructureDeclaration *)

Definition parse_struct_declaration (F : nat) (c : cursor) : res :=
  do c1 <- consume KIdentifier c;
  do c2 <- (if is KSemicolon (peek c1) then ok (advance c1) 1    (* NoMoreItems *)
            else parse_struct_members F c1);
  ok c2 5.

(* ParseBuffer::set_private / set_public on the abstract state
   [pz] = active_private_zone.is_some(): (nodes pushed, new state). *)
Definition set_private (pz : bool) : N * bool := if pz then (0%N, true) else (1%N, true).
Definition set_public (pz : bool) : N * bool := if pz then (1%N, false) else (0%N, false).

(* parse_function_declaration *)
Definition parse_function_declaration (ts : list btok) (F : nat) (is_pub : bool) (pz : bool)
    (c : cursor) : res * bool :=
  let r1 := (do c1 <- consume KIdentifier c; parse_rest_of_function_signature F c1) in
  match rs r1 with
  | Ok =>
      let c2 := rc r1 in
      (* UnpatchedListItem, Item, List, Identifier, DeclarationFlags, FunctionDeclaration *)
      let n := (rn r1 + 6)%N in
      if is KSemicolon (peek c2) then (mkRes (advance c2) n Ok, pz)
      else
        let (n1, pz1) := if is_pub then set_private pz else (0%N, pz) in
        let rb := parse_function_body ts F c2 in
        match rs rb with
        | Ok =>
            let (n2, pz2) := if is_pub then set_public pz1 else (0%N, pz1) in
            (* push_optional_node, List, FunctionBody *)
            (mkRes (rc rb) (n + n1 + rn rb + 3 + n2)%N Ok, pz2)
        | _ => (mkRes (rc rb) (n + n1 + rn rb)%N (rs rb), pz1)
        end
  | _ => (r1, pz)
  end.

(* starts_declaration *)
Definition starts_declaration (t : btok) : bool :=
  match t with
  | T KPub | T KExtern | T KImport | T KConst | T KFn | T KStruct
  | T KWord8 | T KWord16 | T KWord32 | T KWord64 | T KWord128 => true
  | _ => false
  end.

(* parse_declaration *)
Definition parse_declaration (ts : list btok) (F : nat) (pz : bool) (c : cursor) : res * bool :=
  let (is_pub, c1) := consume_optional KPub c in
  let (n0, pz1) := if is_pub then set_public pz else set_private pz in
  let (_, c2) := consume_optional KExtern c1 in
  let c3 := advance c2 in
  let (r, pz2) :=
    match peek c2 with
    | T KImport => (parse_import_declaration c3, pz1)
    | T KConst => (parse_constant_declaration F c3, pz1)
    | T KFn => parse_function_declaration ts F is_pub pz1 c3
    | T KStruct => (parse_struct_declaration F c3, pz1)
    | T KWord8 | T KWord16 | T KWord32 | T KWord64 | T KWord128 =>
        (parse_word_declaration F c3, pz1)
    | _ => (err c3, pz1)
    end in
  (push n0 r, pz2).

(* ------------------------------------------------------------------------- *)
(* parser.rs parse: the declaration loop *)

Record decl_info := mkDecl {
  d_start : nat;      (* start_of_next_declaration of the iteration *)
  d_end : nat;        (* cursor when parse_declaration returned *)
  d_nodes : N;        (* nodes pushed by the iteration *)
  d_status : status
}.

Record loop_out := mkLoop {
  l_nodes : N;        (* nodes pushed by all iterations *)
  l_errs : N;         (* iterations that returned Err *)
  l_decls : N;        (* iterations that returned Ok (finish_declaration calls) *)
  l_final : nat;      (* start_of_next_declaration when the loop was left *)
  l_status : status;  (* Ok: loop left normally (break or count exhausted) *)
  l_log : list decl_info
}.

Definition add_iter (d : decl_info) (rest : loop_out) : loop_out :=
  mkLoop (d_nodes d + l_nodes rest)%N
         ((match d_status d with Err => 1 | _ => 0 end) + l_errs rest)%N
         ((match d_status d with Ok => 1 | _ => 0 end) + l_decls rest)%N
         (l_final rest) (l_status rest) (d :: l_log rest).

Definition stop_iter (d : decl_info) (s : status) : loop_out :=
  mkLoop (d_nodes d) 0%N 0%N (d_start d) s [d].

(* `for _ in 0..(num_possible_declarations + 2)`; [iters] counts down;
   [cap] = declarations.capacity(), [nd] = declarations.len(). *)
Fixpoint decl_loop (ts : list btok) (F : nat) (cap : N) (iters : nat)
    (start : nat) (pz : bool) (nd : N) : loop_out :=
  match iters with
  | O => mkLoop 0%N 0%N 0%N start Ok []
  | S i =>
    if Nat.ltb (length ts) start then mkLoop 0%N 0%N 0%N start (Panic P_SLICE) []
    else
      let c := mkCur start (skipn start ts) in           (* starting_from *)
      match peek c with
      | EOS => mkLoop 0%N 0%N 0%N start Ok []            (* break *)
      | T _ =>
        let (r, pz') := parse_declaration ts F pz c in
        let d := mkDecl start (cur (rc r)) (rn r) (rs r) in
        match rs r with
        | Oof => stop_iter d Oof
        | Panic s => stop_iter d (Panic s)
        | Ok | Err =>
          let is_ok := match rs r with Ok => true | _ => false end in
          if is_ok && N.leb cap nd then stop_iter d (Panic P_FINISH_DECL)
          else
            match find_next starts_declaration ts (cur (rc r)) with
            | None => stop_iter d (Panic P_SKIP_UNTIL)
            | Some nxt =>
                add_iter d (decl_loop ts F cap i nxt pz' (if is_ok then nd + 1 else nd)%N)
            end
        end
      end
  end.

Definition num_possible_declarations (ts : list btok) : nat :=
  length (filter starts_declaration ts).

(* Fuel handed to every fuel-indexed parser: more than the number of tokens. *)
Definition fuel_for (ts : list btok) : nat := length ts + 8.

Definition MAX_PARSE_NODE_CONTEXT : N := 5%N.
Definition MAX_NUM_PARSING_ERRORS : N := 100%N.

(* ParseTree::empty: Vec::with_capacity(MAX_PARSE_NODE_CONTEXT + factor * len);
   the factor is 4 since the repair commit 35c691e, it was 2 in the pinned commit. *)
Definition node_capacity (factor ctx len : N) : N := (ctx + factor * len)%N.

Definition capacity (ts : list btok) : N :=
  node_capacity 4 MAX_PARSE_NODE_CONTEXT (N.of_nat (length ts)).

Definition capacity_pinned (ts : list btok) : N :=
  node_capacity 2 MAX_PARSE_NODE_CONTEXT (N.of_nat (length ts)).

Record outcome := mkOutcome {
  o_nodes : N;          (* total nodes pushed, padding included *)
  o_errors_raw : N;     (* declarations that returned Err *)
  o_errors : N;         (* errors stored: capped by min(capacity, 100) *)
  o_decls : N;          (* declarations finished *)
  o_final : nat;        (* start_of_next_declaration after the loop *)
  o_status : status;    (* Ok = parse returned normally *)
  o_log : list decl_info
}.

(* parse *)
Definition parse_full (ts : list btok) : outcome :=
  match ts with
  | [] => mkOutcome 0%N 0%N 0%N 0%N 0 (Panic P_FIRST_TOKEN) []
  | _ :: _ =>
    let npd := num_possible_declarations ts in
    let l := decl_loop ts (fuel_for ts) (N.of_nat npd) (npd + 2) 0 false 0%N in
    let st :=
      match l_status l with
      | Ok =>
          if Nat.ltb (length ts) (l_final l) then Panic P_SLICE
          else match peek (mkCur (l_final l) (skipn (l_final l) ts)) with
               | EOS => Ok
               | T _ => Panic P_ASSERT_EOS
               end
      | s => s
      end in
    mkOutcome (MAX_PARSE_NODE_CONTEXT + l_nodes l)%N (l_errs l)
              (N.min (l_errs l) (N.min (capacity ts) MAX_NUM_PARSING_ERRORS))
              (l_decls l) (l_final l) st (l_log l)
  end.

Definition is_oof (s : status) : bool := match s with Oof => true | _ => false end.

(* (nodes, errors stored, completed without running out of fuel) *)
Definition parse_nodes (ts : list btok) : N * N * bool :=
  let o := parse_full ts in (o_nodes o, o_errors o, negb (is_oof (o_status o))).

(* The site of the panic the model predicts (other than the buffer-full panic). *)
Definition parse_panics (ts : list btok) : option N :=
  match o_status (parse_full ts) with Panic s => Some s | _ => None end.

(* The buffer-full panic of ParseBuffer::push fires iff this holds. *)
Definition overflows (ts : list btok) : bool := N.ltb (capacity ts) (o_nodes (parse_full ts)).
Definition overflows_pinned (ts : list btok) : bool :=
  N.ltb (capacity_pinned ts) (o_nodes (parse_full ts)).

(* Per-declaration node counts, in source order. *)
Definition decl_node_counts (ts : list btok) : list N := map d_nodes (o_log (parse_full ts)).
