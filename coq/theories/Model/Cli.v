(* Decision model of the command line tool (property C18): src/main.rs
   `get_backend`, `MainArgs::try_from`, `do_main`, `generate_output`.
   Strings are abstract ids; the file system and process spawning are outside. *)
From PV Require Import Base.Common.

Inductive subcommand := Build | Run | Emit.

(* get_backend: the command-line flag, else the environment variable, else the
   config file, else the default *)
Definition get_backend (flag env config : option N) (default : N) : N :=
  match flag with
  | Some b => b
  | None => match env with
            | Some b => b
            | None => match config with Some b => b | None => default end
            end
  end.

Definition backend_for (s : subcommand) (flag env_backend env_lli config : option N) (clang lli : N) : option N :=
  match s with
  | Build => Some (get_backend flag env_backend config clang)
  | Run => Some (get_backend flag env_lli None lli)       (* no config file for `run` *)
  | Emit => None                                          (* skip_backend *)
  end.

Inductive backend_result := Spawned (exit_code : option N) (* None = killed by a signal *) | SpawnFailed.

(* exit status of the tool: 0 = success *)
Definition tool_succeeds (s : subcommand) (compile_ok : bool) (b : backend_result) : bool :=
  if negb compile_ok then false else
  match s with
  | Emit => true
  | Run => match b with Spawned (Some _) => true | _ => false end
  | Build => match b with Spawned (Some c) => N.eqb c 0 | _ => false end
  end.

(* is the backend invoked at all *)
Definition invokes_backend (s : subcommand) (compile_ok : bool) : bool :=
  compile_ok && match s with Emit => false | _ => true end.

(* IR files written under --out-dir: one per module that was generated before
   the first failing module (all of them when compilation succeeds) *)
Definition ll_files_written (has_out_dir : bool) (modules_generated : nat) : nat :=
  if has_out_dir then modules_generated else 0.
