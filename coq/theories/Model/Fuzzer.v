(* Model of the token fuzzer, /repo/src/delta/fuzzer.rs, as called by
   `penne fuzz tokens` (src/main.rs do_fuzzing) WITHOUT injected mistakes
   (num_errors = 0, the final `for _ in 0..num_errors` loop does not run).

   Randomness.  Every call into the random number generator is a [draw] from an
   explicit list of choices ([choice := N]); the drawn number is reduced modulo
   the number of alternatives (the total weight for weighted draws), so every
   alternative of positive weight is reachable and no alternative of weight
   zero is.  A draw from the empty list yields 0.  The order of the draws is
   the order of the calls in the Rust code (short-circuit `&&` included).

     rng.random_bool(p)               [rbool num den]     (p = num/den)
     rng.random_range(lo..hi)         [rrange lo hi]      (hi exclusive)
     rng.random::<char>()             [random_scalar]     (uniform over scalar values)
     WeightedIndex::sample            [sample] over a table of (alternative, weight)

   Rust sources mirrored:
     src/main.rs do_fuzzing
       capacity = kb * 1096; String::with_capacity; percentage 95
                                      -> [fuzz_tokens]
     src/delta/fuzzer.rs fill_to_capacity_with_tokens
       base_token_dist                -> [token_table] ([weight], [all_kinds])
       value_type_dist                -> [value_type_table]
       int_type_dist                  -> [int_type_table]
       us_ascii_dist                  -> [us_ascii_weight], [ascii_table]
       single_char_dist               -> [single_char_weight]
       random_uint                    -> [random_uint]
       random_char                    -> [random_char]
       random_identifier              -> [random_identifier], [ident_loop]
       add_whitespace                 -> [whitespace_ops]
       add_space_if_necessary         -> [space_ops]; which arms call it: [calls_add_space];
                                         the two together, as a function of the two
                                         bytes that meet: [needs_space]
       the `while 100 * len < percentage * capacity` loop
                                      -> [emit_loop]; its body [iteration]
         `while buffer.len() > next_newline_at`  -> [newline_loop]
         `while buffer.len() > next_comment_at`  -> [comment_loop], [comment_ops]
         `match base_token`           -> [token_ops], [push_token]
       assert!(percentage < 100)      -> status [AssertFailed]
     src/delta/lexer.rs
       BaseToken, its strum::Display  -> [token_kind], [display]
       ValueTypeKeyword, its Display  -> [value_type], [vt_display]
       is_identifier_continuation     -> [is_ident_cont]
     core / alloc
       u128 Display, {:X}, {:x}, {:b} -> [to_decimal], [to_hex], [to_binary] ([digits])
       format!("\\x{value:02X}")      -> [hex_escape]
       char::escape_default           -> [escape_default]
       char::len_utf8, encode_utf8    -> [utf8_len], [utf8]
       String::push / push_str, RawVec::grow_amortized
                                      -> [push], [reserve]

   The buffer holds Unicode scalar values (code points), most recent first
   ([brev]); [blen] is String::len() in BYTES, [bcap] is String::capacity().
   The text is [rev brev]; the bytes are [encode (rev brev)].

   Fuel.  [emit_loop] consumes at least one choice per iteration and stops with
   [OutOfChoices] when the list is exhausted while the loop condition still
   holds, so [S (length choices)] is enough fuel.  The two inner `while` loops
   run on the fuel the outer loop has left, which is then still larger than the
   number of remaining choices (each of their iterations draws at least once;
   on the empty list every draw is 0, which makes them exit); running out sets
   [foof] (proved never to happen in FuzzerShapeProofs.fuzz_tokens_fuel).
   [digits] uses fuel 129 (a u128 has at most 128 binary digits).

   Results: [emit_run] returns a [status] ([Finished]: the loop condition became
   false; [OutOfChoices]: the choice list was too short for that; [OutOfFuel];
   [AssertFailed]: percentage >= 100) and the final state; [emit] / [emit_bytes]
   are the text as code points / as UTF-8 bytes.

   Not modelled: usize overflow of `100 * buffer.len()`; allocation failure;
   failure of WeightedIndex::new (all tables have a positive total weight). *)
From Coq Require Import Ascii String.
From PV Require Import Base.Common.
Open Scope N_scope.

Definition choice := N.

Definition draw (cs : list choice) : choice * list choice :=
  match cs with
  | [] => (0, [])
  | c :: r => (c, r)
  end.

Definition rbool (num den : N) (cs : list choice) : bool * list choice :=
  let '(c, r) := draw cs in (c mod den <? num, r).

Definition rrange (lo hi : N) (cs : list choice) : N * list choice :=
  let '(c, r) := draw cs in (lo + c mod (hi - lo), r).

(* char::from_u32 is total on [0, 0xD800) + [0xE000, 0x110000): 1112064 values *)
Definition random_scalar (cs : list choice) : N * list choice :=
  let '(c, r) := draw cs in
  let v := c mod 1112064 in
  ((if v <? 55296 then v else v + 2048), r).

Fixpoint pick_weighted {A : Type} (d : A) (t : list (A * N)) (r : N) : A :=
  match t with
  | [] => d
  | (a, w) :: t' => if r <? w then a else pick_weighted d t' (r - w)
  end.
Definition total_weight {A : Type} (t : list (A * N)) : N :=
  fold_right (fun p s => snd p + s) 0 t.
Definition sample {A : Type} (d : A) (t : list (A * N)) (cs : list choice) : A * list choice :=
  let '(c, r) := draw cs in (pick_weighted d t (c mod total_weight t), r).

(* ---- characters ---------------------------------------------------------- *)
Definition str (s : string) : list N := map N_of_ascii (list_ascii_of_string s).
Arguments str s%string.

Definition in_range (lo hi x : N) : bool := (lo <=? x) && (x <=? hi).
Definition is_ident_cont (x : N) : bool :=
  in_range 97 122 x || in_range 65 90 x || in_range 48 57 x || (x =? 95).
Definition is_ascii_graphic (x : N) : bool := in_range 33 126 x.

Definition utf8_len (c : N) : N :=
  if c <? 128 then 1 else if c <? 2048 then 2 else if c <? 65536 then 3 else 4.
Definition utf8 (c : N) : list N :=
  if c <? 128 then [c]
  else if c <? 2048 then [192 + c / 64; 128 + c mod 64]
  else if c <? 65536 then [224 + c / 4096; 128 + (c / 64) mod 64; 128 + c mod 64]
  else [240 + c / 262144; 128 + (c / 4096) mod 64; 128 + (c / 64) mod 64; 128 + c mod 64].
Definition encode (s : list N) : list N := flat_map utf8 s.
Definition str_len (s : list N) : N := fold_right (fun c n => utf8_len c + n) 0 s.

(* ---- number formatting --------------------------------------------------- *)
(* least significant digit first *)
Fixpoint digits_rev (fuel : nat) (base v : N) : list N :=
  match fuel with
  | O => []
  | S f => if v <? base then [v] else (v mod base) :: digits_rev f base (v / base)
  end.
Definition digits (base v : N) : list N := rev (digits_rev 129 base v).
Definition dec_char (d : N) : N := 48 + d.
Definition hex_char (upper : bool) (d : N) : N :=
  if d <? 10 then 48 + d else (if upper then 55 else 87) + d.
Definition to_decimal (v : N) : list N := map dec_char (digits 10 v).
Definition to_hex (upper : bool) (v : N) : list N := map (hex_char upper) (digits 16 v).
Definition to_binary (v : N) : list N := map dec_char (digits 2 v).
(* format!("\\x{value:02X}") for value < 256 *)
Definition hex_escape (v : N) : list N := [92; 120; hex_char true (v / 16); hex_char true (v mod 16)].

(* char::escape_default *)
Definition escape_default (c : N) : list N :=
  if c =? 9 then [92; 116]
  else if c =? 13 then [92; 114]
  else if c =? 10 then [92; 110]
  else if c =? 39 then [92; 39]
  else if c =? 34 then [92; 34]
  else if c =? 92 then [92; 92]
  else if in_range 32 126 c then [c]
  else 92 :: 117 :: 123 :: to_hex false c ++ [125].

(* ---- token kinds and their weights ---------------------------------------- *)
Inductive token_kind :=
| TEndOfSource
| TParenLeft | TParenRight | TBraceLeft | TBraceRight | TBracketLeft | TBracketRight
| TAngleLeft | TAngleRight | TPipe | TAmpersand | TCaret | TExclamation | TPlaceholder
| TPlus | TMinus | TTimes | TDivide | TModulo | TColon | TSemicolon | TDot | TComma | TAssignment
| TEquals | TDoesNotEqual | TIsGE | TIsLE | TShiftLeft | TShiftRight | TArrow | TPipeForType | TDots
| TFn | TVar | TConst | TIf | TGoto | TLoop | TReturn | TElse | TCast | TAs | TImport | TPub
| TExtern | TStruct | TWord8 | TWord16 | TWord32 | TWord64 | TWord128
| TValueTypeKeyword
| TIdentifier | TBuiltin
| TNakedDecimal | TBitInteger | TSuffixedInteger | TCharLiteral | TBoolLiteral
| TStringLiteral
| TError.

(* in the order of the discriminants (BaseToken::iter()) *)
Definition all_kinds : list token_kind :=
  [ TEndOfSource;
    TParenLeft; TParenRight; TBraceLeft; TBraceRight; TBracketLeft; TBracketRight;
    TAngleLeft; TAngleRight; TPipe; TAmpersand; TCaret; TExclamation; TPlaceholder;
    TPlus; TMinus; TTimes; TDivide; TModulo; TColon; TSemicolon; TDot; TComma; TAssignment;
    TEquals; TDoesNotEqual; TIsGE; TIsLE; TShiftLeft; TShiftRight; TArrow; TPipeForType; TDots;
    TFn; TVar; TConst; TIf; TGoto; TLoop; TReturn; TElse; TCast; TAs; TImport; TPub;
    TExtern; TStruct; TWord8; TWord16; TWord32; TWord64; TWord128;
    TValueTypeKeyword;
    TIdentifier; TBuiltin;
    TNakedDecimal; TBitInteger; TSuffixedInteger; TCharLiteral; TBoolLiteral;
    TStringLiteral;
    TError ].

Definition weight (k : token_kind) : N :=
  match k with
  | TEndOfSource => 0
  | TParenLeft | TParenRight | TBraceLeft | TBraceRight
  | TBracketLeft | TBracketRight | TAngleLeft | TAngleRight => 10
  | TPipe | TAmpersand | TCaret | TExclamation | TPlaceholder | TPlus
  | TMinus | TTimes | TDivide | TModulo | TColon | TSemicolon | TDot
  | TComma | TAssignment | TEquals | TDoesNotEqual | TIsGE | TIsLE
  | TShiftLeft | TShiftRight | TArrow | TPipeForType | TDots => 5
  | TFn | TVar | TConst | TIf | TGoto | TLoop | TReturn | TElse | TCast
  | TAs | TImport | TPub | TExtern | TStruct => 5
  | TWord8 | TWord16 | TWord32 | TWord64 | TWord128 => 1
  | TValueTypeKeyword => 10
  | TIdentifier => 2
  | TBuiltin => 1
  | TNakedDecimal => 2
  | TBitInteger => 1
  | TSuffixedInteger => 1
  | TCharLiteral => 1
  | TBoolLiteral => 1
  | TStringLiteral => 1
  | TError => 0
  end.

Definition token_table : list (token_kind * N) := map (fun k => (k, weight k)) all_kinds.

(* strum::Display with serialize_all = "lowercase" and the explicit serialize attributes *)
Definition display (k : token_kind) : list N :=
  match k with
  | TEndOfSource => str "endofsource"
  | TParenLeft => str "(" | TParenRight => str ")"
  | TBraceLeft => str "braceleft" | TBraceRight => str "braceright"
  | TBracketLeft => str "[" | TBracketRight => str "]"
  | TAngleLeft => str "<" | TAngleRight => str ">"
  | TPipe => str "|" | TAmpersand => str "&" | TCaret => str "^" | TExclamation => str "!"
  | TPlaceholder => str "_" | TPlus => str "+" | TMinus => str "-" | TTimes => str "*"
  | TDivide => str "/" | TModulo => str "%" | TColon => str ":" | TSemicolon => str ";"
  | TDot => str "." | TComma => str "," | TAssignment => str "="
  | TEquals => str "==" | TDoesNotEqual => str "!=" | TIsGE => str ">=" | TIsLE => str "<="
  | TShiftLeft => str "<<" | TShiftRight => str ">>" | TArrow => str "->"
  | TPipeForType => str "|:" | TDots => str ".."
  | TFn => str "fn" | TVar => str "var" | TConst => str "const" | TIf => str "if"
  | TGoto => str "goto" | TLoop => str "loop" | TReturn => str "return" | TElse => str "else"
  | TCast => str "cast" | TAs => str "as" | TImport => str "import" | TPub => str "pub"
  | TExtern => str "extern" | TStruct => str "struct"
  | TWord8 => str "word8" | TWord16 => str "word16" | TWord32 => str "word32"
  | TWord64 => str "word64" | TWord128 => str "word128"
  | TValueTypeKeyword => str "valuetypekeyword"
  | TIdentifier => str "identifier" | TBuiltin => str "builtin"
  | TNakedDecimal => str "nakeddecimal" | TBitInteger => str "bitinteger"
  | TSuffixedInteger => str "suffixedinteger" | TCharLiteral => str "charliteral"
  | TBoolLiteral => str "boolliteral" | TStringLiteral => str "stringliteral"
  | TError => str "error"
  end.

Inductive value_type :=
| VNoKeyword | VVoid | VInt8 | VInt16 | VInt32 | VInt64 | VInt128
| VUint8 | VUint16 | VUint32 | VUint64 | VUint128 | VUsize | VChar8 | VBool.

Definition vt_display (t : value_type) : list N :=
  match t with
  | VNoKeyword => str "nokeyword" | VVoid => str "void"
  | VInt8 => str "i8" | VInt16 => str "i16" | VInt32 => str "i32" | VInt64 => str "i64"
  | VInt128 => str "i128"
  | VUint8 => str "u8" | VUint16 => str "u16" | VUint32 => str "u32" | VUint64 => str "u64"
  | VUint128 => str "u128"
  | VUsize => str "usize" | VChar8 => str "char8" | VBool => str "bool"
  end.

Definition value_type_table : list (value_type * N) :=
  [ (VNoKeyword, 0); (VVoid, 1); (VInt8, 1); (VInt16, 1); (VInt32, 1); (VInt64, 1); (VInt128, 1);
    (VUint8, 1); (VUint16, 1); (VUint32, 1); (VUint64, 1); (VUint128, 1); (VUsize, 1);
    (VChar8, 1); (VBool, 1) ].

Definition int_type_table : list (value_type * N) :=
  [ (VNoKeyword, 0); (VVoid, 0); (VInt8, 1); (VInt16, 1); (VInt32, 1); (VInt64, 1); (VInt128, 1);
    (VUint8, 1); (VUint16, 1); (VUint32, 1); (VUint64, 1); (VUint128, 1); (VUsize, 1);
    (VChar8, 0); (VBool, 0) ].

(* ---- the two ASCII distributions ----------------------------------------- *)
Definition us_ascii_weight (x : N) : N :=
  if x =? 32 then 500
  else if in_range 97 122 x then 50
  else if in_range 48 57 x then 20
  else if is_ascii_graphic x then 10
  else 1.

Definition single_char_weight (x : N) : N :=
  if (x =? 32) || (x =? 10) || (x =? 9) || (x =? 13) || (x =? 92) || (x =? 39) || (x =? 34) then 1
  else if is_ascii_graphic x then 1
  else 0.

(* the weights of the bytes 0 .. n-1 *)
Fixpoint ascii_table_from (n : nat) (i : N) (w : N -> N) : list (N * N) :=
  match n with
  | O => []
  | S n' => (i, w i) :: ascii_table_from n' (i + 1) w
  end.
Definition ascii_table (w : N -> N) : list (N * N) := ascii_table_from 128 0 w.

(* ---- the closures ---------------------------------------------------------- *)
Definition U128_MAX : N := 340282366920938463463374607431768211455.

Definition random_uint (cs : list choice) : N * list choice :=
  let '(zero, cs1) := rbool 1 5 cs in
  if zero then (0, cs1)
  else
    let '(big, cs2) := rbool 1 20 cs1 in
    if big then rrange 1 (U128_MAX + 1) cs2
    else
      let '(medium, cs3) := rbool 1 4 cs2 in
      if medium then
        let '(ndigits, cs4) := rrange 3 20 cs3 in
        rrange 1 (10 ^ ndigits) cs4
      else rrange 1 1000 cs3.

Definition random_char (cs : list choice) : N * list choice :=
  let '(uni, cs1) := rbool 1 20 cs in
  if uni then random_scalar cs1
  else sample 0 (ascii_table us_ascii_weight) cs1.

(* the body of `for i in 0..n`; [first] is `i == 0` (then `i > 0 && ..` does not draw) *)
Fixpoint ident_loop (n : nat) (first : bool) (cs : list choice) : list N * list choice :=
  match n with
  | O => ([], cs)
  | S n' =>
      let '(dig, cs1) := if first then (false, cs) else rbool 1 10 cs in
      let '(pre, cs2) :=
        if dig then let '(d, r) := rrange 48 58 cs1 in ([d], r)
        else
          let '(low, r) := rbool 7 10 cs1 in
          if low then let '(l, r') := rrange 97 123 r in ([l], r') else ([], r) in
      let '(up, cs3) := rbool 9 10 cs2 in
      let '(post, cs4) :=
        if up then let '(u, r) := rrange 65 91 cs3 in ([u], r) else ([95], cs3) in
      let '(rest, cs5) := ident_loop n' false cs4 in
      (pre ++ post ++ rest, cs5)
  end.

Definition random_identifier (cs : list choice) : list N * list choice :=
  let '(n, cs1) := rrange 1 20 cs in
  ident_loop (N.to_nat n) true cs1.

(* ---- buffer operations ----------------------------------------------------- *)
(* one call of String::push (OChar) or String::push_str (OStr) *)
Inductive op := OChar (c : N) | OStr (s : list N).
Definition op_text (o : op) : list N := match o with OChar c => [c] | OStr s => s end.
Definition ops_text (ops : list op) : list N := flat_map op_text ops.

Record buf := { brev : list N; blen : N; bcap : N }.

(* Vec::reserve(additional) -> RawVec::grow_amortized: the new capacity *)
Definition reserve (additional : N) (b : buf) : N :=
  if bcap b - blen b <? additional
  then N.max 8 (N.max (2 * bcap b) (blen b + additional))
  else bcap b.

Definition push (o : op) (b : buf) : buf :=
  let s := op_text o in
  let n := str_len s in
  {| brev := rev_append s (brev b); blen := blen b + n; bcap := reserve n b |}.

Definition apply_ops (ops : list op) (b : buf) : buf := fold_left (fun b o => push o b) ops b.

(* buffer.bytes().last() *)
Definition last_byte (b : buf) : option N :=
  match brev b with
  | [] => None
  | c :: _ => Some (if c <? 128 then c else 128 + c mod 64)
  end.

(* the text in order: rev (brev b), computed in linear time *)
Definition buf_text (b : buf) : list N := rev_append (brev b) [].
Definition buf_bytes (b : buf) : list N := encode (buf_text b).

(* String::with_capacity *)
Definition empty_buf (capacity : N) : buf := {| brev := []; blen := 0; bcap := capacity |}.

(* ---- whitespace ------------------------------------------------------------ *)
Definition whitespace_ops (last : option N) (cs : list choice) : list op * list choice :=
  match last with
  | None => ([], cs)
  | Some l =>
      if l =? 10 then
        let '(num_tabs, cs1) := rrange 0 4 cs in
        let '(tabs, cs2) := rbool 1 5 cs1 in
        if tabs then (repeat (OChar 9) (N.to_nat num_tabs), cs2)
        else (repeat (OChar 32) (N.to_nat (4 * num_tabs)), cs2)
      else
        let '(sp, cs1) := rbool 1 5 cs in
        if sp then ([OChar 32], cs1) else ([], cs1)
  end.

Definition space_ops (last : option N) : list op :=
  match last with
  | Some l => if is_ident_cont l then [OChar 32] else []
  | None => []
  end.

(* ---- the arms of `match base_token` ---------------------------------------- *)
(* which arms call add_space_if_necessary (before any draw) *)
Definition calls_add_space (k : token_kind) : bool :=
  match k with
  | TIdentifier | TBuiltin | TValueTypeKeyword | TNakedDecimal | TBitInteger
  | TSuffixedInteger | TBoolLiteral => true
  | TCharLiteral | TStringLiteral | TBraceLeft | TBraceRight => false
  | _ => match display k with
         | x :: _ => is_ident_cont x
         | [] => false
         end
  end.

(* add_space_if_necessary, seen from the two bytes that would become adjacent *)
Definition needs_space (prev_last_byte : option N) (next_first_byte : N) : bool :=
  match prev_last_byte with
  | Some l => is_ident_cont l && is_ident_cont next_first_byte
  | None => false
  end.

Definition bit_integer_text (v : N) (cs : list choice) : list N * list choice :=
  let '(hex, cs1) := rbool 1 2 cs in
  if hex then
    let '(upper, cs2) := rbool 1 2 cs1 in
    (48 :: 120 :: to_hex upper v, cs2)
  else (48 :: 98 :: to_binary v, cs1).

Definition suffixed_integer_text (v : N) (cs : list choice) : list N * list choice :=
  let '(dec, cs1) := rbool 3 4 cs in
  if dec then (to_decimal v, cs1) else bit_integer_text v cs1.

Definition char_literal_ops (cs : list choice) : list op * list choice :=
  let '(hex, cs1) := rbool 1 20 cs in
  if hex then
    let '(v, cs2) := rrange 0 256 cs1 in
    ([OChar 39; OStr (hex_escape v); OChar 39], cs2)
  else
    let '(a, cs2) := sample 0 (ascii_table single_char_weight) cs1 in
    (OChar 39 :: map OChar (escape_default a) ++ [OChar 39], cs2).

(* the body of `for _ in 0..n` of the string arm *)
Fixpoint string_body_ops (n : nat) (cs : list choice) : list op * list choice :=
  match n with
  | O => ([], cs)
  | S n' =>
      let '(hex, cs1) := rbool 1 100 cs in
      let '(piece, cs2) :=
        if hex then
          let '(v, r) := rrange 0 256 cs1 in ([OStr (hex_escape v)], r)
        else
          let '(c, r) := random_char cs1 in
          (* `!c.is_ascii() && rng.random_bool(0.5)`: no draw for ASCII *)
          let '(raw, r') := if c <? 128 then (false, r) else rbool 1 2 r in
          if raw then ([OChar c], r') else (map OChar (escape_default c), r') in
      let '(rest, cs3) := string_body_ops n' cs2 in
      (piece ++ rest, cs3)
  end.

Definition string_literal_ops (cs : list choice) : list op * list choice :=
  let '(n, cs1) := rrange 0 100 cs in
  let '(body, cs2) := string_body_ops (N.to_nat n) cs1 in
  (OChar 34 :: body ++ [OChar 34], cs2).

(* the pushes of one arm, without the add_space_if_necessary *)
Definition token_ops (k : token_kind) (cs : list choice) : list op * list choice :=
  match k with
  | TIdentifier =>
      let '(id, cs1) := random_identifier cs in ([OStr id], cs1)
  | TBuiltin =>
      let '(id, cs1) := random_identifier cs in ([OStr id; OChar 33], cs1)
  | TValueTypeKeyword =>
      let '(t, cs1) := sample VNoKeyword value_type_table cs in ([OStr (vt_display t)], cs1)
  | TNakedDecimal =>
      let '(v, cs1) := random_uint cs in ([OStr (to_decimal v)], cs1)
  | TBitInteger =>
      let '(v, cs1) := random_uint cs in
      let '(text, cs2) := bit_integer_text v cs1 in ([OStr text], cs2)
  | TSuffixedInteger =>
      let '(v, cs1) := random_uint cs in
      let '(text, cs2) := suffixed_integer_text v cs1 in
      let '(t, cs3) := sample VNoKeyword int_type_table cs2 in
      ([OStr text; OStr (vt_display t)], cs3)
  | TCharLiteral => char_literal_ops cs
  | TBoolLiteral =>
      let '(b, cs1) := rbool 1 2 cs in
      ([OStr (if b then str "true" else str "false")], cs1)
  | TStringLiteral => string_literal_ops cs
  | TBraceLeft => ([OChar 123], cs)
  | TBraceRight => ([OChar 125], cs)
  | _ => ([OStr (display k)], cs)
  end.

(* the spelling of a token of kind [k] *)
Definition emit_token (k : token_kind) (cs : list choice) : list N * list choice :=
  let '(ops, cs') := token_ops k cs in (ops_text ops, cs').

(* one whole arm *)
Definition push_token (k : token_kind) (last : option N) (cs : list choice) : list op * list choice :=
  let sp := if calls_add_space k then space_ops last else [] in
  let '(ops, cs') := token_ops k cs in
  (sp ++ ops, cs').

(* ---- newlines and comments ------------------------------------------------- *)
Record fstate := { fbuf : buf; nl_at : N; cm_at : N; foof : bool }.

Fixpoint newline_loop (fuel : nat) (st : fstate) (cs : list choice) : fstate * list choice :=
  match fuel with
  | O => ({| fbuf := fbuf st; nl_at := nl_at st; cm_at := cm_at st; foof := true |}, cs)
  | S f =>
      if nl_at st <? blen (fbuf st) then
        let '(cr, cs1) := rbool 1 20 cs in
        let b := apply_ops ((if cr then [OChar 13] else []) ++ [OChar 10]) (fbuf st) in
        let '(upd, cs2) := rbool 4 5 cs1 in
        if upd then
          let '(r, cs3) := rrange 10 80 cs2 in
          newline_loop f {| fbuf := b; nl_at := blen b + r; cm_at := cm_at st; foof := foof st |} cs3
        else
          newline_loop f {| fbuf := b; nl_at := nl_at st; cm_at := cm_at st; foof := foof st |} cs2
      else (st, cs)
  end.

(* the characters of one comment: `if c != '\n' { buffer.push(c) }` *)
Fixpoint comment_chars (n : nat) (cs : list choice) : list op * list choice :=
  match n with
  | O => ([], cs)
  | S n' =>
      let '(c, cs1) := random_char cs in
      let '(rest, cs2) := comment_chars n' cs1 in
      ((if c =? 10 then [] else [OChar c]) ++ rest, cs2)
  end.

Definition comment_ops (cs : list choice) : list op * list choice :=
  let '(nl, cs1) := rbool 4 5 cs in
  let '(n, cs2) := rrange 0 160 cs1 in
  let '(body, cs3) := comment_chars (N.to_nat n) cs2 in
  ((if nl then [OChar 10] else []) ++ OStr [47; 47] :: body ++ [OChar 10], cs3).

Fixpoint comment_loop (fuel : nat) (st : fstate) (cs : list choice) : fstate * list choice :=
  match fuel with
  | O => ({| fbuf := fbuf st; nl_at := nl_at st; cm_at := cm_at st; foof := true |}, cs)
  | S f =>
      if cm_at st <? blen (fbuf st) then
        let '(ops, cs1) := comment_ops cs in
        let b := apply_ops ops (fbuf st) in
        let '(upd, cs2) := rbool 9 10 cs1 in
        if upd then
          let '(r, cs3) := rrange 200 500 cs2 in
          comment_loop f {| fbuf := b; nl_at := nl_at st; cm_at := blen b + r; foof := foof st |} cs3
        else
          comment_loop f {| fbuf := b; nl_at := nl_at st; cm_at := cm_at st; foof := foof st |} cs2
      else (st, cs)
  end.

(* ---- the main loop ----------------------------------------------------------- *)
(* one iteration of the outer `while`; [fuel] bounds the two inner loops *)
Definition iteration (fuel : nat) (st : fstate) (cs : list choice) : fstate * list choice :=
  let '(st1, cs1) := newline_loop fuel st cs in
  let '(st2, cs2) := comment_loop fuel st1 cs1 in
  let '(ws, cs3) := whitespace_ops (last_byte (fbuf st2)) cs2 in
  let b3 := apply_ops ws (fbuf st2) in
  let '(k, cs4) := sample TEndOfSource token_table cs3 in
  let '(ops, cs5) := push_token k (last_byte b3) cs4 in
  ({| fbuf := apply_ops ops b3; nl_at := nl_at st2; cm_at := cm_at st2; foof := foof st2 |}, cs5).

Inductive status := Finished | OutOfChoices | OutOfFuel | AssertFailed.

Fixpoint emit_loop (fuel : nat) (percentage : N) (st : fstate) (cs : list choice) : status * fstate :=
  match fuel with
  | O => (OutOfFuel, st)
  | S f =>
      if 100 * blen (fbuf st) <? percentage * bcap (fbuf st) then
        match cs with
        | [] => (OutOfChoices, st)
        | _ :: _ => let '(st', cs') := iteration fuel st cs in emit_loop f percentage st' cs'
        end
      else (Finished, st)
  end.

(* fill_to_capacity_with_tokens(percentage, buffer, 0) on an empty buffer of the
   given capacity *)
Definition emit_run (fuel : nat) (choices : list choice) (capacity percentage : N) : status * fstate :=
  let '(n1, cs1) := rrange 10 80 choices in
  let '(n2, cs2) := rrange 200 500 cs1 in
  let st0 := {| fbuf := empty_buf capacity; nl_at := n1; cm_at := n2; foof := false |} in
  if percentage <? 100 then
    let '(s, st) := emit_loop fuel percentage st0 cs2 in
    ((if foof st then OutOfFuel else s), st)
  else (AssertFailed, st0).

(* the text (code points) and the bytes of the buffer afterwards *)
Definition emit (fuel : nat) (choices : list choice) (capacity percentage : N) : list N :=
  buf_text (fbuf (snd (emit_run fuel choices capacity percentage))).
Definition emit_bytes (fuel : nat) (choices : list choice) (capacity percentage : N) : list N :=
  encode (emit fuel choices capacity percentage).

(* do_fuzzing for FuzzingStrategy::Tokens *)
Definition fuzz_tokens (choices : list choice) (kb : N) : status * list N :=
  let r := emit_run (S (length choices)) choices (kb * 1096) 95 in
  (fst r, buf_bytes (fbuf (snd r))).
