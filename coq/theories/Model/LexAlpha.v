(* Model of the first-generation lexer, /repo/src/alpha/lexer.rs.

   Executable definitions only.  The source is a list of Unicode scalar values
   (the caller decodes UTF-8); the result is the list of [Tok.tok] that
   [lexer::lex] pushes, in order.

     lines_of            str::lines() (split at '\n'; one '\r' directly before a
                         '\n' is stripped; a '\r' at the very end is kept)
     lex_alpha           lexer::lex of the pinned commit (per-line offset bookkeeping
                         [offset += line.chars().count() + 1], the zero-byte
                         placeholder E101 with line_offset 1)
     lines_term, lex_lines_fixed, lex_alpha_fixed
                         lexer::lex after the CRLF repair (end of this file)
     lex_line_fuel       lexer::lex_line, the outer [while let Some(..) = iter.next()]
     lex_step            the [match x] of lex_line, position independent: all
                         offsets it returns are relative to the first character
                         of the token ([source_offset_start] / [line_offset])
     lex_word            arm ['a'..='z' | 'A'..='Z' | '_'] (keywords, types, bools,
                         placeholder, builtin [name!])
     lex_zero, lex_radix arm ['0'] (0x.., 0b.., plain 0 + suffix)
     lex_decimal         arm ['1'..='9']
     finish_number       the final [match value] / [match literal.parse()] of both
     from_str_radix      u128::from_str_radix / str::parse::<u128> (checked
                         multiply-then-add, digit by digit) and u32::from_str_radix
     parse_integer_suffix lexer::parse_integer_suffix
     is_ident_cont       lexer::is_identifier_continuation
     lex_quote, str_loop, esc_step
                         arm for the two quote characters: the inner [while let], and the
                         [match iter.next()] after a backslash
     utf8                char::encode_utf8

   Invariant of the Rust loop used silently: at the head of the inner string loop
   [source_offset_end - source_offset_start] equals the relative index of the next
   character (the only place where it runs ahead is a backslash at the very end
   of the line, after which nothing is left to scan).

   Fuel: [lex_line_fuel] and [str_loop] take the number of remaining characters
   as fuel (every iteration consumes at least one); running out yields the
   marker error code [OOF] (never produced with that fuel, see the proofs). *)
From PV Require Import Base.Common Base.IR Base.Tok.

Local Open Scope N_scope.

(* ------------------------------------------------------------------ *)
(* Character classes (char::is_ascii_digit, is_ascii_hexdigit, is_digit(2),
   is_ascii_graphic, is_ascii, lexer::is_identifier_continuation). *)

Definition in_range (lo hi c : N) : bool := (lo <=? c) && (c <=? hi).
Definition is_lower (c : N) : bool := in_range 97 122 c.
Definition is_upper (c : N) : bool := in_range 65 90 c.
Definition is_dec (c : N) : bool := in_range 48 57 c.
Definition is_nonzero_dec (c : N) : bool := in_range 49 57 c.
Definition is_hex (c : N) : bool := is_dec c || in_range 97 102 c || in_range 65 70 c.
Definition is_bin (c : N) : bool := (c =? 48) || (c =? 49).
Definition is_ident_start (c : N) : bool := is_lower c || is_upper c || (c =? 95).
Definition is_ident_cont (c : N) : bool := is_lower c || is_upper c || is_dec c || (c =? 95).
Definition is_ascii_graphic (c : N) : bool := in_range 33 126 c.
Definition is_ascii (c : N) : bool := c <=? 127.

(* Value of a hexadecimal digit character (char::to_digit(16)). *)
Definition digit_val (c : N) : Z :=
  Z.of_N (if is_dec c then c - 48 else if in_range 97 102 c then c - 87 else c - 55).

(* ------------------------------------------------------------------ *)
(* TABLES.  Plain association lists keyed by the spelling (code points); a
   generated table can replace this section. *)

Definition keyword_table : list (list N * tkind) :=
  [([102; 110], KFn);
   ([118; 97; 114], KVar);
   ([99; 111; 110; 115; 116], KConst);
   ([105; 102], KIf);
   ([103; 111; 116; 111], KGoto);
   ([108; 111; 111; 112], KLoop);
   ([101; 108; 115; 101], KElse);
   ([99; 97; 115; 116], KCast);
   ([97; 115], KAs);
   ([105; 109; 112; 111; 114; 116], KImport);
   ([112; 117; 98], KPub);
   ([101; 120; 116; 101; 114; 110], KExtern);
   ([115; 116; 114; 117; 99; 116], KStruct);
   ([119; 111; 114; 100; 56], KWord8);
   ([119; 111; 114; 100; 49; 54], KWord16);
   ([119; 111; 114; 100; 51; 50], KWord32);
   ([119; 111; 114; 100; 54; 52], KWord64);
   ([119; 111; 114; 100; 49; 50; 56], KWord128);
   ([95], KPlaceholder)].
  (* fn var const if goto loop else cast as import pub extern struct
     word8 word16 word32 word64 word128 _        (there is no "return") *)

Definition bool_table : list (list N * Z) :=
  [([116; 114; 117; 101], 1%Z);
   ([102; 97; 108; 115; 101], 0%Z)].
  (* true false *)

Definition type_table : list (list N * tykw) :=
  [([118; 111; 105; 100], TyVoid);
   ([105; 56], TyPrim Int8);
   ([105; 49; 54], TyPrim Int16);
   ([105; 51; 50], TyPrim Int32);
   ([105; 54; 52], TyPrim Int64);
   ([105; 49; 50; 56], TyPrim Int128);
   ([117; 56], TyPrim Uint8);
   ([117; 49; 54], TyPrim Uint16);
   ([117; 51; 50], TyPrim Uint32);
   ([117; 54; 52], TyPrim Uint64);
   ([117; 49; 50; 56], TyPrim Uint128);
   ([117; 115; 105; 122; 101], TyPrim Usize);
   ([99; 104; 97; 114; 56], TyPrim Char8);
   ([98; 111; 111; 108], TyPrim Bool)].
  (* void i8 i16 i32 i64 i128 u8 u16 u32 u64 u128 usize char8 bool *)

Definition suffix_table : list (list N * prim) :=
  [([105; 56], Int8);
   ([105; 49; 54], Int16);
   ([105; 51; 50], Int32);
   ([105; 54; 52], Int64);
   ([105; 49; 50; 56], Int128);
   ([117; 56], Uint8);
   ([117; 49; 54], Uint16);
   ([117; 51; 50], Uint32);
   ([117; 54; 52], Uint64);
   ([117; 49; 50; 56], Uint128);
   ([117; 115; 105; 122; 101], Usize)].
  (* i8 i16 i32 i64 i128 u8 u16 u32 u64 u128 usize   (no char8, no bool) *)

(* Simple escapes: the character after the backslash and the byte it pushes. *)
Definition escape_table : list (N * N) :=
  [(110, 10); (114, 13); (116, 9); (92, 92); (39, 39); (34, 34); (48, 0)].
  (* n r t backslash quote double-quote 0 *)

(* END OF TABLES *)
(* ------------------------------------------------------------------ *)

Fixpoint str_eqb (a b : list N) : bool :=
  match a, b with
  | [], [] => true
  | x :: a', y :: b' => (x =? y) && str_eqb a' b'
  | _, _ => false
  end.

Fixpoint assoc {A : Type} (k : list N) (t : list (list N * A)) : option A :=
  match t with
  | [] => None
  | (k', v) :: t' => if str_eqb k k' then Some v else assoc k t'
  end.

Fixpoint assoc_char (k : N) (t : list (N * N)) : option N :=
  match t with
  | [] => None
  | (k', v) :: t' => if k =? k' then Some v else assoc_char k t'
  end.

Definition len (cs : list N) : N := N.of_nat (length cs).

(* ------------------------------------------------------------------ *)
(* Integer parsing. *)

Definition U128_LIMIT : Z := (2 ^ 128)%Z.
Definition U32_LIMIT : Z := (2 ^ 32)%Z.

(* The checked loop of from_str_radix: result.checked_mul(radix)?.checked_add(digit)? *)
Fixpoint parse_acc (limit radix acc : Z) (ds : list N) : option Z :=
  match ds with
  | [] => Some acc
  | d :: r =>
      let m := (acc * radix)%Z in
      if (limit <=? m)%Z then None else
      let a := (m + digit_val d)%Z in
      if (limit <=? a)%Z then None else parse_acc limit radix a r
  end.

(* None = Err(_): empty string or overflow (the callers only pass valid digits). *)
Definition from_str_radix (limit radix : Z) (ds : list N) : option Z :=
  match ds with
  | [] => None
  | _ => parse_acc limit radix 0%Z ds
  end.

Definition parse_integer_suffix (suffix : list N) : option prim := assoc suffix suffix_table.

(* ------------------------------------------------------------------ *)
(* Scanning helpers: the [while let Some(&(_, y)) = iter.peek()] loops. *)

(* Longest prefix of identifier-continuation characters, and what follows it. *)
Fixpoint take_ident (cs : list N) : list N * list N :=
  match cs with
  | y :: r => if is_ident_cont y then let '(t, r') := take_ident r in (y :: t, r') else ([], cs)
  | [] => ([], [])
  end.

(* Digits satisfying [isd] are pushed onto the literal, '_' is consumed and
   dropped; returns (literal, number of characters consumed, what follows). *)
Fixpoint take_digits (isd : N -> bool) (cs : list N) : list N * N * list N :=
  match cs with
  | y :: r =>
      if isd y then let '(l, k, r') := take_digits isd r in (y :: l, 1 + k, r')
      else if y =? 95 then let '(l, k, r') := take_digits isd r in (l, 1 + k, r')
      else ([], 0, cs)
  | [] => ([], 0, [])
  end.

(* The digits of \u{...}: hex digits are pushed; '}' is consumed and closes;
   returns (literal, closed, characters consumed, what follows). *)
Fixpoint take_uhex (cs : list N) : list N * bool * N * list N :=
  match cs with
  | y :: r =>
      if is_hex y then let '(l, c, k, r') := take_uhex r in (y :: l, c, 1 + k, r')
      else if y =? 125 then ([], true, 1, r)
      else ([], false, 0, cs)
  | [] => ([], false, 0, [])
  end.

(* ------------------------------------------------------------------ *)
(* Result of scanning one token; all numbers are relative to its first char. *)

Inductive step :=
| StEnd                                    (* "//": the rest of the line is dropped *)
| StSkip                                   (* ' ' or '\t' *)
| StTok (k : tkind) (v : Z) (ty : option tykw) (bs : list N)
        (n : N) (rest : list N)            (* token of [n] characters *)
| StStrErr (c : Z) (es ee eo : N)          (* error inside a quoted literal: span [es,ee), line_offset + eo *)
           (n : N)                         (* source_offset_end - source_offset_start afterwards *)
           (m : N)                         (* characters consumed *)
           (rest : list N).

Definition payload : Type := tkind * Z * option tykw.

(* ------------------------------------------------------------------ *)
(* Words. *)

Definition classify_word (w : list N) : option payload :=
  match assoc w keyword_table with
  | Some k => Some (k, 0%Z, None)
  | None =>
  match assoc w bool_table with
  | Some b => Some (KBool, b, None)
  | None =>
  match assoc w type_table with
  | Some t => Some (KType, 0%Z, Some t)
  | None => None
  end end end.

Definition lex_word (x : N) (rest : list N) : step :=
  let '(t, r) := take_ident rest in
  let n := 1 + len t in
  match classify_word (x :: t) with
  | Some (k, v, ty) => StTok k v ty [] n r
  | None =>
      match r with
      | y :: r' => if y =? 33 then StTok KBuiltin 0%Z None [] (n + 1) r'
                   else StTok KIdentifier 0%Z None [] n r
      | [] => StTok KIdentifier 0%Z None [] n r
      end
  end.

(* ------------------------------------------------------------------ *)
(* Numbers. *)

Definition is_nil (l : list N) : bool := match l with [] => true | _ => false end.

(* [value] is None for Err(InvalidIntegerLength). [zero_arm] selects the extra
   first two cases of the '0' arm. *)
Definition finish_number (zero_arm : bool) (value : option Z) (literal suffix : list N) : payload :=
  match value with
  | None => (KError, E140, None)
  | Some v =>
      if zero_arm && (v =? 0)%Z && is_nil literal && is_nil suffix then (KNakedDecimal, 0%Z, None)
      else if is_nil suffix then ((if zero_arm then KBitInteger else KNakedDecimal), v, None)
      else match parse_integer_suffix suffix with
           | Some p => (KSuffixedInteger, v, Some (TyPrim p))
           | None => (KError, E141, None)
           end
  end.

(* "0x" / "0b" already consumed; [pc] is the prefix character pushed onto the
   suffix when there are no digits at all. *)
Definition lex_radix (isd : N -> bool) (radix : Z) (pc : N) (cs : list N) : step :=
  let '(lit, k, r2) := take_digits isd cs in
  let '(suf, r3) := take_ident r2 in
  let '(value, suffix) :=
    match from_str_radix U128_LIMIT radix lit with
    | Some v => (Some v, suf)
    | None => if is_nil lit then (Some 0%Z, pc :: suf) else (None, suf)
    end in
  let '(kd, v, ty) := finish_number true value lit suffix in
  StTok kd v ty [] (2 + k + len suf) r3.

Definition lex_zero (rest : list N) : step :=
  let plain :=
    let '(suf, r) := take_ident rest in
    let '(kd, v, ty) := finish_number true (Some 0%Z) [] suf in
    StTok kd v ty [] (1 + len suf) r in
  match rest with
  | y :: r1 =>
      if y =? 120 then lex_radix is_hex 16%Z 120 r1
      else if y =? 98 then lex_radix is_bin 2%Z 98 r1
      else plain
  | [] => plain
  end.

Definition lex_decimal (x : N) (rest : list N) : step :=
  let '(lit, k, r2) := take_digits is_dec rest in
  let '(suf, r3) := take_ident r2 in
  let '(kd, v, ty) :=
    finish_number false (from_str_radix U128_LIMIT 10%Z (x :: lit)) (x :: lit) suf in
  StTok kd v ty [] (1 + k + len suf) r3.

(* ------------------------------------------------------------------ *)
(* Quoted literals. *)

Definition utf8 (c : N) : list N :=
  if c <? 128 then [c]
  else if c <? 2048 then [192 + c / 64; 128 + c mod 64]
  else if c <? 65536 then [224 + c / 4096; 128 + (c / 64) mod 64; 128 + c mod 64]
  else [240 + c / 262144; 128 + (c / 4096) mod 64; 128 + (c / 64) mod 64; 128 + c mod 64].

(* char::from_u32 *)
Definition is_scalar (v : Z) : bool :=
  ((v <? 55296) || ((57344 <=? v) && (v <? 1114112)))%Z.

(* u32::from_str_radix(&literal, 16).ok().and_then(char::from_u32) *)
Definition parse_unicode (lit : list N) : option N :=
  match from_str_radix U32_LIMIT 16%Z lit with
  | Some v => if is_scalar v then Some (Z.to_N v) else None
  | None => None
  end.

(* What follows a backslash.  Returns
     (bytes pushed, error, advance of source_offset_end for this iteration of
      the outer string loop INCLUDING the backslash, characters consumed after
      the backslash, what follows). *)
Definition esc_step (cs : list N) : list N * option Z * N * N * list N :=
  match cs with
  | [] => ([], Some E161, 2, 0, [])
  | c :: r =>
      match assoc_char c escape_table with
      | Some b => ([b], None, 2, 1, r)
      | None =>
      if c =? 120 then                                   (* \x *)
        match r with
        | d1 :: r1 =>
            if is_hex d1 then
              match r1 with
              | d2 :: r2 =>
                  if is_hex d2 then ([Z.to_N (digit_val d1 * 16 + digit_val d2)], None, 4, 3, r2)
                  else ([], Some E162, 3, 2, r1)
              | [] => ([], Some E162, 3, 2, r1)
              end
            else ([], Some E162, 2, 1, r)
        | [] => ([], Some E162, 2, 1, r)
        end
      else if c =? 117 then                              (* \u *)
        match r with
        | o :: r1 =>
            if o =? 123 then
              let '(lit, closed, k, r2) := take_uhex r1 in
              match parse_unicode (if closed then lit else []) with
              | Some u => (utf8 u, None, 3 + k, 2 + k, r2)
              | None => ([], Some E162, 3 + k, 2 + k, r2)
              end
            else ([], Some E162, 2, 1, r)
        | [] => ([], Some E162, 2, 1, r)
        end
      else ([], Some E162, 2, 1, r)
      end
  end.

(* An error token recorded in [first_error_token]:
   (code, span start, span end, end_of_line_offset), relative to the opening quote. *)
Definition strerr : Type := Z * N * N * N.

Record strres := {
  sr_bytes : list N;
  sr_closed : bool;
  sr_err : option strerr;    (* first error found by the loop itself *)
  sr_soe : N;                (* source_offset_end - source_offset_start at exit *)
  sr_eolo : N;               (* end_of_line_offset - line_offset at exit *)
  sr_chars : N;              (* characters consumed by the loop *)
  sr_rest : list N
}.

Definition OOF : Z := (-1)%Z.

(* One more iteration in front of [res]: it pushed [bs], possibly recorded the
   error [er] (get_or_insert: the earliest wins) and consumed [k] characters. *)
Definition sr_cons (bs : list N) (er : option strerr) (k : N) (res : strres) : strres :=
  {| sr_bytes := bs ++ sr_bytes res;
     sr_closed := sr_closed res;
     sr_err := match er with Some e => Some e | None => sr_err res end;
     sr_soe := sr_soe res;
     sr_eolo := sr_eolo res;
     sr_chars := k + sr_chars res;
     sr_rest := sr_rest res |}.

(* [q] opening quote; [p] relative index of the head of [cs]
   (= source_offset_end - source_offset_start); [e] current end_of_line_offset
   (relative to line_offset of the opening quote). *)
Fixpoint str_loop (fuel : nat) (q p e : N) (cs : list N) : strres :=
  match cs with
  | [] => {| sr_bytes := []; sr_closed := false; sr_err := None;
             sr_soe := p; sr_eolo := e; sr_chars := 0; sr_rest := [] |}
  | x :: r =>
      match fuel with
      | O => {| sr_bytes := []; sr_closed := false; sr_err := Some (OOF, p, p, e);
                sr_soe := p; sr_eolo := e; sr_chars := 0; sr_rest := cs |}
      | S f =>
          if x =? 92 then
            let '(bs, er, adv, m, r') := esc_step r in
            sr_cons bs
                    (match er with Some c => Some (c, p, p + adv, p + 1) | None => None end)
                    (1 + m) (str_loop f q (p + adv) (p + 1) r')
          else if x =? q then
            {| sr_bytes := []; sr_closed := true; sr_err := None;
               sr_soe := p + 1; sr_eolo := p + 1; sr_chars := 1; sr_rest := r |}
          else if x =? 32 then sr_cons [32] None 1 (str_loop f q (p + 1) (p + 1) r)
          else if is_ascii_graphic x then sr_cons [x] None 1 (str_loop f q (p + 1) (p + 1) r)
          else if is_ascii x then
            sr_cons [] (Some (E110, p, p + 1, p + 1)) 1 (str_loop f q (p + 1) (p + 1) r)
          else sr_cons (utf8 x) None 1 (str_loop f q (p + 1) (p + 1) r)
      end
  end.

Definition lex_quote (q : N) (rest : list N) : step :=
  let res := str_loop (length rest) q 1 1 rest in
  let first_error :=
    match sr_err res with
    | Some e => Some e
    | None => if sr_closed res then None else Some (E160, 0, sr_soe res, sr_eolo res)
    end in
  match first_error with
  | Some (c, es, ee, eo) => StStrErr c es ee eo (sr_soe res) (1 + sr_chars res) (sr_rest res)
  | None =>
      if q =? 34 then StTok KStringLiteral 0%Z None (sr_bytes res) (sr_soe res) (sr_rest res)
      else match sr_bytes res with
           | [b] => StTok KCharLiteral (Z.of_N b) None [] (sr_soe res) (sr_rest res)
           | _ => StTok KError E163 None [] (sr_soe res) (sr_rest res)
           end
  end.

(* ------------------------------------------------------------------ *)
(* The [match x] of lex_line. *)

Definition single (k : tkind) (rest : list N) : step := StTok k 0%Z None [] 1 rest.

(* [x] followed by [y] makes the two-character token [k2], otherwise [k1]. *)
Definition double (y : N) (k2 k1 : tkind) (rest : list N) : step :=
  match rest with
  | z :: r => if z =? y then StTok k2 0%Z None [] 2 r else single k1 rest
  | [] => single k1 rest
  end.

Definition lex_step (x : N) (rest : list N) : step :=
  if x =? 40 then single KParenLeft rest
  else if x =? 41 then single KParenRight rest
  else if x =? 123 then single KBraceLeft rest
  else if x =? 125 then single KBraceRight rest
  else if x =? 91 then single KBracketLeft rest
  else if x =? 93 then single KBracketRight rest
  else if x =? 60 then                                          (* < << <= *)
    match rest with
    | z :: r => if z =? 60 then StTok KShiftLeft 0%Z None [] 2 r
                else if z =? 61 then StTok KIsLE 0%Z None [] 2 r
                else single KAngleLeft rest
    | [] => single KAngleLeft rest
    end
  else if x =? 62 then                                          (* > >> >= *)
    match rest with
    | z :: r => if z =? 62 then StTok KShiftRight 0%Z None [] 2 r
                else if z =? 61 then StTok KIsGE 0%Z None [] 2 r
                else single KAngleRight rest
    | [] => single KAngleRight rest
    end
  else if x =? 124 then double 58 KPipeForType KPipe rest       (* | |: *)
  else if x =? 38 then single KAmpersand rest
  else if x =? 94 then single KCaret rest
  else if x =? 33 then double 61 KDoesNotEqual KExclamation rest (* ! != *)
  else if x =? 43 then single KPlus rest
  else if x =? 42 then single KTimes rest
  else if x =? 37 then single KModulo rest
  else if x =? 58 then single KColon rest
  else if x =? 59 then single KSemicolon rest
  else if x =? 46 then double 46 KDots KDot rest                (* . .. *)
  else if x =? 44 then single KComma rest
  else if x =? 61 then double 61 KEquals KAssignment rest       (* = == *)
  else if x =? 45 then double 62 KArrow KMinus rest             (* - -> *)
  else if x =? 47 then                                          (* / // *)
    match rest with
    | z :: _ => if z =? 47 then StEnd else single KDivide rest
    | [] => single KDivide rest
    end
  else if is_ident_start x then lex_word x rest
  else if x =? 48 then lex_zero rest
  else if is_nonzero_dec x then lex_decimal x rest
  else if (x =? 34) || (x =? 39) then lex_quote x rest
  else if (x =? 32) || (x =? 9) then StSkip
  else StTok KError E110 None [] 1 rest.

(* ------------------------------------------------------------------ *)
(* lex_line and lex. *)

Definition mk (k : tkind) (v : Z) (ty : option tykw) (bs : list N)
              (s e ln lo : N) : tok :=
  {| kind := k; value := v; vtype := ty; bytes := bs;
     tstart := s; tend := e; line := ln; lstart := lo |}.

(* [ln] line_number, [sos] source_offset_start, [lo] line_offset of the head of [cs]. *)
Fixpoint lex_line_fuel (fuel : nat) (ln sos lo : N) (cs : list N) : list tok :=
  match cs with
  | [] => []
  | x :: rest =>
      match fuel with
      | O => [mk KError OOF None [] sos sos ln lo]
      | S f =>
          match lex_step x rest with
          | StEnd => []
          | StSkip => lex_line_fuel f ln (sos + 1) (lo + 1) rest
          | StTok k v ty bs n rest' =>
              mk k v ty bs sos (sos + n) ln lo
              :: lex_line_fuel f ln (sos + n) (lo + n) rest'
          | StStrErr c es ee eo n m rest' =>
              mk KError c None [] (sos + es) (sos + ee) ln (lo + eo)
              :: lex_line_fuel f ln (sos + n) (lo + m) rest'
          end
      end
  end.

Definition lex_line (cs : list N) (offset ln : N) : list tok :=
  lex_line_fuel (length cs) ln offset 0 cs.

(* str::lines() *)
Fixpoint lines_of (cs : list N) : list (list N) :=
  match cs with
  | [] => []
  | c :: r =>
      if c =? 10 then [] :: lines_of r
      else if (c =? 13) && match r with n :: _ => n =? 10 | [] => false end then lines_of r
      else match lines_of r with
           | [] => [[c]]
           | l :: ls => (c :: l) :: ls
           end
  end.

(* [i] is the index of enumerate(). *)
Fixpoint lex_lines (ls : list (list N)) (offset i : N) : list tok :=
  match ls with
  | [] => []
  | l :: r => lex_line l offset (1 + i) ++ lex_lines r (offset + (len l + 1)) (i + 1)
  end.

Definition zero_byte_tok : tok := mk KError E101 None [] 0 0 1 1.

Definition lex_alpha (src : list N) : list tok :=
  lex_lines (lines_of src) 0 0 ++ (if is_nil src then [zero_byte_tok] else []).

(* ------------------------------------------------------------------ *)
(* The repaired lexer::lex (commit "fix: count the carriage return of CRLF
   line ends in token offsets").  lex_line is unchanged; only the bookkeeping
   of the offset of each line differs:

     start_of_line = byte offset of the line within the source
     offset += start_of_line - end_of_previous_line   (the terminator, 1 or 2 one-byte chars)
     lex_line(line, .., offset, 1 + i, ..)
     offset += line.chars().count()
     end_of_previous_line = start_of_line + line.len()

   [lines_term] is str::lines() together with the number of characters of the
   terminator that FOLLOWS each line: 1 for LF, 2 for CR LF, 0 for a final line
   without terminator.  The gap [start_of_line - end_of_previous_line] the code
   adds before lexing a line is the terminator of the line before it (0 before
   the first line), so adding it right after the previous line, as
   [lex_lines_fixed] does, gives every call of lex_line the same offset. *)

Fixpoint lines_term (cs : list N) : list (list N * N) :=
  match cs with
  | [] => []
  | c :: r =>
      if c =? 10 then ([], 1) :: lines_term r
      else if (c =? 13) && match r with n :: _ => n =? 10 | [] => false end then
        (* CR LF: [lines_term r] starts with the empty line terminated by that LF *)
        match lines_term r with
        | (l, t) :: ls => (l, 1 + t) :: ls
        | [] => []
        end
      else match lines_term r with
           | [] => [([c], 0)]
           | (l, t) :: ls => (c :: l, t) :: ls
           end
  end.

(* [offset] character offset of the first line of [ls]; [i] index of enumerate(). *)
Fixpoint lex_lines_fixed (ls : list (list N * N)) (offset i : N) : list tok :=
  match ls with
  | [] => []
  | (l, term) :: r =>
      lex_line l offset (1 + i) ++ lex_lines_fixed r (offset + len l + term) (i + 1)
  end.

Definition lex_alpha_fixed (src : list N) : list tok :=
  lex_lines_fixed (lines_term src) 0 0 ++ (if is_nil src then [zero_byte_tok] else []).
